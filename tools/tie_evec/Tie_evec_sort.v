(** static tie, group EVEC-SORT: evec_sort of cij/misc/evec_sort.py, regenerated from the source (specialised to
    filter=None, threshold=None), is the model's [evec_sort] (theories/EvecSortModel.v) over R, for ALL inputs:
      - the dimension check  len(set(...)) != 1 or ndim not in set  <->  not every collected length equals ndim;
      - the matrix is conj(base) @ target.T: entry (i, j) = <base_i, target_j>, and the loop looks at its MODULUS
        (numpy.abs, not the square);
      - each of the ndim rounds: argmax over the whole flattened matrix (first maximum), unravelled to (row, col) by
        the row length, that row and that column zeroed, sorted_arr[row] = target_arr[col];
      - the translated loop body is proved to SIMULATE the model's greedy [step] on the matrix of moduli
        (|0| = 0, untouched entries keep their modulus), the invariant being "n rows of length n";
      - the list built is returned as it is. *)
From Coq Require Import List Arith Bool Reals Lra Lia PeanoNat.
From Cij Require Import Ops ROps EvecSortModel EvecSort.
From CijGen Require Import EvecTieBase Gen_evec.
Import ListNotations.

Notation cR := (R * R)%type.
Notation cvdot := (vdot (@c_add R ROps) (@c_mul R ROps) (@c_zero R ROps)).
Notation absM := (map (map (@c_abs R ROps))).
Notation gtbR := (@gtb_ops R ROps).

(* ---------------------------------------------------------------------------------------------- *)
(** * the dimension check *)
Lemma nodup_all_eq : forall (n : nat) (l : list nat), l <> [] -> (forall x, In x l -> x = n) ->
  nodup Nat.eq_dec l = [n].
Proof.
  induction l as [|x l IH]; intros Hne Hall; [congruence|]. cbn [nodup].
  assert (x = n) by (apply Hall; left; reflexivity). subst x.
  destruct l as [|y l'].
  - destruct (in_dec Nat.eq_dec n []) as [[]|_]. reflexivity.
  - destruct (in_dec Nat.eq_dec n (y :: l')) as [Hin|Hnin].
    + apply IH; [discriminate | intros; apply Hall; right; assumption].
    + exfalso. apply Hnin. left. apply Hall. right; left; reflexivity.
Qed.

Lemma dims_test : forall n nt nb (rl : list nat),
  orb (negb (Nat.eqb (set_len (py_set (nt :: nb :: rl))) 1)) (negb (set_mem n (py_set (nt :: nb :: rl))))
  = negb (dims_ok n nt nb rl).
Proof.
  intros n nt nb rl. unfold dims_ok. set (l := nt :: nb :: rl). unfold py_set, set_len, set_mem.
  destruct (forallb (Nat.eqb n) l) eqn:E.
  - assert (Hall : forall x, In x l -> x = n).
    { intros x Hin. rewrite forallb_forall in E. specialize (E x Hin). apply Nat.eqb_eq in E. congruence. }
    rewrite (nodup_all_eq n l) by (try exact Hall; discriminate). cbn. rewrite Nat.eqb_refl. reflexivity.
  - cbn [negb]. destruct (Nat.eqb (length (nodup Nat.eq_dec l)) 1) eqn:E1; [|reflexivity].
    destruct (existsb (Nat.eqb n) (nodup Nat.eq_dec l)) eqn:E2; [|reflexivity]. exfalso.
    apply Nat.eqb_eq in E1.
    destruct (nodup Nat.eq_dec l) as [|y [|y' q]] eqn:EN; cbn in E1; try discriminate.
    cbn in E2. rewrite orb_false_r in E2. apply Nat.eqb_eq in E2. subst y.
    assert (forallb (Nat.eqb n) l = true); [|congruence].
    apply forallb_forall. intros x Hin. apply (nodup_In Nat.eq_dec) in Hin. rewrite EN in Hin.
    destruct Hin as [<-|[]]. apply Nat.eqb_refl.
Qed.

(* ---------------------------------------------------------------------------------------------- *)
(** * the overlap matrix *)
Lemma cvdot_conj_model : forall b t : list cR, cvdot (map (@c_conj R ROps) b) t = @cdot_conj R ROps b t.
Proof.
  induction b as [|[x1 x2] b IH]; intros [|[y1 y2] t]; try reflexivity.
  cbn [map vdot cdot_conj]. rewrite IH. unfold c_add, c_mul, c_conj, cmul_conj. cbn [fst snd]. rops.
  f_equal; ring.
Qed.

Lemma overlap_tie : forall base target : list (list cR),
  absM (@cm_matmul_nt R ROps (@cm_conj R ROps (np_array base)) (np_array target)) = @overlap R ROps base target.
Proof.
  intros. unfold cm_matmul_nt, matmul_nt, cm_conj, np_array, overlap. rewrite !map_map.
  apply map_ext. intros b. rewrite map_map. apply map_ext. intros t. rewrite cvdot_conj_model. reflexivity.
Qed.

(* ---------------------------------------------------------------------------------------------- *)
(** * numpy operations vs the model's *)
Lemma scan_max_model : forall (l : list R) k bk bv, @scan_max R ROps l k bk bv = argmax_from gtbR l k bk bv.
Proof. induction l as [|x l IH]; intros; [reflexivity|]. cbn [scan_max argmax_from]. unfold gtb_ops at 1. rewrite !IH. reflexivity. Qed.
Lemma np_argmax2_model : forall a : list (list R), @np_argmax2 R ROps a = argmax gtbR (concat a).
Proof. intros a. unfold np_argmax2, argmax. destruct (concat a); [reflexivity | apply scan_max_model]. Qed.

Lemma list_set_model {B : Type} : forall (l : list B) j z, list_set l j z = set_nth j z l.
Proof.
  unfold list_set. induction l as [|x l IH]; intros [|j] z; try reflexivity.
  cbn [firstn skipn app set_nth]. f_equal. apply IH.
Qed.
Lemma mat_set_row_model {T : Type} : forall (m : list (list T)) i z, mat_set_row m i z = zero_row z i m.
Proof.
  unfold mat_set_row. induction m as [|r m IH]; intros [|i] z; try reflexivity.
  cbn [firstn skipn app zero_row]. f_equal. apply IH.
Qed.
Lemma mat_set_col_model {T : Type} : forall (m : list (list T)) j z, mat_set_col m j z = zero_col z j m.
Proof. intros. unfold mat_set_col, zero_col. apply map_ext. intros row. apply list_set_model. Qed.

Lemma c_abs_zero : @c_abs R ROps (@c_zero R ROps) = 0%R.
Proof. unfold c_abs, c_zero. cbn [fst snd]. rops. replace (0 * 0 + 0 * 0)%R with 0%R by ring. apply sqrt_0. Qed.

Lemma abs_zero_row : forall (m : list (list cR)) i, absM (zero_row (@c_zero R ROps) i m) = zero_row 0%R i (absM m).
Proof.
  induction m as [|r m IH]; intros [|i]; try reflexivity.
  - cbn [zero_row map]. f_equal. rewrite !map_map. apply map_ext. intros _. apply c_abs_zero.
  - cbn [zero_row map]. f_equal. apply IH.
Qed.
Lemma abs_set_nth : forall (row : list cR) j,
  map (@c_abs R ROps) (set_nth j (@c_zero R ROps) row) = set_nth j 0%R (map (@c_abs R ROps) row).
Proof.
  induction row as [|x row IH]; intros [|j]; try reflexivity.
  - cbn [set_nth map]. rewrite c_abs_zero. reflexivity.
  - cbn [set_nth map]. f_equal. apply IH.
Qed.
Lemma abs_zero_col : forall (m : list (list cR)) j, absM (zero_col (@c_zero R ROps) j m) = zero_col 0%R j (absM m).
Proof. intros. unfold zero_col. rewrite !map_map. apply map_ext. intros row. apply abs_set_nth. Qed.

Lemma shape_abs : forall n (m : list (list cR)), shape n m -> shape n (absM m).
Proof.
  intros n m [Hl Hr]. split; [rewrite map_length; exact Hl|].
  intros row Hin. apply in_map_iff in Hin. destruct Hin as [r [<- Hin]]. rewrite map_length. apply Hr. exact Hin.
Qed.

(* ---------------------------------------------------------------------------------------------- *)
(** * one round of the loop *)
Definition gstep {A : Type} (items : list A) (st : list (list cR) * list (option A)) (i : nat)
  : option (list (list cR) * list (option A)) :=
  let '(m, sorted) := st in
  let k := argmax gtbR (concat (absM m)) in
  let ncol := length (hd [] m) in
  match nth_error items (k mod ncol) with
  | Some it =>
      match py_list_set sorted (k / ncol) (Some it) with
      | Some s' => Some (zero_col (@c_zero R ROps) (k mod ncol) (zero_row (@c_zero R ROps) (k / ncol) m), s')
      | None => None
      end
  | None => None
  end.

Lemma gstep_sim : forall (A : Type) (n : nat) (items : list A) (m : list (list cR)) (sorted : list (option A)) (i : nat),
  (0 < n)%nat -> length items = n -> shape n m -> length sorted = n ->
  exists m' s', gstep items (m, sorted) i = Some (m', s') /\ shape n m' /\ length s' = n /\
    step 0%R gtbR n items (absM m, sorted) = (absM m', s').
Proof.
  intros A n items m sorted i Hn Hit Hsh Hso. unfold gstep.
  pose proof (shape_abs n m Hsh) as Hsa. destruct Hsh as [Hl Hr]. destruct Hsa as [Hla Hra].
  set (a := absM m) in *. set (k := argmax gtbR (concat a)).
  assert (Hlen : length (concat a) = (n * n)%nat) by (apply concat_length_shape; assumption).
  assert (Hne : concat a <> []) by (intro E; rewrite E in Hlen; cbn in Hlen; nia).
  destruct (argmax_spec 0%R Rlt gtbR R_ord_ok (concat a) Hne) as [Hk _]. fold k in Hk. rewrite Hlen in Hk.
  assert (Hncol : length (hd [] m) = n).
  { destruct m as [|r0 m0]; [cbn in Hl; lia|]. cbn [hd]. apply Hr. left. reflexivity. }
  rewrite Hncol.
  assert (Hr_lt : (k / n < n)%nat) by (apply Nat.div_lt_upper_bound; lia).
  assert (Hc_lt : (k mod n < n)%nat) by (apply Nat.mod_upper_bound; lia).
  destruct (nth_error items (k mod n)) as [it|] eqn:Eit.
  2:{ apply nth_error_None in Eit. lia. }
  unfold py_list_set. replace (k / n <? length sorted)%nat with true by (symmetry; apply Nat.ltb_lt; lia).
  eexists. eexists. split; [reflexivity|]. split; [|split].
  - apply zero_col_shape. apply zero_row_shape. split; assumption.
  - rewrite list_set_model, set_nth_length. exact Hso.
  - unfold step. fold k. rewrite abs_zero_col, abs_zero_row. fold a. rewrite Eit, list_set_model. reflexivity.
Qed.

Lemma iter_succ_r {X : Type} (f : X -> X) : forall n x, Nat.iter (S n) f x = Nat.iter n f (f x).
Proof.
  induction n as [|n IH]; intros x; [reflexivity|].
  change (f (Nat.iter (S n) f x) = f (Nat.iter n f (f x))). f_equal. apply IH.
Qed.

Lemma loop_sim : forall (A : Type) (n : nat) (items : list A), (0 < n)%nat -> length items = n ->
  forall (count start : nat) (m : list (list cR)) (sorted : list (option A)), shape n m -> length sorted = n ->
  exists m' s', py_for (gstep items) (seq start count) (m, sorted) = Some (m', s') /\
    Nat.iter count (step 0%R gtbR n items) (absM m, sorted) = (absM m', s').
Proof.
  intros A n items Hn Hit. induction count as [|c IH]; intros start m sorted Hsh Hso.
  - exists m, sorted. split; reflexivity.
  - destruct (gstep_sim A n items m sorted start Hn Hit Hsh Hso) as [m1 [s1 [E1 [Hsh1 [Hso1 Est]]]]].
    destruct (IH (S start) m1 s1 Hsh1 Hso1) as [m' [s' [E2 E3]]].
    exists m', s'. split.
    + cbn [seq py_for]. rewrite E1. exact E2.
    + rewrite iter_succ_r. rewrite Est. exact E3.
Qed.

(* ---------------------------------------------------------------------------------------------- *)
Theorem tie_evec_sort : forall (A : Type) (items : list A) (target base : list (list cR)),
  @ge_evec_sort R ROps A items target base = @evec_sort R ROps A items target base.
Proof.
  intros A items target base. unfold ge_evec_sort, evec_sort. cbv zeta.
  rewrite dims_test. unfold cplx, EvecSortModel.cplx.
  destruct (dims_ok (length items) (length target) (length base) (map (@length cR) (target ++ base))) eqn:D;
    cbn [negb]; [|reflexivity].
  rewrite (py_for_ext _ (gstep items)).
  2:{ intros [m s] i. cbv zeta. unfold gstep, np_unravel, mat_shape, cm_abs. cbn [fst snd].
      rewrite np_argmax2_model, mat_set_row_model, mat_set_col_model.
      destruct (nth_error items _); [|reflexivity]. destruct (py_list_set s _ _); reflexivity. }
  unfold evec_sort_mat, greedy. rewrite <- overlap_tie.
  (* what the dimension check established *)
  unfold dims_ok in D. rewrite forallb_forall in D.
  assert (Ht : length target = length items)
    by (symmetry; apply Nat.eqb_eq; apply D; left; reflexivity).
  assert (Hb : length base = length items)
    by (symmetry; apply Nat.eqb_eq; apply D; right; left; reflexivity).
  set (n := length items) in *.
  set (m0 := @cm_matmul_nt R ROps (@cm_conj R ROps (np_array base)) (np_array target)).
  assert (Hsh : shape n m0).
  { unfold m0, cm_matmul_nt, matmul_nt, cm_conj, np_array. split.
    - rewrite !map_length. exact Hb.
    - intros row Hin. apply in_map_iff in Hin. destruct Hin as [r [<- _]]. rewrite map_length. exact Ht. }
  destruct (Nat.eq_0_gt_0_cases n) as [E0|Hpos].
  - rewrite E0. reflexivity.
  - destruct (loop_sim A n items Hpos eq_refl n 0%nat m0 (repeat None n) Hsh (repeat_length _ _)) as [m' [s' [E1 E2]]].
    rops. rewrite E1, E2. reflexivity.
Qed.

(** non-vacuity / sanity: the generated function sorts a 2x2 example and rejects a mismatch *)
Example sort_rejects : @ge_evec_sort R ROps nat [1; 2]%nat [[(1, 0); (0, 0)]; [(0, 0); (1, 0)]]%R [[(1, 0); (0, 0)]]%R = None.
Proof. rewrite tie_evec_sort. reflexivity. Qed.

Print Assumptions tie_evec_sort.
