(** static tie, group EVEC-LOAD: the two regular expressions of cij/misc/evec_load.py (pattern text parsed again on
    every run and translated node by node) and the vector-line reader of _read_vecs (column slices, real / imaginary
    pairing) are the ones of theories/MatdynModel.v. *)
From Coq Require Import List Arith Ascii String.
From Cij Require Import MatdynModel.
From CijGen Require Import EvecTieBase Gen_evec.
Import ListNotations.

Lemma tie_q_coords_regex : ge_Q_COORDS_REGEX = Q_COORDS_REGEX.
Proof. reflexivity. Qed.

Lemma tie_mode_index_regex : ge_MODE_INDEX_REGEX = MODE_INDEX_REGEX.
Proof. reflexivity. Qed.

(** so every search gives the same groups *)
Corollary tie_regex_search : forall s,
  search ge_Q_COORDS_REGEX s = search Q_COORDS_REGEX s /\ search ge_MODE_INDEX_REGEX s = search MODE_INDEX_REGEX s.
Proof. intros s. rewrite tie_q_coords_regex, tie_mode_index_regex. split; reflexivity. Qed.

(** line = next(fp).strip(); (float(line[2:12]) + float(line[13:23]) * 1j, ...) *)
Lemma tie_read_vec_line : forall l : line, ge_read_vec_line l = parse_vec_line l.
Proof. intros l. reflexivity. Qed.

Lemma tie_lines_per_mode : forall np fp, read_vecs (ge_read_vecs_lines_per_mode np) fp = read_vecs (np / 3) fp.
Proof. intros. reflexivity. Qed.

Theorem tie_group_evec_load :
  ge_Q_COORDS_REGEX = Q_COORDS_REGEX /\ ge_MODE_INDEX_REGEX = MODE_INDEX_REGEX /\
  (forall l : line, ge_read_vec_line l = parse_vec_line l) /\
  (forall np fp, read_vecs (ge_read_vecs_lines_per_mode np) fp = read_vecs (np / 3) fp).
Proof. repeat split. Qed.
Print Assumptions tie_group_evec_load.
