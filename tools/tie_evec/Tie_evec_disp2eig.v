(** static tie, group EVEC-DISP2EIG: evec_disp2eig of cij/misc/evec_disp2eig.py, regenerated from the source for a
    real and for a complex array, is the model's [disp2eig] / [disp2eig_c] (theories/Disp2EigModel.v) over R:
      - m = numpy.repeat(mass, 3): each atom's mass three times;   a.shape[1] == 3*N or RuntimeError;
      - a *= sqrt(m)[nax, :]: column 3k+c times sqrt(m_k);
      - norm = diag(conj(a) @ a.T): row i gets sum_j |a_ij|^2;     a /= sqrt(norm)[:, nax]: row i divided by its norm.
    Hypotheses: [rect a] (a numpy 2-D array: at least one row, all rows of one length); complex case: no weighted row
    has norm 0 (0/0 is NaN in numpy, x * /0 in R - the two are not compared). *)
From Coq Require Import List Arith Bool Reals Lra Lia.
From Cij Require Import Ops ROps Disp2EigModel.
From CijGen Require Import EvecTieBase Gen_evec.
Import ListNotations.
Local Open Scope R_scope.

Definition rect {T : Type} (a : list (list T)) : Prop :=
  a <> [] /\ forall row, In row a -> length row = length (hd [] a).

(* ---------------------------------------------------------------------------------------------- *)
(** * list lemmas *)
Lemma np_repeat_3 : forall mass : list R, @np_repeat R mass 3 = repeat3 mass.
Proof. induction mass as [|x r IH]; [reflexivity|]. unfold np_repeat in *. cbn [flat_map]. rewrite IH. reflexivity. Qed.

Lemma shape_test {T : Type} : forall (a : list (list T)) (k n : nat), rect a -> k = (3 * n)%nat ->
  Nat.eqb (snd (mat_shape a)) k = shape_ok a n.
Proof.
  intros a k n [Hne Hrows] ->. unfold mat_shape, shape_ok. cbn [snd].
  destruct (Nat.eqb (length (hd [] a)) (3 * n)) eqn:E.
  - symmetry. apply forallb_forall. intros row Hin. rewrite (Hrows row Hin). exact E.
  - destruct a as [|r0 a']; [congruence|]. cbn [hd] in E. cbn [forallb]. rewrite E. reflexivity.
Qed.

Lemma diag_from_outer {T X : Type} (z : T) (f : X -> X -> T) : forall (suf pre : list X),
  diag_from z (length pre) (map (fun r => map (f r) (pre ++ suf)) suf) = map (fun r => f r r) suf.
Proof.
  induction suf as [|x suf IH]; intros pre; [reflexivity|].
  cbn [map diag_from]. f_equal.
  - rewrite nth_indep with (d' := f x x) by (rewrite map_length, app_length; cbn; lia).
    rewrite (map_nth (f x)). rewrite app_nth2 by lia. rewrite Nat.sub_diag. reflexivity.
  - specialize (IH (pre ++ [x])). rewrite app_length in IH. cbn [length] in IH. rewrite Nat.add_1_r in IH.
    rewrite <- app_assoc in IH. exact IH.
Qed.
Lemma np_diag_outer {T X : Type} (z : T) (f : X -> X -> T) : forall l : list X,
  np_diag z (map (fun r => map (fun c => f r c) l) l) = map (fun r => f r r) l.
Proof. intros l. exact (diag_from_outer z f l []). Qed.

Lemma zipw_map_r {X Y Z : Type} (f : X -> Y -> Z) (g : X -> Y) : forall l : list X,
  zipw f l (map g l) = map (fun x => f x (g x)) l.
Proof. induction l as [|x l IH]; [reflexivity|]. cbn. rewrite IH. reflexivity. Qed.

Lemma vdot_dot : forall a b : list R, vdot Rplus Rmult 0 a b = @dot R ROps a b.
Proof. induction a as [|x a IH]; intros [|y b]; try reflexivity; cbn; rewrite IH; reflexivity. Qed.

(* ---------------------------------------------------------------------------------------------- *)
(** * real arrays *)
Lemma normalise_rows : forall w : list (list R),
  @rm_div_col R ROps w (map sqrt (np_diag 0 (@rm_matmul_nt R ROps (@rm_conj R w) w))) = map (@normalize_row R ROps) w.
Proof.
  intros w. unfold rm_matmul_nt, matmul_nt, rm_conj, rm_div_col. rops.
  rewrite (np_diag_outer 0 (vdot Rplus Rmult 0) w). rewrite map_map. rewrite zipw_map_r.
  apply map_ext. intros row. unfold normalize_row, norm2. rops. rewrite vdot_dot. reflexivity.
Qed.

Theorem tie_disp2eig_real : forall (a : list (list R)) (mass : list R), rect a ->
  @ge_disp2eig_r R ROps a mass = @disp2eig R ROps a mass.
Proof.
  intros a mass Hr. unfold ge_disp2eig_r, disp2eig. cbv zeta.
  match goal with |- context [Nat.eqb (snd (mat_shape a)) ?k] => rewrite (shape_test a k (length mass) Hr) by lia end.
  destruct (shape_ok a (length mass)); cbn [negb]; [|reflexivity].   (* if/else and guard-clause form alike *)
  f_equal. rops. rewrite normalise_rows. rewrite np_repeat_3.
  unfold rm_mul_row. rewrite map_map. apply map_ext. intros row. reflexivity.
Qed.

(* ---------------------------------------------------------------------------------------------- *)
(** * complex arrays *)
Notation cR := (R * R)%type.
Notation cvdot := (vdot (@c_add R ROps) (@c_mul R ROps) (@c_zero R ROps)).

Lemma cvdot_conj_self : forall r : list cR,
  cvdot (map (@c_conj R ROps) r) r = (@norm2_c R ROps r, 0).
Proof.
  induction r as [|[x y] r IH]; [reflexivity|]. cbn [map vdot norm2_c]. rewrite IH.
  unfold c_add, c_mul, c_conj. cbn [fst snd]. rops. f_equal; ring.
Qed.

Lemma norm2_c_nonneg : forall r : list cR, 0 <= @norm2_c R ROps r.
Proof. induction r as [|[x y] r IH]; cbn [norm2_c]; rops; [lra|]. cbn [fst snd]. nra. Qed.

Lemma c_sqrt_real : forall n : R, 0 <= n -> @c_sqrt R ROps (n, 0) = (sqrt n, 0).
Proof.
  intros n Hn. unfold c_sqrt, c_abs, two. cbn [fst snd]. rops.
  replace (n * n + 0 * 0) with (n * n) by ring. rewrite sqrt_square by exact Hn.
  replace ((n + n) / 2) with n by field. replace ((n - n) / 2) with 0 by field. rewrite sqrt_0.
  replace (Rleb 0 0) with true by (symmetry; apply Rleb_true; lra). reflexivity.
Qed.

Lemma c_div_real : forall (z : cR) (s : R), s <> 0 -> @c_div R ROps z (s, 0) = (fst z / s, snd z / s).
Proof. intros [x y] s Hs. unfold c_div. cbn [fst snd]. rops. f_equal; field; exact Hs. Qed.

Lemma cnormalise_rows : forall w : list (list cR),
  (forall row, In row w -> @norm2_c R ROps row <> 0) ->
  @cm_div_col R ROps w (map (@c_sqrt R ROps) (np_diag (@c_zero R ROps) (@cm_matmul_nt R ROps (@cm_conj R ROps w) w)))
  = map (@normalize_row_c R ROps) w.
Proof.
  intros w Hnz. unfold cm_matmul_nt, matmul_nt, cm_conj, cm_div_col.
  rewrite map_map.
  pose proof (np_diag_outer (@c_zero R ROps) (fun r c => cvdot (map (@c_conj R ROps) r) c) w) as Hd.
  cbv beta in Hd. rewrite Hd. clear Hd.
  rewrite map_map. rewrite zipw_map_r.
  apply map_ext_in. intros row Hin. rewrite cvdot_conj_self.
  rewrite c_sqrt_real by apply norm2_c_nonneg.
  unfold normalize_row_c. rops. apply map_ext. intros z. apply c_div_real.
  pose proof (norm2_c_nonneg row) as H0. pose proof (Hnz row Hin) as H1.
  intro Hs. apply sqrt_eq_0 in Hs; [contradiction | exact H0].
Qed.

Theorem tie_disp2eig_complex : forall (a : list (list cR)) (mass : list R), rect a ->
  (forall row, In row a -> @norm2_c R ROps (@weight_row_c R ROps row (map sqrt (repeat3 mass))) <> 0) ->
  @ge_disp2eig_c R ROps a mass = @disp2eig_c R ROps a mass.
Proof.
  intros a mass Hr Hnz. unfold ge_disp2eig_c, disp2eig_c, cplx, cpx. cbv zeta.
  match goal with |- context [Nat.eqb (snd (mat_shape a)) ?k] => rewrite (shape_test a k (length mass) Hr) by lia end.
  destruct (shape_ok a (length mass)); cbn [negb]; [|reflexivity].   (* if/else and guard-clause form alike *)
  f_equal. rops. rewrite np_repeat_3.
  rewrite cnormalise_rows.
  - unfold cm_scale_row. rewrite map_map. apply map_ext. intros row. reflexivity.
  - intros row Hin. unfold cm_scale_row in Hin. apply in_map_iff in Hin. destruct Hin as [r0 [<- Hin]].
    exact (Hnz r0 Hin).
Qed.

(** non-vacuity: a 1-atom, 1-row real and complex input satisfy the hypotheses *)
Example rect_example : rect [[3; 0; 4]].
Proof. split; [discriminate|]. intros row [<-|[]]. reflexivity. Qed.
Example nz_example : forall row, In row [[(3, 0); (0, 1); (4, 0)]] ->
  @norm2_c R ROps (@weight_row_c R ROps row (map sqrt (repeat3 [4]))) <> 0.
Proof.
  intros row [<-|[]]. cbn. rops.
  assert (H : 0 < sqrt 4) by (apply sqrt_lt_R0; lra). nra.
Qed.

Theorem tie_group_evec_disp2eig :
  (forall (a : list (list R)) (mass : list R), rect a -> @ge_disp2eig_r R ROps a mass = @disp2eig R ROps a mass) /\
  (forall (a : list (list cR)) (mass : list R), rect a ->
     (forall row, In row a -> @norm2_c R ROps (@weight_row_c R ROps row (map sqrt (repeat3 mass))) <> 0) ->
     @ge_disp2eig_c R ROps a mass = @disp2eig_c R ROps a mass).
Proof. split; [exact tie_disp2eig_real | exact tie_disp2eig_complex]. Qed.
Print Assumptions tie_group_evec_disp2eig.
