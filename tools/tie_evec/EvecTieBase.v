(** Shared vocabulary of the static tie of cij/misc/evec_sort.py, evec_disp2eig.py, evec_load.py (C20).
    Copied into the per-run directory by tools/props/evec_static.py (logical path CijGen).  Hand-written:
    these definitions are the TRUSTED reading of the Python / numpy operations the translator accepts
    (complex numbers as pairs (re, im), 1-D arrays as lists, 2-D arrays as lists of rows); the generated file
    Gen_evec.v composes them exactly as the source does, and Tie_evec_*.v prove the compositions equal to
    theories/EvecSortModel.v, Disp2EigModel.v, MatdynModel.v.  They are deliberately written as numpy
    describes the operations (slicing, broadcasting, one-pass argmax), not copied from the models. *)
From Coq Require Import List Bool Arith.
From Cij Require Import Ops.
Import ListNotations.

(** a [for] loop in the exception monad: the first iteration that raises ends the loop *)
Fixpoint py_for {S E : Type} (f : S -> E -> option S) (l : list E) (s : S) : option S :=
  match l with
  | [] => Some s
  | x :: r => match f s x with Some s' => py_for f r s' | None => None end
  end.

Lemma py_for_ext {S E : Type} (f g : S -> E -> option S) :
  (forall s x, f s x = g s x) -> forall l s, py_for f l s = py_for g l s.
Proof. intros H l; induction l as [|x r IH]; intros s; cbn; [reflexivity|]. rewrite H. destruct (g s x); auto. Qed.

(** set of naturals: duplicate-free list; len, membership *)
Definition py_set (l : list nat) : list nat := nodup Nat.eq_dec l.
Definition set_len (s : list nat) : nat := length s.
Definition set_mem (x : nat) (s : list nat) : bool := existsb (Nat.eqb x) s.

(** l[i] = v on a Python list: IndexError (= None) when i is out of range; slicing semantics of the update *)
Definition list_set {B : Type} (l : list B) (i : nat) (v : B) : list B :=
  firstn i l ++ match skipn i l with [] => [] | _ :: r => v :: r end.
Definition py_list_set {B : Type} (l : list B) (i : nat) (v : B) : option (list B) :=
  if i <? length l then Some (list_set l i v) else None.

(** 2-D arrays as lists of rows *)
Definition np_array {T : Type} (rows : list (list T)) : list (list T) := rows.
Definition mat_shape {T : Type} (m : list (list T)) : nat * nat := (length m, length (hd [] m)).
(** numpy.unravel_index(k, (nrows, ncols)), C order *)
Definition np_unravel (k : nat) (sh : nat * nat) : nat * nat := (k / snd sh, k mod snd sh).
(** M[i, :] = z  and  M[:, j] = z *)
Definition mat_set_row {T : Type} (m : list (list T)) (i : nat) (z : T) : list (list T) :=
  firstn i m ++ match skipn i m with [] => [] | r :: rest => map (fun _ => z) r :: rest end.
Definition mat_set_col {T : Type} (m : list (list T)) (j : nat) (z : T) : list (list T) :=
  map (fun row => list_set row j z) m.
(** numpy.diag of a 2-D array: entries (k, k) *)
Fixpoint diag_from {T : Type} (z : T) (k : nat) (m : list (list T)) : list T :=
  match m with [] => [] | r :: m' => nth k r z :: diag_from z (S k) m' end.
Definition np_diag {T : Type} (z : T) (m : list (list T)) : list T := diag_from z 0 m.
(** M1 @ M2.T: entry (i, j) = sum_k M1[i][k] * M2[j][k] *)
Section MatMul.
  Context {T : Type} (tadd tmul : T -> T -> T) (tzero : T).
  Fixpoint vdot (a b : list T) : T :=
    match a, b with x :: a', y :: b' => tadd (tmul x y) (vdot a' b') | _, _ => tzero end.
  Definition matmul_nt (m1 m2 : list (list T)) : list (list T) :=
    map (fun r => map (fun c => vdot r c) m2) m1.
End MatMul.

Section EvecBase.
  Context {F : Type} {OF : Ops F}.
  Local Open Scope ops_scope.

  (** complex numbers *)
  Definition cplx : Type := (F * F)%type.
  Definition c_zero : cplx := (zero, zero).
  Definition c_conj (z : cplx) : cplx := (fst z, - snd z).
  Definition c_add (a b : cplx) : cplx := (fst a + fst b, snd a + snd b).
  Definition c_mul (a b : cplx) : cplx := (fst a * fst b - snd a * snd b, fst a * snd b + snd a * fst b).
  Definition c_abs (z : cplx) : F := fsqrt (fst z * fst z + snd z * snd z).
  Definition c_scale (z : cplx) (s : F) : cplx := (fst z * s, snd z * s).
  Definition c_div_r (z : cplx) (d : F) : cplx := (fst z / d, snd z / d).
  Definition c_div (a b : cplx) : cplx :=
    let d := fst b * fst b + snd b * snd b in
    ((fst a * fst b + snd a * snd b) / d, (snd a * fst b - fst a * snd b) / d).
  (** principal square root: re = sqrt((|z| + x)/2), im = sign(y) sqrt((|z| - x)/2) *)
  Definition c_sqrt (z : cplx) : cplx :=
    let r := c_abs z in
    let re := fsqrt ((r + fst z) / two) in
    let im := fsqrt ((r - fst z) / two) in
    (re, if fleb zero (snd z) then im else - im).

  (** matrices *)
  Definition rm_conj (m : list (list F)) : list (list F) := m.            (* conjugate of a real array *)
  Definition cm_conj (m : list (list cplx)) : list (list cplx) := map (map c_conj) m.
  Definition cm_abs (m : list (list cplx)) : list (list F) := map (map c_abs) m.
  Definition rm_matmul_nt := matmul_nt (@add F OF) (@mul F OF) zero.
  Definition cm_matmul_nt := matmul_nt c_add c_mul c_zero.

  (** numpy.argmax of a 2-D array: ONE pass over the flattened (row-major) array keeping the best value seen so
      far; replaced only by a strictly greater one *)
  Fixpoint scan_max (l : list F) (k bk : nat) (bv : F) : nat :=
    match l with
    | [] => bk
    | x :: r => if negb (fleb x bv) then scan_max r (S k) k x else scan_max r (S k) bk bv
    end.
  Definition np_argmax2 (m : list (list F)) : nat :=
    match concat m with [] => O | x :: r => scan_max r 1 0 x end.

  (** numpy.repeat(v, n): every entry n times, in place *)
  Definition np_repeat (v : list F) (n : nat) : list F := flat_map (fun x => repeat x n) v.

  (** broadcasting: M * v[nax, :] (every row times v, entry by entry), M / v[:, nax] (row i divided by v[i]),
      M / v[nax, :] (column j divided by v[j]) *)
  Definition rm_mul_row (m : list (list F)) (v : list F) : list (list F) := map (fun row => zipw mul row v) m.
  Definition rm_div_col (m : list (list F)) (v : list F) : list (list F) :=
    zipw (fun row d => map (fun x => x / d) row) m v.
  Definition rm_div_row (m : list (list F)) (v : list F) : list (list F) := map (fun row => zipw div row v) m.
  Definition cm_scale_row (m : list (list cplx)) (v : list F) : list (list cplx) := map (fun row => zipw c_scale row v) m.
  Definition cm_div_col (m : list (list cplx)) (v : list cplx) : list (list cplx) :=
    zipw (fun row d => map (fun x => c_div x d) row) m v.
  Definition cm_div_col_r (m : list (list cplx)) (v : list F) : list (list cplx) :=
    zipw (fun row d => map (fun x => c_div_r x d) row) m v.
  Definition cm_div_row (m : list (list cplx)) (v : list cplx) : list (list cplx) := map (fun row => zipw c_div row v) m.
End EvecBase.
