"""Fail-closed translator for the Voigt-Reuss-Hill / velocity formulas of cij.

    cij/core/calculator.py   CijVolumeBaseInterface (9 properties + __getattr__),
                             CijPressureBaseInterface (delegation through v2p)
    cij/cli/static.py        the VRH / velocity blocks of run-static
  ->  Gallina definitions over the class `Ops F` (Gen_vrh.v), POINTWISE semantics:
      one (T, V) grid point / one table row;  self.cIJ -> c I J,  self.sIJ -> s I J  of a
      `mat` (Z -> Z -> F);  c[:, I, J] -> c I J.

Everything outside the grammar below raises TranslateError(file, line, construct); the
caller reports that as a broken obligation of every lemma group that needs the construct.

EXPRESSION GRAMMAR (both files)
    e ::= int literal | float literal (decimal text, read as the exact decimal rational: 0.5 = 1/2, 1e-3 = 1/1000)
        | e + e | e - e | e * e | e / e | - e | + e | ( e )
        | numpy.sqrt(e) | numpy.reciprocal(e)  (= 1 / e: every array of these formulas is float64)
        | <local name bound once, earlier, by `name = e`, `n1, n2 = e1, e2` or `n1, .., nk = helper(..)` where the
           helper returns a literal k-tuple (component-wise inlining)>
        | f(a1, .., an)   INLINED call of a helper: a plain `def f(p1, .., pn)` (no decorators, defaults, * / **,
                          nested defs, lambdas, global/nonlocal, yield) that is the ONLY binding of `f` in the module
                          (calculator.py: module level; static.py: module level, or directly in main() before the VRH
                          block and the only binding of `f` in main), called with exactly n positional arguments, body
                          `[docstring] (locals)* return e` inside this same grammar.  The parameters are let-bound to the
                          translated arguments; the body sees ONLY its parameters and its own locals (no self, no columns,
                          no enclosing or global variables except numpy.sqrt / units / scipy as below); no recursion.
  calculator.py only
        | self.cIJ | self.sIJ          I, J in 1..6; resolved by *running the translated
                                       __getattr__ decision tree* on the groups that
                                       Python's re gives for REGEX_CIJ (so the dictionary
                                       and the canonical key (min, max) come from the code)
        | self.<one of the nine properties>         -> call of the generated function
        | self.v_array                               -> v   (body of the v_array property is template-checked)
        | self.calculator.elast_data.cellmass        -> cellmass
        | scipy.constants.physical_constants["Avogadro constant"][0] | scipy.constants.Avogadro   -> N_A
                                       (exact texts; tools/props/vrh_static.py checks on every run that the constant
                                       named has, in the installed scipy, exactly the value of the model's N_A)
        | units.Quantity(e, U1).to(U2).magnitude     -> e * ry   (also inside a helper) where U1, U2 are unit expressions
                                       built from units.<name>, unit-valued locals (`u = units.km / units.s`), * / and
                                       ** <int literal>, whose normal forms in the free abelian group on the unit NAMES
                                       are rydberg and kg km^2 s^-2 (no numeric factors, no other unit names; pint's
                                       Unit algebra adds exponents).  Re-checked per run with the real pint registry:
                                       same Unit objects and same conversion factor as the reference spelling.
  static.py only
        | A[:, I, J]           A a tracked array (or a helper parameter bound to one), I J int literals (or helper
                               parameters bound to int literals)
        | df.loc[:, K] | df[K] | either followed by .to_numpy()     K a string literal or the variable of an unrolled loop
        | _to_kms(e) | _to_gcm3(e)     -> application of the function parameters to_kms / to_gcm3   (not inside helpers)

STATEMENT GRAMMAR
  a translated property:  [docstring]  (name = e | n1, n2 = e1, e2)*  return e      exactly @property, args (self)
  __getattr__:            res = re.search(REGEX_CIJ, name);  S*      (every path must end in return / raise)
        S ::= if C: S* [else: S*] | key = c_(G2) | raise AttributeError(..)
            | a, b, c = res.groups() | x = res.group(N)              (names of the groups, single assignment)
            | return self.calculator.{modulus_adiabatic|modulus_isothermal|_compliances}[key]
        C ::= res | not res | res is None | res is not None
            | G ==|!= "lit"      G = res.group(1|3) or a name bound to group 1|3
            | key [not] in self.calculator.modulus_keys | key [not] in self.calculator._compliances[.keys()]
        An `if` is translated as (then ++ rest) / (else ++ rest), so facts flow along each path: groups may be read
        only where the match is known to have succeeded, `key` only after it is bound on that path.  The tie lemma is
        stated for group 1 in {"c", "s"}, justified by the regex TEXT starting with ^(c|s) (checked, and a Coq lemma).
  static.py, from the `if input02:` block that binds `cij` to the end of main():
        cij = numpy.zeros((df.shape[0], 6, 6))
        FILL LOOP  `for i, j in itertools.product(range(6), range(6)):` or `for i in range(6): for j in range(6):` with body
                   `key = KEY; if key in df.columns: cij[:, i, j] = df.loc[:, key]`; KEY uses only i, j, int/str literals,
                   + %, f-strings, min max sorted tuple str and is EVALUATED on all 36 cells; the table goes to Coq
                   (g_st_fill_keys) where it must equal the model's (cell (i, j) <- column c<min><max>)
        X = numpy.linalg.inv(cij)                      only of the whole filled cij
        X = numpy.zeros((Y.shape[0], 7, 7));  X[:, 1:, 1:] = Y[:, :, :] | Y       Y the whole cij / sij
        df.loc[:, K] = e | df[K] = e                   column store (each store is a new SSA definition)
        name = e | n1, n2 = e1, e2                     scalar locals; a local bound to a BARE column read is invalidated
                                                       when that column is stored to afterwards (possible pandas view)
        for x in ("a", "b", ..): S*  |  for x, f in (("a", fa), ("b", fb), ..): S*
                                                       LITERAL tuple/list of strings or of same-shape tuples of strings and
                                                       plain function names: unrolled in order; x only as a column name,
                                                       f only as the function of a call
        df[X] = _to_Y(df[X][.to_numpy()])              on a column X the blocks neither define nor read: skipped
        if 'density' in df.columns: (stores to density)*     |  later `if input02:` blocks
        tail: df[X] = _to_Y(df[X]...) on untracked columns, the literal sampling `if`, sys.stdout.write(df.to_string())

ONLY PATTERN-CHECKED (exact text after ast.unparse, not given a semantics in Coq)
  * REGEX_CIJ itself: it is *executed* (Python re) on the attribute names the formulas use; its
    groups feed the translated decision tree.  Names not used by the formulas are not covered.
  * `c_ = C_._` (cij/util/__init__.py), `C_ = ModulusRepresentation` and `_` = `cls.create(*args)`
    (cij/util/voigt.py); the canonical key of "IJ" is then computed in Coq by the regenerated
    Gen_voigt.mod_create (translate_voigt.py).
  * CijVolumeBaseInterface: no bases / decorators / __getattribute__ / __setattr__, __init__ only
    stores self.calculator, no class attribute shadows a translated name or a cNN/sNN name.
  * CijPressureBaseInterface: the nine properties are `self.v2p(self.calculator.volume_base.<same name>)`
    (mass without v2p), __getattr__ forwards through v2p (two accepted texts: with and without the two
    temporaries), v2p's body, Calculator.volume_base.
  * static.py: the shape of the fill loop (numpy.zeros + `if key in df.columns` = missing column reads as 0), the
    sampling / printing tail, `if input02:` / `if 'density' in df.columns:` guards taken as true.
"""
import ast
import re
from decimal import Decimal, InvalidOperation
from fractions import Fraction


class TranslateError(Exception):
    def __init__(self, file, node, what):
        self.file = file
        self.line = getattr(node, "lineno", "?") if node is not None else "?"
        self.what = what
        super().__init__("%s:%s: not in the translatable grammar: %s" % (file, self.line, what))


CALC = "cij/core/calculator.py"
STATIC = "cij/cli/static.py"

PROPS9 = ["bulk_modulus_voigt", "bulk_modulus_reuss", "bulk_modulus_voigt_reuss_hill",
          "shear_modulus_voigt", "shear_modulus_reuss", "shear_modulus_voigt_reuss_hill",
          "mass", "primary_velocities", "secondary_velocities"]
UNIT_TO = "units.kg * units.km ** 2 / units.s ** 2"
UNIT_FROM = "units.rydberg"
AVOGADRO = "scipy.constants.physical_constants['Avogadro constant'][0]"
AVOGADRO_ATTR = "scipy.constants.Avogadro"      # same CODATA value; accepted because the value is re-checked per run
UNIT_FROM_NF = {"rydberg": 1}
UNIT_TO_NF = {"kg": 1, "km": 2, "s": -2}
CELLMASS = "self.calculator.elast_data.cellmass"
V_ARRAY_BODY = ["return self.calculator.qha_calculator.volume_base.v_array"]
DICTS = {"modulus_adiabatic": "Adiabatic", "modulus_isothermal": "Isothermal", "_compliances": "Compliance"}


def src_of(node):
    return ast.unparse(node)


def parse(source):
    import warnings
    with warnings.catch_warnings():
        warnings.simplefilter("ignore")       # invalid escape sequences in the docstrings of /repo
        return ast.parse(source)


def body_no_doc(fn):
    b = list(fn.body)
    if b and isinstance(b[0], ast.Expr) and isinstance(b[0].value, ast.Constant) and isinstance(b[0].value.value, str):
        b = b[1:]
    return b


def coq_str(s):
    if not all(32 <= ord(ch) < 127 for ch in s):
        raise ValueError("non-ASCII text")
    return '"' + s.replace('"', '""') + '"'


def zlit(n):
    return "(%d)" % n if n < 0 else "%d" % n


# =====================================================================================
# expressions
# =====================================================================================

IDENT = r"[A-Za-z_][A-Za-z0-9_]*"


def bindings_of(scope, name):
    """every node inside `scope` that binds `name` (import, def, class, assignment target, argument,
    for/with/except target, global/nonlocal declaration) - nested scopes included (conservative)"""
    out = []
    for n in ast.walk(scope):
        names = []
        if isinstance(n, (ast.Import, ast.ImportFrom)):
            names = [(a.asname or a.name).split(".")[0] for a in n.names]
        elif isinstance(n, (ast.FunctionDef, ast.AsyncFunctionDef, ast.ClassDef)):
            names = [n.name] if n is not scope else []
        elif isinstance(n, ast.Name) and isinstance(n.ctx, (ast.Store, ast.Del)):
            names = [n.id]
        elif isinstance(n, ast.arg):
            names = [n.arg]
        elif isinstance(n, (ast.Global, ast.Nonlocal)):
            names = list(n.names)
        elif isinstance(n, ast.ExceptHandler) and n.name:
            names = [n.name]
        if name in names:
            out.append(n)
    return out


class Expr:
    """shared arithmetic, locals and inlining of helper functions; subclasses supply the leaves.

    One instance = one Python scope (a property body, the VRH block, or one inlined call of a helper).
    A helper scope sees only its parameters and its own locals (plus the whitelisted module-level
    functions numpy.sqrt etc.): no `self`, no columns, no enclosing variables."""

    RESERVED = ("self", "numpy", "scipy", "units", "re", "df", "itertools", "sys", "input02", "cij", "sij")

    def __init__(self, file, source, root=None, stack=()):
        self.file = file
        self.source = source
        self.root = root or self
        self.stack = stack          # names of the helpers being inlined (innermost last); () = not in a helper
        self.locals = {}            # python name -> coq term
        self.intvars = {}           # python name -> int   (helper parameter bound to an int literal)
        self.arrvars = {}           # python name -> array state (helper parameter bound to a tracked array)
        self.unitvars = {}          # python name -> normal form of a pint unit expression (calculator.py)
        self.unittrees = {}
        if root is None:
            self.counter = 0

    @property
    def in_helper(self):
        return bool(self.stack)

    def bail(self, node, what=None):
        raise TranslateError(self.file, node, what or "%s `%s`" % (type(node).__name__, src_of(node)[:120]))

    def spawn(self, stack):
        c = type(self).__new__(type(self))
        c.__dict__.update(self.__dict__)
        Expr.__init__(c, self.file, self.source, root=self.root, stack=stack)
        return c

    def number(self, node):
        v = node.value
        if type(v) is int:
            return "(ofZ %s)" % zlit(v)
        if type(v) is float:
            seg = ast.get_source_segment(self.source, node)
            if seg is None or not re.fullmatch(r"[0-9]*\.?[0-9]*([eE][+-]?[0-9]+)?", seg) or not re.search(r"[0-9]", seg):
                self.bail(node, "float literal whose source text cannot be read: %r" % (seg,))
            try:
                fr = Fraction(Decimal(seg))
            except (InvalidOperation, ValueError):
                self.bail(node, "float literal %r" % seg)
            if fr.denominator == 1:
                return "(ofZ %s)" % zlit(fr.numerator)
            return "(ofZ %s / ofZ %s)" % (zlit(fr.numerator), zlit(fr.denominator))
        self.bail(node, "literal %r (only int and float literals)" % (v,))

    def tr(self, e):
        if isinstance(e, ast.Constant):
            return self.number(e)
        if isinstance(e, ast.BinOp):
            ops = {ast.Add: "+", ast.Sub: "-", ast.Mult: "*", ast.Div: "/"}
            if type(e.op) not in ops:
                self.bail(e, "operator %s in `%s` (only + - * /)" % (type(e.op).__name__, src_of(e)[:120]))
            return "(%s %s %s)" % (self.tr(e.left), ops[type(e.op)], self.tr(e.right))
        if isinstance(e, ast.UnaryOp):
            if isinstance(e.op, ast.USub):
                return "(- %s)" % self.tr(e.operand)
            if isinstance(e.op, ast.UAdd):
                return self.tr(e.operand)
            self.bail(e, "unary operator %s" % type(e.op).__name__)
        if isinstance(e, ast.Name):
            if isinstance(e.ctx, ast.Load) and e.id in self.locals:
                return self.locals[e.id]
            if isinstance(e.ctx, ast.Load) and e.id in self.intvars:
                return "(ofZ %s)" % zlit(self.intvars[e.id])
            self.bail(e, self.unknown_name(e.id))
        if isinstance(e, ast.Call):
            f = src_of(e.func)
            if f == "numpy.sqrt":
                if len(e.args) != 1 or e.keywords:
                    self.bail(e, "numpy.sqrt with other than one positional argument")
                return "(fsqrt %s)" % self.tr(e.args[0])
            if f == "numpy.reciprocal":      # 1 / x on float arrays (every array of these formulas is float64)
                if len(e.args) != 1 or e.keywords:
                    self.bail(e, "numpy.reciprocal with other than one positional argument")
                return "((ofZ 1) / %s)" % self.tr(e.args[0])
            if isinstance(e.func, ast.Name) and e.func.id not in self.locals:
                fn = self.root.find_helper(e.func.id, e)
                if fn is not None:
                    return self.inline(e, fn)
            return self.call(e)
        if isinstance(e, ast.Attribute):
            return self.attribute(e)
        if isinstance(e, ast.Subscript):
            return self.subscript(e)
        self.bail(e)

    def unknown_name(self, name):
        return "name `%s` (not a local bound by a preceding single assignment%s)" % (
            name, " or a parameter of the helper" if self.in_helper else "")

    def find_helper(self, name, node):
        return None

    def call(self, e):
        self.bail(e, "call `%s`" % src_of(e)[:120])

    def attribute(self, e):
        self.bail(e, "attribute `%s`" % src_of(e)[:120])

    def subscript(self, e):
        self.bail(e, "subscript `%s`" % src_of(e)[:120])

    # ---- locals ---------------------------------------------------------------------------
    def bind(self, stmt, prefix="l_"):
        """`name = e`  or  `n1, n2, .. = e1, e2, ..`  ->  [(python name, coq ident, coq term)].
        Single assignment; every right-hand side is translated before any name is bound (Python evaluates
        the whole right-hand tuple first)."""
        ok = isinstance(stmt, ast.Assign) and len(stmt.targets) == 1
        pairs = []
        if ok and isinstance(stmt.targets[0], ast.Name):
            pairs = [(stmt.targets[0], stmt.value)]
        elif ok and isinstance(stmt.targets[0], ast.Tuple) and isinstance(stmt.value, ast.Tuple) \
                and len(stmt.targets[0].elts) == len(stmt.value.elts) \
                and all(isinstance(t, ast.Name) for t in stmt.targets[0].elts) \
                and not any(isinstance(v, ast.Starred) for v in stmt.value.elts):
            pairs = list(zip(stmt.targets[0].elts, stmt.value.elts))
        elif ok and isinstance(stmt.targets[0], ast.Tuple) and all(isinstance(t, ast.Name) for t in stmt.targets[0].elts) \
                and isinstance(stmt.value, ast.Call) and isinstance(stmt.value.func, ast.Name) \
                and stmt.value.func.id not in self.locals and self.root.find_helper(stmt.value.func.id, stmt) is not None:
            # n1, .., nk = helper(..) where the helper returns a k-tuple: component-wise
            tgts = stmt.targets[0].elts
            names = [t.id for t in tgts]
            self.check_new_names(stmt, names)
            terms = self.inline(stmt.value, self.root.find_helper(stmt.value.func.id, stmt), tuple_len=len(tgts))
            return [(t.id, prefix + t.id, term, stmt.value) for t, term in zip(tgts, terms)]
        else:
            self.bail(stmt, "statement `%s` (only `name = expression`, `n1, n2 = e1, e2` or `n1, n2 = helper(..)`)" % src_of(stmt)[:120])
        names = [t.id for t, _ in pairs]
        self.check_new_names(stmt, names)
        special = [self.bind_special(v) for _, v in pairs]
        terms = [None if sp is not None else self.tr(v) for sp, (_, v) in zip(special, pairs)]
        out = []
        for (t, v), term, sp in zip(pairs, terms, special):
            if sp is not None:
                sp(t.id)               # a non-numeric local (unit expression): registered, nothing emitted
            else:
                out.append((t.id, prefix + t.id, term, v))
        return out

    def bind_special(self, value):
        """None, or a function registering the name for a right-hand side that is not a number"""
        return None

    def check_new_names(self, stmt, names):
        for name in names:
            if name in self.locals or name in self.intvars or name in self.arrvars or name in self.unitvars \
                    or names.count(name) > 1:
                self.bail(stmt, "name `%s` is assigned twice (locals and parameters are single-assignment)" % name)
            if name in self.RESERVED or self.is_reserved(name):
                self.bail(stmt, "assignment to the reserved name `%s`" % name)
            if not re.fullmatch(IDENT, name):
                self.bail(stmt, "local name `%s`" % name)

    def is_reserved(self, name):
        return False

    # ---- inlining ---------------------------------------------------------------------------
    def classify_arg(self, a):
        if isinstance(a, ast.Constant) and type(a.value) is int:
            return ("int", a.value)
        if isinstance(a, ast.Name) and a.id in self.intvars:
            return ("int", self.intvars[a.id])
        return ("term", self.tr(a))

    def inline(self, e, fn, tuple_len=None):
        """call of a helper `def f(p1, .., pn): [doc] (locals)* return expr` with n positional arguments:
        the parameters are let-bound to the translated arguments (call by value of pure expressions), the
        body is translated in a scope that sees only the parameters and its own locals."""
        name = fn.name
        if name in self.stack or len(self.stack) >= 4:
            self.bail(e, "recursive or too deeply nested helper call `%s`" % name)
        a = fn.args
        if fn.decorator_list or a.vararg or a.kwarg or a.kwonlyargs or a.posonlyargs or a.defaults or \
                isinstance(fn, ast.AsyncFunctionDef):
            self.bail(fn, "helper `%s` has decorators, defaults, * or ** parameters" % name)
        params = [x.arg for x in a.args]
        if e.keywords or len(e.args) != len(params) or any(isinstance(x, ast.Starred) for x in e.args):
            self.bail(e, "call `%s`: helper `%s` takes exactly the %d positional arguments (%s)"
                      % (src_of(e)[:100], name, len(params), ", ".join(params)))
        if len(set(params)) != len(params) or not all(re.fullmatch(IDENT, p) for p in params):
            self.bail(fn, "parameter names of helper `%s`" % name)
        for n in ast.walk(fn):
            if isinstance(n, (ast.Global, ast.Nonlocal, ast.Yield, ast.YieldFrom, ast.Await, ast.Lambda)) or \
                    (isinstance(n, (ast.FunctionDef, ast.ClassDef)) and n is not fn):
                self.bail(n, "helper `%s` contains %s" % (name, type(n).__name__))
        self.root.counter += 1
        k = self.root.counter
        child = self.spawn(self.stack + (name,))
        lets = []
        for p, arg in zip(params, e.args):
            if p in self.RESERVED or child.is_reserved(p):
                self.bail(fn, "parameter `%s` of helper `%s` shadows a reserved name" % (p, name))
            kind, val = self.classify_arg(arg)
            if kind == "int":
                child.intvars[p] = val
            elif kind == "arr":
                child.arrvars[p] = val
            else:
                ident = "h%d_%s" % (k, p)
                lets.append((ident, val))
                child.locals[p] = ident
        body = body_no_doc(fn)
        if not body or not isinstance(body[-1], ast.Return) or body[-1].value is None:
            self.bail(fn, "helper `%s` does not end in `return <expression>`" % name)
        for s in body[:-1]:
            for pyname, ident, term, _ in child.bind(s, prefix="h%d_" % k):
                lets.append((ident, term))
                child.locals[pyname] = ident
        pre = "".join("let %s := %s in " % (i, t) for i, t in lets)
        rv = body[-1].value
        if tuple_len is None:
            if isinstance(rv, ast.Tuple):
                self.bail(e, "helper `%s` returns a tuple where a number is expected" % name)
            return "(" + pre + child.tr(rv) + ")"
        # the helper returns a literal tuple that the caller unpacks: one term per component (the helper is pure, so
        # repeating its let-bound locals in every component does not change any value)
        if not isinstance(rv, ast.Tuple) or len(rv.elts) != tuple_len or any(isinstance(x, ast.Starred) for x in rv.elts):
            self.bail(e, "helper `%s` does not return a literal tuple of %d expressions" % (name, tuple_len))
        return ["(" + pre + child.tr(x) + ")" for x in rv.elts]


# =====================================================================================
# calculator.py
# =====================================================================================

def module_binding_checks(mod, file, wanted):
    """every name in `wanted` (name -> ('import', text) | ('from', module)) is bound exactly once in the
    whole module, by that top-level import.  Any other binding of the name anywhere (def, class,
    assignment, import, argument, for/with/except target, global) is refused."""
    seen = {k: [] for k in wanted}
    for n in ast.walk(mod):
        names = []
        if isinstance(n, (ast.Import, ast.ImportFrom)):
            for a in n.names:
                names.append((a.asname or a.name).split(".")[0])
        elif isinstance(n, (ast.FunctionDef, ast.AsyncFunctionDef, ast.ClassDef)):
            names.append(n.name)
        elif isinstance(n, ast.Name) and isinstance(n.ctx, (ast.Store, ast.Del)):
            names.append(n.id)
        elif isinstance(n, ast.arg):
            names.append(n.arg)
        elif isinstance(n, (ast.Global, ast.Nonlocal)):
            names += n.names
        elif isinstance(n, ast.ExceptHandler) and n.name:
            names.append(n.name)
        for nm in names:
            if nm in seen:
                seen[nm].append(n)
    for nm, nodes in seen.items():
        kind, arg = wanted[nm]
        shown = arg if kind == "import" else "from %s import %s" % (arg, nm)
        if len(nodes) != 1:
            raise TranslateError(file, nodes[1] if len(nodes) > 1 else None,
                                 "name `%s` is bound %d times (expected exactly once, by `%s`)" % (nm, len(nodes), shown))
        n = nodes[0]
        if kind == "import":
            okb = isinstance(n, ast.Import) and src_of(n) == arg
        else:
            okb = isinstance(n, ast.ImportFrom) and n.module == arg and n.level == 0 and \
                any(a.name == nm and a.asname is None for a in n.names)
        if not okb or n not in mod.body:
            raise TranslateError(file, n, "name `%s` is bound by `%s` (expected top-level `%s`)" % (nm, src_of(n)[:100], shown))


def forbid_reflection(mod, file, attrs):
    """no setattr/delattr/__dict__/__class__ games, no attribute store to a translated name"""
    for n in ast.walk(mod):
        if isinstance(n, ast.Name) and n.id in ("setattr", "delattr", "vars", "globals", "locals", "exec", "eval"):
            raise TranslateError(file, n, "use of `%s` (reflection defeats the static reading)" % n.id)
        if isinstance(n, ast.Attribute) and n.attr in ("__dict__", "__class__", "__getattribute__", "__setattr__"):
            raise TranslateError(file, n, "use of `.%s`" % n.attr)
        if isinstance(n, ast.Attribute) and isinstance(n.ctx, (ast.Store, ast.Del)) and \
                (n.attr in attrs or re.fullmatch(r"[cs]_?\d+[st]?", n.attr)):
            raise TranslateError(file, n, "assignment to attribute `.%s`" % n.attr)


def find_class(mod, file, name):
    cl = [n for n in mod.body if isinstance(n, ast.ClassDef) and n.name == name]
    if len(cl) != 1:
        raise TranslateError(file, cl[1] if cl else None, "class %s defined %d times at module level" % (name, len(cl)))
    c = cl[0]
    if c.bases or c.keywords or c.decorator_list:
        raise TranslateError(file, c, "class %s has bases, keywords or decorators" % name)
    return c


def class_members(cls, file):
    """name -> node for every binding in the class body; refuses anything but def / simple assignment /
    docstring, and duplicate names"""
    out = {}
    for n in cls.body:
        if isinstance(n, ast.Expr) and isinstance(n.value, ast.Constant) and isinstance(n.value.value, str):
            continue
        if isinstance(n, ast.FunctionDef):
            names = [n.name]
        elif isinstance(n, ast.Assign) and all(isinstance(t, ast.Name) for t in n.targets):
            names = [t.id for t in n.targets]
        elif isinstance(n, ast.AnnAssign) and isinstance(n.target, ast.Name):
            names = [n.target.id]
        elif isinstance(n, ast.Pass):
            names = []
        else:
            raise TranslateError(file, n, "class-level statement `%s` in %s" % (src_of(n)[:80], cls.name))
        for nm in names:
            if nm in out:
                raise TranslateError(file, n, "%s.%s is defined twice" % (cls.name, nm))
            out[nm] = n
    return out


def prop_def(members, cls, file, name):
    n = members.get(name)
    if not isinstance(n, ast.FunctionDef):
        raise TranslateError(file, n or cls, "%s.%s is not defined as a method" % (cls.name, name))
    if [src_of(d) for d in n.decorator_list] != ["property"]:
        raise TranslateError(file, n, "%s.%s is not decorated with exactly @property" % (cls.name, name))
    a = n.args
    if [x.arg for x in a.args] != ["self"] or a.vararg or a.kwarg or a.kwonlyargs or a.posonlyargs or a.defaults:
        raise TranslateError(file, n, "%s.%s does not take exactly (self)" % (cls.name, name))
    return n


# ---- __getattr__ -----------------------------------------------------------------------

class Dispatch:
    """decision tree of CijVolumeBaseInterface.__getattr__"""

    def __init__(self, fn, file, regex):
        self.file = file
        self.regex = regex
        a = fn.args
        if [x.arg for x in a.args] != ["self", "name"] or a.vararg or a.kwarg or a.kwonlyargs or a.defaults \
                or fn.decorator_list:
            raise TranslateError(file, fn, "__getattr__ signature/decorators (expected plain (self, name))")
        b = body_no_doc(fn)
        if not b or src_of(b[0]) != "res = re.search(REGEX_CIJ, name)":
            raise TranslateError(file, b[0] if b else fn,
                                 "__getattr__ does not start with `res = re.search(REGEX_CIJ, name)`")
        if re.compile(regex).groups != 3:
            raise TranslateError(file, fn, "REGEX_CIJ does not have exactly three groups")
        # group 1 is the first parenthesis of the text: if the text starts with ^(c|s) it can only capture "c" or "s"
        self.group1_c_or_s = bool(re.match(r"\^\((c\|s|s\|c)\)", regex))
        for n in ast.walk(fn):
            if isinstance(n, (ast.FunctionDef, ast.Lambda, ast.Global, ast.Nonlocal, ast.Yield, ast.YieldFrom,
                              ast.Try, ast.With, ast.While, ast.For)) and n is not fn:
                raise TranslateError(file, n, "__getattr__ contains %s" % type(n).__name__)
        self.tree = self.stmts(b[1:], dict(matched=None, keydef=False, names={}))
        if self.has_leaf(self.tree, "fall"):
            raise TranslateError(file, fn, "__getattr__ can reach its end without return/raise (would return None)")

    def has_leaf(self, t, kind):
        if t[0] == "if":
            return self.has_leaf(t[2], kind) or self.has_leaf(t[3], kind)
        return t[0] == kind

    @staticmethod
    def is_raise(s):
        return isinstance(s, ast.Raise) and s.cause is None and s.exc is not None and (
            src_of(s.exc) == "AttributeError" or
            (isinstance(s.exc, ast.Call) and src_of(s.exc.func) == "AttributeError"
             and not s.exc.keywords and all(isinstance(x, (ast.Name, ast.Constant)) for x in s.exc.args)))

    def err(self, node, what):
        raise TranslateError(self.file, node, "__getattr__: " + what)

    def group_of(self, e, env):
        """e denotes res.group(n): returns n (the match must be known to have succeeded on this path)"""
        m = re.fullmatch(r"res\.group\((\d+)\)", src_of(e))
        if m and 1 <= int(m.group(1)) <= 3:
            if env["matched"] is not True:
                self.err(e, "`%s` on a path where the match is not known to have succeeded" % src_of(e))
            return int(m.group(1))
        if isinstance(e, ast.Name) and e.id in env["names"]:
            return env["names"][e.id]
        return None

    def stmts(self, ss, env):
        """statement list = its first statement followed by the rest; an `if` is translated as
        (then-branch ++ rest) / (else-branch ++ rest), so what is known on each path (match succeeded, key bound,
        names of the groups) flows exactly along that path; statements after a return/raise are unreachable."""
        if not ss:
            return ("fall",)
        s, rest = ss[0], ss[1:]
        if isinstance(s, ast.If):
            c, et, ef = self.cond(s.test, env)
            tt = self.stmts(list(s.body) + rest, et)
            ft = self.stmts(list(s.orelse) + rest, ef)
            if c[0] == "matched":
                if env["matched"] is True:
                    return ft if c[1] else tt
                if env["matched"] is False:
                    return tt if c[1] else ft
                return ("if", ("matched",), ft, tt) if c[1] else ("if", ("matched",), tt, ft)
            return ("if", c, tt, ft)
        if isinstance(s, ast.Assign) and len(s.targets) == 1:
            tgt, val = s.targets[0], s.value
            env2 = dict(env, names=dict(env["names"]))

            def fresh(nm):
                if nm in env["names"] or nm in ("res", "key", "self", "name", "c_", "re", "REGEX_CIJ"):
                    self.err(s, "`%s` is assigned twice / is a reserved name" % nm)
            if isinstance(tgt, ast.Name) and tgt.id == "key":
                if env["keydef"]:
                    self.err(s, "`key` is assigned twice on one path")
                if not (isinstance(val, ast.Call) and src_of(val.func) == "c_" and len(val.args) == 1 and not val.keywords
                        and self.group_of(val.args[0], env) == 2):
                    self.err(s, "assignment `%s` (only `key = c_(<group 2>)`)" % src_of(s)[:80])
                env2["keydef"] = True
                return self.stmts(rest, env2)
            if isinstance(tgt, ast.Tuple) and src_of(val) == "res.groups()" and len(tgt.elts) == 3 and \
                    all(isinstance(x, ast.Name) for x in tgt.elts) and len({x.id for x in tgt.elts}) == 3:
                if env["matched"] is not True:
                    self.err(s, "`res.groups()` on a path where the match is not known to have succeeded")
                for k, x in enumerate(tgt.elts):
                    fresh(x.id)
                    env2["names"][x.id] = k + 1
                return self.stmts(rest, env2)
            if isinstance(tgt, ast.Name) and self.group_of(val, env) is not None and not isinstance(val, ast.Name):
                fresh(tgt.id)
                env2["names"][tgt.id] = self.group_of(val, env)
                return self.stmts(rest, env2)
            self.err(s, "assignment `%s` (only `key = c_(<group 2>)`, `a, b, c = res.groups()`, `x = res.group(n)`)" % src_of(s)[:80])
        if self.is_raise(s):
            return ("raise",)
        if isinstance(s, ast.Return):
            t = src_of(s.value) if s.value is not None else ""
            m = re.fullmatch(r"self\.calculator\.(\w+)\[key\]", t)
            if not m or m.group(1) not in DICTS or not env["keydef"]:
                self.err(s, "`%s` (only `return self.calculator.<modulus_adiabatic|modulus_isothermal|_compliances>[key]` "
                            "after key is bound)" % src_of(s)[:80])
            return ("read", DICTS[m.group(1)])
        self.err(s, "statement `%s`" % src_of(s)[:80])

    def cond(self, t, env):
        """-> (condition, env on the true branch, env on the false branch)"""
        ts = src_of(t)
        if ts in ("res", "res is not None", "not res", "res is None"):
            neg = ts in ("not res", "res is None")
            et, ef = dict(env, matched=not neg), dict(env, matched=neg)
            return ("matched", neg), et, ef
        if isinstance(t, ast.Compare) and len(t.ops) == 1:
            op, r = t.ops[0], t.comparators[0]
            g = self.group_of(t.left, env)
            if g in (1, 3) and isinstance(op, (ast.Eq, ast.NotEq)) and isinstance(r, ast.Constant) and isinstance(r.value, str):
                coq_str(r.value)
                return ("grp", g, r.value, isinstance(op, ast.NotEq)), env, env
            if src_of(t.left) == "key" and env["keydef"] and isinstance(op, (ast.In, ast.NotIn)):
                rs = src_of(r)
                if rs == "self.calculator.modulus_keys":
                    return ("inmod", isinstance(op, ast.NotIn)), env, env
                if rs in ("self.calculator._compliances.keys()", "self.calculator._compliances"):
                    return ("incompl", isinstance(op, ast.NotIn)), env, env
        self.err(t, "condition `%s`" % ts[:100])

    # -- python-side evaluation (to resolve the names used by the formulas) ---------------
    def run(self, tree, g, in_mod=True, in_compl=True):
        while True:
            if tree[0] == "raise":
                return ("raise",)
            if tree[0] == "read":
                return tree
            c = tree[1]
            if c[0] == "matched":
                v = True
            elif c[0] == "grp":
                v = (g[c[1]] == c[2]) != c[3]
            elif c[0] == "inmod":
                v = in_mod != c[1]
            else:
                v = in_compl != c[1]
            tree = tree[2] if v else tree[3]

    def resolve(self, name):
        """(dictionary, (a, b) canonical key, groups) of the attribute `name`, or None if the regex rejects"""
        m = re.search(self.regex, name)
        if not m or m.re.groups != 3:
            return None
        g = {1: m.group(1), 2: m.group(2), 3: m.group(3)}
        return g

    # -- Gallina ---------------------------------------------------------------------------
    def coq(self, tree=None, ind="  "):
        tree = tree or self.tree
        if tree[0] == "raise":
            return "RaiseAttr"
        if tree[0] == "read":
            return "Read %s key" % tree[1]
        c = tree[1]
        if c[0] == "matched":
            ct = "matched"
        elif c[0] == "grp":
            ct = "grp_eqb g%d %s" % (c[1], coq_str(c[2]))
            if c[3]:
                ct = "negb (%s)" % ct
        elif c[0] == "inmod":
            ct = "negb in_mod" if c[1] else "in_mod"
        else:
            ct = "negb in_compl" if c[1] else "in_compl"
        return "(if %s\n%s then %s\n%s else %s)" % (ct, ind, self.coq(tree[2], ind + "  "), ind, self.coq(tree[3], ind + "  "))


class CalcExpr(Expr):
    def __init__(self, source, dispatch, have_v_array, mod=None):
        super().__init__(CALC, source)
        self.dispatch = dispatch
        self.have_v_array = have_v_array
        self.mod = mod
        self.deps = set()
        self.names = {}      # attribute name -> (kind 'c'|'s', a, b, groups)
        self.notes = {"consts": set(), "units": []}    # named constants / unit expressions relied upon (checked per run)

    # ---- pint unit expressions: the free abelian group on the unit names -----------------------
    def unit_nf(self, e):
        """normal form {unit name: exponent} of an expression built from units.<name>, unit-valued locals, * / and
        ** <int literal>; None if e is not such an expression"""
        if isinstance(e, ast.Attribute) and isinstance(e.value, ast.Name) and e.value.id == "units" \
                and re.fullmatch(r"[A-Za-z][A-Za-z0-9_]*", e.attr) and e.attr not in ("Quantity", "Unit", "Measurement"):
            return {e.attr: 1}
        if isinstance(e, ast.Name) and e.id in self.unitvars:
            return dict(self.unitvars[e.id])
        if isinstance(e, ast.BinOp) and isinstance(e.op, (ast.Mult, ast.Div)):
            l, r = self.unit_nf(e.left), self.unit_nf(e.right)
            if l is None or r is None:
                return None
            sgn = 1 if isinstance(e.op, ast.Mult) else -1
            for k, v in r.items():
                l[k] = l.get(k, 0) + sgn * v
            return {k: v for k, v in l.items() if v != 0}
        if isinstance(e, ast.BinOp) and isinstance(e.op, ast.Pow):
            b = self.unit_nf(e.left)
            x = e.right
            n = None
            if isinstance(x, ast.Constant) and type(x.value) is int:
                n = x.value
            elif isinstance(x, ast.UnaryOp) and isinstance(x.op, ast.USub) and isinstance(x.operand, ast.Constant) \
                    and type(x.operand.value) is int:
                n = -x.operand.value
            if b is None or n is None:
                return None
            return {k: v * n for k, v in b.items() if v * n != 0}
        return None

    def unit_tree(self, e):
        """the same expression as a nested tuple with unit-valued locals expanded (evaluated with the real pint
        registry by the per-run check of tools/props/vrh_static.py); only called when unit_nf(e) is not None"""
        if isinstance(e, ast.Attribute):
            return ("u", e.attr)
        if isinstance(e, ast.Name):
            return self.unittrees[e.id]
        if isinstance(e.op, ast.Pow):
            x = e.right
            n = x.value if isinstance(x, ast.Constant) else -x.operand.value
            return ("pow", self.unit_tree(e.left), n)
        return ("mul" if isinstance(e.op, ast.Mult) else "div", self.unit_tree(e.left), self.unit_tree(e.right))

    def bind_special(self, value):
        nf = self.unit_nf(value)
        if nf is not None:
            tree = self.unit_tree(value)

            def reg(name):
                self.unitvars[name] = nf
                self.unittrees[name] = tree
            return reg
        return None

    def find_helper(self, name, node):
        """a module-level `def name(...)` that is the ONLY binding of `name` in the whole module"""
        if self.mod is None or name in PROPS9:
            return None
        fns = [n for n in self.mod.body if isinstance(n, ast.FunctionDef) and n.name == name]
        if not fns:
            return None
        if len(bindings_of(self.mod, name)) != 1:
            self.bail(node, "helper `%s` is bound more than once in the module" % name)
        return fns[0]

    def attribute(self, e):
        s = src_of(e)
        if s.endswith(".magnitude"):
            return self.unit_conv(e)
        if self.in_helper and any(isinstance(n, ast.Name) and n.id == "self" for n in ast.walk(e)):
            self.bail(e, "`%s` inside the helper `%s` (a helper sees only its parameters)" % (s[:100], self.stack[-1]))
        if s == CELLMASS:
            return "cellmass"
        if s == AVOGADRO_ATTR:
            self.notes["consts"].add(s)
            return "N_A"
        if isinstance(e.value, ast.Name) and e.value.id == "self":
            a = e.attr
            if a in PROPS9:
                self.deps.add(a)
                return "(g_%s ry cellmass v c s)" % a
            if a == "v_array":
                if not self.have_v_array:
                    self.bail(e, "self.v_array: the v_array property is not `%s`" % V_ARRAY_BODY[0])
                return "v"
            if re.fullmatch(r"[cs]\d\d", a):
                if self.dispatch is None:
                    self.bail(e, "`self.%s`: __getattr__ could not be translated, so the name cannot be resolved" % a)
                g = self.dispatch.resolve(a)
                if g is None or not isinstance(g[1], str) or not isinstance(g[2], str) or not re.fullmatch(r"[0-9][0-9]", g[2]):
                    self.bail(e, "`self.%s` is rejected by REGEX_CIJ %r" % (a, self.dispatch.regex))
                i, j = int(g[2][0]), int(g[2][1])
                if not (1 <= i <= 6 and 1 <= j <= 6):
                    self.bail(e, "`self.%s`: Voigt index outside 1..6" % a)
                r = self.dispatch.run(self.dispatch.tree, g)
                lo, hi = min(i, j), max(i, j)
                want = "Adiabatic" if a[0] == "c" else "Compliance"
                if r[0] != "read" or r[1] != want:
                    self.bail(e, "`self.%s` is dispatched to %s by __getattr__ (the model reads %s)"
                              % (a, "AttributeError" if r[0] == "raise" else r[1], want))
                self.names[a] = (a[0], lo, hi, g)
                return "(%s %d %d)" % (a[0], lo, hi)
            self.bail(e, "attribute `self.%s` (only cIJ / sIJ, the nine averages, v_array)" % a)
        self.bail(e, "attribute `%s`" % s[:120])

    def unit_conv(self, e):
        # units.Quantity(X, units.rydberg).to(<UNIT_TO>).magnitude
        c = e.value
        ok = isinstance(c, ast.Call) and isinstance(c.func, ast.Attribute) and c.func.attr == "to" \
            and len(c.args) == 1 and not c.keywords
        if ok:
            q = c.func.value
            ok = isinstance(q, ast.Call) and src_of(q.func) == "units.Quantity" and len(q.args) == 2 and not q.keywords
        if not ok:
            self.bail(e, "`%s` (only units.Quantity(e, %s).to(%s).magnitude)" % (src_of(e)[:120], UNIT_FROM, UNIT_TO))
        src, dst = self.unit_nf(q.args[1]), self.unit_nf(c.args[0])
        if src != UNIT_FROM_NF:
            self.bail(q.args[1], "source unit `%s` (expected `%s` up to the group laws of units)" % (src_of(q.args[1]), UNIT_FROM))
        if dst != UNIT_TO_NF:
            self.bail(c.args[0], "target unit `%s`%s (expected `%s` up to the group laws of units)"
                      % (src_of(c.args[0]), " = %s" % dst if dst is not None else "", UNIT_TO))
        self.notes["units"].append((src_of(q.args[1]), src_of(c.args[0]), self.unit_tree(q.args[1]), self.unit_tree(c.args[0])))
        return "(%s * ry)" % self.tr(q.args[0])

    def subscript(self, e):
        if src_of(e) == AVOGADRO:
            self.notes["consts"].add(AVOGADRO)
            return "N_A"
        self.bail(e, "subscript `%s` (only %s)" % (src_of(e)[:120], AVOGADRO))


class CalcResult:
    def __init__(self):
        self.defs = {}        # name -> coq body text
        self.deps = {}        # name -> set of names
        self.errors = {}      # name -> TranslateError  (also '__getattr__', 'pressure', 'module')
        self.names = {}       # used accessor names
        self.dispatch = None
        self.pressure = None  # list of (name, target, through_v2p)
        self.consts = set()   # source text of the named constants read as N_A
        self.units = []       # (source unit text, target unit text) of the accepted conversions
        self.order = []

    def usable(self, name, _seen=()):
        """translated, and so is everything it depends on"""
        if name in self.errors or name not in self.defs or name in _seen:
            return False
        return all(self.usable(d, _seen + (name,)) for d in self.deps[name])

    def why_not(self, name, _seen=()):
        if name in self.errors:
            return str(self.errors[name])
        if name not in self.defs:
            return "%s: %s not translated" % (CALC, name)
        for d in self.deps[name]:
            if d in _seen:
                return "%s: cyclic definition through %s" % (CALC, d)
            if not self.usable(d, _seen + (name,)):
                return self.why_not(d, _seen + (name,))
        return ""


def translate_calculator(source, util_init_src=None, voigt_src=None):
    res = CalcResult()
    mod = parse(source)
    try:
        module_binding_checks(mod, CALC, {
            "numpy": ("import", "import numpy"), "scipy": ("import", "import scipy.constants"),
            "re": ("import", "import re"), "units": ("from", "cij.util"), "c_": ("from", "cij.util")})
    except TranslateError as e:
        res.errors["module"] = e
        return res
    regex = None
    binds = [n for n in ast.walk(mod) if isinstance(n, ast.Name) and n.id == "REGEX_CIJ" and isinstance(n.ctx, (ast.Store, ast.Del))]
    top = [s for s in mod.body if isinstance(s, ast.Assign) and len(s.targets) == 1 and
           isinstance(s.targets[0], ast.Name) and s.targets[0].id == "REGEX_CIJ"]
    try:
        if len(binds) != 1 or len(top) != 1 or not (isinstance(top[0].value, ast.Constant) and isinstance(top[0].value.value, str)):
            raise TranslateError(CALC, top[0] if top else None, "REGEX_CIJ is not bound exactly once, at module level, to a string literal")
        regex = top[0].value.value
        re.compile(regex)
        forbid_reflection(mod, CALC, set(PROPS9) | {"v_array"})
        cls = find_class(mod, CALC, "CijVolumeBaseInterface")
        members = class_members(cls, CALC)
        for nm in members:
            if re.fullmatch(r"[cs]_?\d+[st]?", nm):
                raise TranslateError(CALC, members[nm], "class attribute `%s` shadows the __getattr__ dispatch" % nm)
        for bad in ("__getattribute__", "__setattr__", "__slots__", "__init_subclass__", "__set_name__"):
            if bad in members:
                raise TranslateError(CALC, members[bad], "CijVolumeBaseInterface defines %s" % bad)
        init = members.get("__init__")
        if not isinstance(init, ast.FunctionDef) or [src_of(s) for s in body_no_doc(init)] != ["self.calculator = calculator"] \
                or [a.arg for a in init.args.args] != ["self", "calculator"]:
            raise TranslateError(CALC, init or cls, "CijVolumeBaseInterface.__init__ is not `self.calculator = calculator`")
        for n in ast.walk(cls):
            if isinstance(n, ast.Attribute) and isinstance(n.ctx, (ast.Store, ast.Del)) and \
                    n is not body_no_doc(init)[-1].targets[0]:
                raise TranslateError(CALC, n, "attribute assignment `%s` inside CijVolumeBaseInterface" % src_of(n))
    except (TranslateError, re.error) as e:
        res.errors["module"] = e if isinstance(e, TranslateError) else TranslateError(CALC, None, "REGEX_CIJ does not compile: %s" % e)
        return res

    # __getattr__
    try:
        ga = members.get("__getattr__")
        if not isinstance(ga, ast.FunctionDef):
            raise TranslateError(CALC, cls, "CijVolumeBaseInterface.__getattr__ not found")
        res.dispatch = Dispatch(ga, CALC, regex)
    except TranslateError as e:
        res.errors["__getattr__"] = e

    # v_array
    have_v = False
    try:
        have_v = [src_of(s) for s in body_no_doc(prop_def(members, cls, CALC, "v_array"))] == V_ARRAY_BODY
    except TranslateError:
        have_v = False

    for name in PROPS9:
        try:
            fn = prop_def(members, cls, CALC, name)
            ex = CalcExpr(source, res.dispatch, have_v, mod)
            body = body_no_doc(fn)
            if not body or not isinstance(body[-1], ast.Return) or body[-1].value is None:
                raise TranslateError(CALC, fn, "%s does not end in `return <expression>`" % name)
            lets = []
            for s in body[:-1]:
                for pyname, ident, term, _ in ex.bind(s):
                    lets.append((ident, term))
                    ex.locals[pyname] = ident
            ret = ex.tr(body[-1].value)
            txt = "".join("let %s := %s in\n    " % (i, t) for i, t in lets) + ret
            res.defs[name] = txt
            res.deps[name] = set(ex.deps)
            res.names.update(ex.names)
            res.consts |= ex.notes["consts"]
            res.units += [u for u in ex.notes["units"] if u not in res.units]
        except TranslateError as e:
            res.errors[name] = e
    # topological order
    left = [n for n in PROPS9 if n in res.defs]
    while left:
        prog = [n for n in left if all(d in res.order or d not in res.defs for d in res.deps[n])]
        if not prog:
            for n in left:
                res.errors[n] = TranslateError(CALC, None, "cyclic references between %s" % ", ".join(left))
                del res.defs[n]
            break
        for n in prog:
            res.order.append(n)
            left.remove(n)

    # pressure interface
    try:
        res.pressure = pressure_delegation(mod)
    except TranslateError as e:
        res.errors["pressure"] = e

    # c_ -> ModulusRepresentation.create
    try:
        if util_init_src is not None:
            um = parse(util_init_src)
            if [src_of(s) for s in um.body if isinstance(s, ast.Assign) and src_of(s.targets[0]) == "c_"] != ["c_ = C_._"] \
                    or not any(isinstance(s, ast.ImportFrom) and s.module == "voigt" and s.level == 1 and
                               any(a.name == "C_" and a.asname is None for a in s.names) for s in um.body):
                raise TranslateError("cij/util/__init__.py", None, "`c_ = C_._` with C_ imported from .voigt not found")
        if voigt_src is not None:
            vm = parse(voigt_src)
            if [src_of(s) for s in vm.body if isinstance(s, ast.Assign) and src_of(s.targets[0]) == "C_"] != ["C_ = ModulusRepresentation"]:
                raise TranslateError("cij/util/voigt.py", None, "`C_ = ModulusRepresentation` not found")
            mr = [n for n in vm.body if isinstance(n, ast.ClassDef) and n.name == "ModulusRepresentation"]
            us = [n for n in (mr[0].body if len(mr) == 1 else []) if isinstance(n, ast.FunctionDef) and n.name == "_"]
            if len(us) != 1 or [src_of(s) for s in body_no_doc(us[0])] != ["return cls.create(*args)"] \
                    or [src_of(d) for d in us[0].decorator_list] != ["classmethod"]:
                raise TranslateError("cij/util/voigt.py", us[0] if us else None, "ModulusRepresentation._ is not `return cls.create(*args)`")
    except TranslateError as e:
        res.errors["c_"] = e
    return res


PRESSURE_V2P = ["return v2p(func_of_t_v, self.calculator.qha_calculator.volume_base.pressures, self.p_array)"]
PRESSURE_GETATTR = [["func_of_t_v = getattr(self.calculator.volume_base, name)",
                     "func_of_t_p = self.v2p(func_of_t_v)", "return func_of_t_p"],
                    ["return self.v2p(getattr(self.calculator.volume_base, name))"]]    # the same, temporaries inlined


def pressure_delegation(mod):
    cls = find_class(mod, CALC, "CijPressureBaseInterface")
    members = class_members(cls, CALC)
    out = []
    for name in PROPS9:
        fn = prop_def(members, cls, CALC, name)
        b = [src_of(s) for s in body_no_doc(fn)]
        m = re.fullmatch(r"return self\.v2p\(self\.calculator\.volume_base\.(\w+)\)", b[0]) if len(b) == 1 else None
        m2 = re.fullmatch(r"return self\.calculator\.volume_base\.(\w+)", b[0]) if len(b) == 1 else None
        if m:
            out.append((name, m.group(1), True))
        elif m2:
            out.append((name, m2.group(1), False))
        else:
            raise TranslateError(CALC, fn, "CijPressureBaseInterface.%s is neither `return self.v2p(self.calculator."
                                           "volume_base.<name>)` nor `return self.calculator.volume_base.<name>`" % name)
    v2p = members.get("v2p")
    if not isinstance(v2p, ast.FunctionDef) or [src_of(s) for s in body_no_doc(v2p)] != PRESSURE_V2P:
        raise TranslateError(CALC, v2p or cls, "CijPressureBaseInterface.v2p is not `%s`" % PRESSURE_V2P[0])
    ga = members.get("__getattr__")
    if not isinstance(ga, ast.FunctionDef) or [src_of(s) for s in body_no_doc(ga)] not in PRESSURE_GETATTR or \
            [x.arg for x in ga.args.args] != ["self", "name"]:
        raise TranslateError(CALC, ga or cls, "CijPressureBaseInterface.__getattr__ is not the v2p forwarder")
    out.append(("*", "*", True))
    # Calculator.volume_base -> the CijVolumeBaseInterface instance
    calc = find_class(mod, CALC, "Calculator")
    cm = class_members(calc, CALC)
    vb = prop_def(cm, calc, CALC, "volume_base")
    if [src_of(s) for s in body_no_doc(vb)] != ["return self.volume_based_result"]:
        raise TranslateError(CALC, vb, "Calculator.volume_base is not `return self.volume_based_result`")
    stores = [src_of(n) for n in ast.walk(calc) if isinstance(n, ast.Assign) and
              any(src_of(t) == "self.volume_based_result" for t in n.targets)]
    if stores != ["self.volume_based_result = CijVolumeBaseInterface(self)"]:
        raise TranslateError(CALC, calc, "self.volume_based_result is not bound exactly once to CijVolumeBaseInterface(self)")
    return out


def emit_calculator(res: CalcResult, want_getattr=True) -> str:
    out = ["(* ---- GENERATED from %s ---- *)" % CALC,
           "Section GenVRH.", "  Context {F : Type} {OF : Ops F}.", "  Local Open Scope ops_scope.", ""]
    for name in res.order:
        if not res.usable(name):
            out.append("  (* %s: NOT TRANSLATED - %s *)" % (name, res.why_not(name).replace("*)", "* )")))
            continue
        out.append("  Definition g_%s (ry cellmass v : F) (c s : @mat F) : F :=\n    %s.\n" % (name, res.defs[name]))
    out.append("End GenVRH.\n")
    out.append("Local Open Scope string_scope.\n")
    if res.dispatch is not None and want_getattr:
        out.append("(* CijVolumeBaseInterface.__getattr__ as a decision tree: g1/g3 = res.group(1)/res.group(3) of\n"
                   "   REGEX_CIJ (g_regex below), key = c_(res.group(2)), in_mod = key in calculator.modulus_keys,\n"
                   "   in_compl = key in calculator._compliances *)")
        out.append("Definition g_getattr (matched : bool) (g1 g3 : option string) (key : Z * Z) (in_mod in_compl : bool)"
                   " : outcome :=\n  %s.\n" % res.dispatch.coq())
        out.append("Definition g_regex : string := %s.\n" % coq_str(res.dispatch.regex))
        out.append("(* the text of REGEX_CIJ starts with ^(c|s): its group 1 can only capture c or s *)")
        out.append("Definition g_regex_group1_is_c_or_s : bool := %s.\n" % ("true" if res.dispatch.group1_c_or_s else "false"))
        rows = []
        for a in sorted(res.names):
            kind, lo, hi, g = res.names[a]
            rows.append("(%s, (%s, [%s], %s), (%s, (%d, %d)))" % (
                coq_str(a), ostr(g[1]), "; ".join(ch for ch in g[2]), ostr(g[3]),
                "Adiabatic" if kind == "c" else "Compliance", lo, hi))
        out.append("(* every accessor name used by the translated formulas: (name, (group 1, digits of group 2, group 3)\n"
                   "   as matched by Python's re, (dictionary, cell) the formula translation used) *)")
        out.append("Definition g_used_names : list used_name :=\n  [%s].\n" % ";\n   ".join(rows))
    if res.pressure is not None:
        out.append("(* CijPressureBaseInterface: (property, property of volume_base it returns, through self.v2p) *)")
        out.append("Definition g_pressure_delegation : list (string * string * bool) :=\n  [%s].\n" % ";\n   ".join(
            "(%s, %s, %s)" % (coq_str(a), coq_str(b), "true" if c else "false") for a, b, c in res.pressure))
    return "\n".join(out)


GEN_HEADER = """(* GENERATED by tools/translate_vrh.py from the current source tree - do not edit *)
From Coq Require Import ZArith List Bool String.
From Cij Require Import Ops VRHModel.
From CijGen Require Import VRHTieBase.
Import ListNotations.
Local Open Scope Z_scope.

"""


def gen_file(*bodies):
    return GEN_HEADER + "\n".join(b for b in bodies if b)


def ostr(s):
    return "None" if s is None else "(Some %s)" % coq_str(s)


# =====================================================================================
# static.py
# =====================================================================================

STATIC_ZEROS6 = "cij = numpy.zeros((df.shape[0], 6, 6))"
STATIC_SAMPLING = ("if interp == 'pressure' and delta_p_sample:\n"
                   "    step = round(delta_p_sample / delta_p)\n"
                   "    df = df.iloc[::step, :]")
STATIC_PRINT = "sys.stdout.write(df.to_string())"
STATIC_IMPORTS = {"numpy": ["import numpy"], "itertools": ["import itertools"], "sys": ["import sys"]}
STATIC_OPTIONAL = ("itertools", "sys")      # only needed by constructs that name them
STATIC_UNIT_FUNS = {"_to_kms": "to_kms", "_to_gcm3": "to_gcm3"}
ST_COLS = ["bm_V", "bm_R", "bm_VRH", "G_V", "G_R", "G_VRH", "v_p", "v_s", "v_phi"]


def is_full_slice(r):
    return isinstance(r, ast.Slice) and r.lower is None and r.upper is None and r.step is None


class StaticExpr(Expr):
    def __init__(self, source, tr):
        super().__init__(STATIC, source)
        self.t = tr

    def is_reserved(self, name):
        return not self.in_helper and (name in self.t.arrays or name in self.t.strvars or name in self.t.funvars)

    def unknown_name(self, name):
        if not self.in_helper and name in self.t.poisoned:
            return ("local `%s` was bound to the column %r, which has been overwritten since (a pandas column read may "
                    "be a view: the value of the local is not determined)" % (name, self.t.poisoned[name]))
        return super().unknown_name(name)

    def array_state(self, name):
        return self.arrvars.get(name) if self.in_helper else self.t.arrays.get(name)

    def classify_arg(self, a):
        if isinstance(a, ast.Name) and self.array_state(a.id) is not None:
            st = self.array_state(a.id)
            if st[0] not in ("full", "padded"):
                self.bail(a, "array `%s` is passed to a helper while it is %s" % (a.id, st[0]))
            return ("arr", st)
        return super().classify_arg(a)

    def find_helper(self, name, node):
        """a `def name(...)` directly in main() before the VRH block (only binding of the name in main), else a
        module-level def that is the only binding of the name in the whole module"""
        t = self.t
        if name in STATIC_UNIT_FUNS:
            return None
        local = [n for n in t.main.body[:t.block_index] if isinstance(n, ast.FunctionDef) and n.name == name]
        if local:
            if len(bindings_of(t.main, name)) != 1:
                self.bail(node, "helper `%s` is bound more than once in main" % name)
            return local[0]
        top = [n for n in t.mod.body if isinstance(n, ast.FunctionDef) and n.name == name]
        if top:
            if len(bindings_of(t.mod, name)) != 1:
                self.bail(node, "helper `%s` is bound more than once in the module" % name)
            return top[0]
        return None

    def call(self, e):
        f = src_of(e.func)
        if self.in_helper:
            self.bail(e, "call `%s` inside the helper `%s`" % (src_of(e)[:100], self.stack[-1]))
        f = self.t.funvars.get(f, f)
        if f in STATIC_UNIT_FUNS and len(e.args) == 1 and not e.keywords:
            return "(%s %s)" % (STATIC_UNIT_FUNS[f], self.tr(e.args[0]))
        if isinstance(e.func, ast.Attribute) and e.func.attr == "to_numpy" and not e.args and not e.keywords:
            col = self.t.column_ref(e.func.value)
            if col is not None:
                return self.t.read_col(col, e)
        self.bail(e, "call `%s`" % src_of(e)[:120])

    def attribute(self, e):
        self.bail(e, "attribute `%s`" % src_of(e)[:120])

    def index_value(self, x):
        if isinstance(x, ast.Constant) and type(x.value) is int and x.value >= 0:
            return x.value
        if isinstance(x, ast.Name) and x.id in self.intvars and self.intvars[x.id] >= 0:
            return self.intvars[x.id]
        return None

    def subscript(self, e):
        if not self.in_helper:
            col = self.t.column_ref(e)
            if col is not None:
                return self.t.read_col(col, e)
        # A[:, I, J]
        if isinstance(e.value, ast.Name) and isinstance(e.slice, ast.Tuple) and len(e.slice.elts) == 3:
            a = e.value.id
            r, i, j = e.slice.elts
            st = self.array_state(a)
            I, J = self.index_value(i), self.index_value(j)
            if st is not None and is_full_slice(r) and I is not None and J is not None:
                if st[0] == "full":      # 0-based 6x6
                    if I > 5 or J > 5:
                        self.bail(e, "index out of range in `%s`" % src_of(e))
                    return "(%s %d %d)" % (st[1], I + 1, J + 1)
                if st[0] == "padded":    # 7x7, row/column 0 are zero
                    if I > 6 or J > 6:
                        self.bail(e, "index out of range in `%s`" % src_of(e))
                    if I == 0 or J == 0:
                        return "zero"
                    return "(%s %d %d)" % (st[1], I, J)
                self.bail(e, "`%s`: array `%s` is read while it is %s" % (src_of(e), a, st[0]))
        self.bail(e, "subscript `%s` (only A[:, I, J] with int literals / int parameters on cij/sij/c/s%s)"
                  % (src_of(e)[:120], "" if self.in_helper else ", df.loc[:, 'col'], df['col']"))


KEY_FUNS = {"min": min, "max": max, "sorted": sorted, "tuple": tuple, "str": str}


class StaticTr:
    def __init__(self, source, mod, main, block_index, have):
        self.source = source
        self.mod, self.main, self.block_index = mod, main, block_index
        self.have = have       # which optional imports are present
        self.arrays = {}       # python name -> ('zeros', n) | ('full', 'c'|'s') | ('padded', 'c'|'s')
        self.cols = {"density": "rho0"}     # column -> current coq term (an identifier applied to the parameters)
        self.version = {}
        self.defs = []         # (ident, body)
        self.facts = []        # strings describing pattern-checked statements
        self.inverse_of = None
        self.fill_keys = None  # [(i, j, a, b)]: cell (i, j) (1-based) is filled from column 'c<a><b>'
        self.strvars = {}      # loop variable of an unrolled loop -> its current string
        self.funvars = {}      # loop variable of an unrolled loop -> the function NAME it currently stands for
        self.alias_of = {}     # local -> column it was bound to by a bare column read
        self.poisoned = {}
        self.ex = StaticExpr(source, self)

    def bail(self, node, what):
        raise TranslateError(STATIC, node, what)

    def column_ref(self, e):
        """df.loc[:, K] or df[K] with K a string literal or the variable of an unrolled loop -> column name (else None)"""
        if not isinstance(e, ast.Subscript):
            return None
        v, s = src_of(e.value), e.slice

        def name_of(c):
            if isinstance(c, ast.Constant) and isinstance(c.value, str):
                return c.value
            if isinstance(c, ast.Name) and c.id in self.strvars:
                return self.strvars[c.id]
            return None
        if v == "df.loc" and isinstance(s, ast.Tuple) and len(s.elts) == 2 and is_full_slice(s.elts[0]):
            return name_of(s.elts[1])
        if v == "df":
            return name_of(s)
        return None

    def bare_column(self, e):
        """column name if e is a bare column read (possibly .to_numpy()), which may alias the frame"""
        if isinstance(e, ast.Call) and isinstance(e.func, ast.Attribute) and e.func.attr == "to_numpy" and not e.args:
            return self.column_ref(e.func.value)
        return self.column_ref(e)

    def read_col(self, col, node):
        if col not in self.cols:
            self.bail(node, "column %r is read before the translated blocks define it" % col)
        return self.cols[col]

    def store_col(self, col, term, node):
        if not re.fullmatch(IDENT, col):
            self.bail(node, "column name %r" % col)
        k = self.version.get(col, 0) + 1
        self.version[col] = k
        ident = "g_st_%s_%d" % (col, k)
        self.defs.append((ident, term))
        self.cols[col] = "(%s to_gcm3 to_kms rho0 c s)" % ident
        for loc, c in list(self.alias_of.items()):
            if c == col:
                self.poisoned[loc] = col
                self.ex.locals.pop(loc, None)
                del self.alias_of[loc]

    # ---- statements inside the translated blocks ------------------------------------------
    def block(self, stmts):
        for s in stmts:
            self.stmt(s)

    def scalar_locals(self, s):
        for pyname, ident, term, vnode in self.ex.bind(s, prefix="g_st_local_"):
            self.defs.append((ident, term))
            self.ex.locals[pyname] = "(%s to_gcm3 to_kms rho0 c s)" % ident
            col = self.bare_column(vnode)
            if col is not None:
                self.alias_of[pyname] = col

    def stmt(self, s):
        t = src_of(s)
        if isinstance(s, ast.Assign) and len(s.targets) == 1:
            tgt = s.targets[0]
            col = self.column_ref(tgt)
            if col is not None:
                if self.untracked_conversion(col, s.value):
                    return
                self.store_col(col, self.ex.tr(s.value), s)
                return
            if isinstance(tgt, ast.Tuple):
                self.scalar_locals(s)
                return
            if isinstance(tgt, ast.Name):
                nm = tgt.id
                v = src_of(s.value)
                if t == STATIC_ZEROS6:
                    self.arrays["cij"] = ("zeros", 6)
                    return
                m = re.fullmatch(r"numpy\.zeros\(\((\w+)\.shape\[0\], 7, 7\)\)", v)
                if m and (m.group(1) in self.arrays or m.group(1) == "df") and nm not in self.arrays \
                        and nm not in self.ex.locals and nm not in Expr.RESERVED:
                    self.arrays[nm] = ("zeros", 7)
                    return
                if isinstance(s.value, ast.Call) and src_of(s.value.func) == "numpy.linalg.inv":
                    a = s.value.args
                    if len(a) == 1 and not s.value.keywords and isinstance(a[0], ast.Name) and \
                            self.arrays.get(a[0].id) == ("full", "c") and nm not in self.arrays:
                        if self.inverse_of is not None:
                            self.bail(s, "a second numpy.linalg.inv")
                        self.arrays[nm] = ("full", "s")
                        self.inverse_of = "whole 6x6 cij"
                        return
                    self.bail(s, "`%s`: numpy.linalg.inv applied to something other than the whole filled 6x6 `cij`" % t)
                if nm in self.arrays or nm in ("cij", "sij"):
                    self.bail(s, "`%s`: array `%s` is bound in an unsupported way (accepted: `%s` + the fill loop; "
                                 "`X = numpy.linalg.inv(cij)` of the whole filled cij; `X = numpy.zeros((Y.shape[0], 7, 7))` "
                                 "+ `X[:, 1:, 1:] = Y[:, :, :]`)" % (t[:100], nm, STATIC_ZEROS6))
                self.scalar_locals(s)
                return
            if isinstance(tgt, ast.Subscript) and isinstance(tgt.value, ast.Name) and tgt.value.id in self.arrays:
                # X[:, 1:, 1:] = Y[:, :, :]   or   = Y
                x = tgt.value.id
                if src_of(tgt) == "%s[:, 1:, 1:]" % x:
                    y = s.value
                    yn = None
                    if isinstance(y, ast.Name):
                        yn = y.id
                    elif isinstance(y, ast.Subscript) and isinstance(y.value, ast.Name) and src_of(y) == "%s[:, :, :]" % y.value.id:
                        yn = y.value.id
                    if yn and self.arrays.get(x) == ("zeros", 7) and self.arrays.get(yn, ("", ""))[0] == "full":
                        self.arrays[x] = ("padded", self.arrays[yn][1])
                        return
                self.bail(s, "`%s`: store into the tracked array `%s` (only `X[:, 1:, 1:] = Y[:, :, :]` / `= Y` with X fresh "
                             "zeros((n, 7, 7)) and Y the whole cij / sij)" % (t[:100], x))
        if isinstance(s, ast.For):
            if self.unrolled(s):
                return
            self.fill_loop(s)
            return
        if isinstance(s, ast.If) and src_of(s.test) == "'density' in df.columns" and not s.orelse:
            for b in s.body:
                if not (isinstance(b, ast.Assign) and len(b.targets) == 1 and self.column_ref(b.targets[0]) == "density"):
                    self.bail(b, "statement under `if 'density' in df.columns` that is not a store to the density column")
            self.block(s.body)
            return
        self.bail(s, "statement `%s`" % t[:100].replace("\n", " | "))

    def untracked_conversion(self, col, v):
        """df[X] = _to_Y(df[X][.to_numpy()]) on a column X the translated blocks neither define nor have read: a unit
        conversion of that column only (V, F, P) - nothing to translate"""
        if col in self.cols or col in self.alias_of.values() or col in self.version:
            return False
        if isinstance(v, ast.Call) and isinstance(v.func, ast.Name) and len(v.args) == 1 and not v.keywords:
            f = self.funvars.get(v.func.id, v.func.id)
            if v.func.id in self.ex.locals or not re.fullmatch(r"_to_\w+", f):
                return False
            return self.bare_column(v.args[0]) == col
        return False

    def unrolled(self, s):
        """`for x in ("a", "b", ..): body`  or  `for x, f in (("a", fa), ("b", fb), ..): body` over a LITERAL tuple/list
        whose items are strings or same-length tuples of strings and plain function names: the body is translated once
        per item, in order; a string variable may only be used as the column in df[x] / df.loc[:, x], a function
        variable only as the function of a call f(..)"""
        if not (isinstance(s.iter, (ast.Tuple, ast.List)) and s.iter.elts):
            return False

        def item(x):
            if isinstance(x, ast.Constant) and isinstance(x.value, str):
                return [("s", x.value)]
            if isinstance(x, ast.Tuple) and x.elts and all(
                    (isinstance(y, ast.Constant) and isinstance(y.value, str)) or
                    (isinstance(y, ast.Name) and isinstance(y.ctx, ast.Load)) for y in x.elts):
                return [("s", y.value) if isinstance(y, ast.Constant) else ("f", y.id) for y in x.elts]
            return None
        items = [item(x) for x in s.iter.elts]
        if any(i is None for i in items):
            return False
        single = all(isinstance(x, ast.Constant) for x in s.iter.elts)
        if single:
            tvars = [s.target.id] if isinstance(s.target, ast.Name) else None
        else:
            tvars = [t.id for t in s.target.elts] if isinstance(s.target, ast.Tuple) and \
                all(isinstance(t, ast.Name) for t in s.target.elts) else None
        kinds = [tuple(k for k, _ in it) for it in items]
        if s.orelse or tvars is None or len(set(tvars)) != len(tvars) or any(len(it) != len(tvars) for it in items) \
                or len(set(kinds)) != 1 or (not single and any(isinstance(x, ast.Constant) for x in s.iter.elts)):
            self.bail(s, "loop over a literal tuple: else clause, or the target does not match the items")
        for var in tvars:
            if var in self.ex.locals or var in self.arrays or var in self.strvars or var in self.funvars \
                    or var in Expr.RESERVED or var in self.poisoned or var in STATIC_UNIT_FUNS:
                self.bail(s, "loop variable `%s` shadows a tracked name" % var)
        for it in items:
            for k, val in it:
                if k == "f" and (val in tvars or val in self.ex.locals or val in self.arrays or val in self.strvars
                                 or val in self.funvars or not re.fullmatch(IDENT, val)):
                    self.bail(s, "item `%s` of the literal tuple is not a plain function name" % val)
        for n in ast.walk(s):
            if isinstance(n, (ast.Break, ast.Continue, ast.Return)):
                self.bail(n, "%s inside an unrolled loop" % type(n).__name__)
            if isinstance(n, ast.Name) and n.id in tvars and isinstance(n.ctx, (ast.Store, ast.Del)) and \
                    not any(n is t for t in ast.walk(s.target)):
                self.bail(n, "loop variable `%s` is assigned inside the loop" % n.id)
        for it in items:
            for var, (k, val) in zip(tvars, it):
                (self.strvars if k == "s" else self.funvars)[var] = val
            self.block(s.body)
        for var in tvars:
            self.strvars.pop(var, None)
            self.funvars.pop(var, None)
        self.facts.append("loop over the literal %s unrolled" % src_of(s.iter))
        return True

    def fill_loop(self, s):
        """for i, j in itertools.product(range(6), range(6)):  |  for i in range(6): for j in range(6):
               key = <KEY(i, j)>
               if key in df.columns:
                   cij[:, i, j] = df.loc[:, key]
        KEY is built from i, j, int/str literals, + %, f-strings, min max sorted tuple str only; it is EVALUATED for all
        36 cells and the resulting table is handed to Coq (g_st_fill_keys) where it must be the model's."""
        def bad(node, why):
            self.bail(node, "loop `%s`: %s (only the fill loop of cij right after its numpy.zeros, or a loop over a "
                            "literal tuple of column names)" % (src_of(s)[:60].replace("\n", " | "), why))
        if self.arrays.get("cij") != ("zeros", 6):
            bad(s, "cij is not the fresh zeros((n, 6, 6))")
        if s.orelse:
            bad(s, "else clause")
        if isinstance(s.target, ast.Tuple) and len(s.target.elts) == 2 and all(isinstance(x, ast.Name) for x in s.target.elts) \
                and src_of(s.iter) == "itertools.product(range(6), range(6))":
            if not self.have.get("itertools"):
                bad(s, "itertools is not imported by `import itertools` at the top of main")
            a, b = s.target.elts[0].id, s.target.elts[1].id
            body = s.body
        elif isinstance(s.target, ast.Name) and src_of(s.iter) == "range(6)" and len(s.body) == 1 and \
                isinstance(s.body[0], ast.For) and isinstance(s.body[0].target, ast.Name) and \
                src_of(s.body[0].iter) == "range(6)" and not s.body[0].orelse:
            a, b = s.target.id, s.body[0].target.id
            body = s.body[0].body
        else:
            bad(s, "iteration is neither itertools.product(range(6), range(6)) nor two nested range(6) loops")
        if a == b or len(body) != 2:
            bad(s, "body is not `key = ..; if key in df.columns: cij[:, i, j] = df.loc[:, key]`")
        k = body[0]
        if not (isinstance(k, ast.Assign) and len(k.targets) == 1 and isinstance(k.targets[0], ast.Name)):
            bad(k, "first statement is not `key = <expression>`")
        kn = k.targets[0].id
        names = {a, b, kn}
        if len(names) != 3 or names & (set(self.arrays) | set(self.ex.locals) | set(Expr.RESERVED) | {"range", "min", "max", "sorted", "tuple", "str"}):
            bad(k, "loop variables shadow a tracked name")
        want = "if %s in df.columns:\n    cij[:, %s, %s] = df.loc[:, %s]" % (kn, a, b, kn)
        if src_of(body[1]) != want:
            bad(body[1], "second statement is not `%s`" % want.replace("\n", " "))
        for n in ast.walk(k.value):
            ok = isinstance(n, (ast.JoinedStr, ast.Constant, ast.BinOp, ast.Add, ast.Mod, ast.Tuple, ast.Load, ast.Call)) \
                or (isinstance(n, ast.FormattedValue) and n.conversion == -1 and n.format_spec is None) \
                or (isinstance(n, ast.Name) and isinstance(n.ctx, ast.Load) and (n.id in (a, b) or n.id in KEY_FUNS))
            if isinstance(n, ast.Call):
                ok = isinstance(n.func, ast.Name) and n.func.id in KEY_FUNS and not n.keywords
            if isinstance(n, ast.Constant):
                ok = type(n.value) in (int, str)
            if not ok:
                bad(n, "key expression uses %s `%s`" % (type(n).__name__, src_of(n)[:40] if not isinstance(n, (ast.Load, ast.Add, ast.Mod)) else ""))
        code = compile(ast.Expression(k.value), "<fill-loop key>", "eval")
        keys = []
        for i in range(6):
            for j in range(6):
                try:
                    val = eval(code, {"__builtins__": {}}, dict(KEY_FUNS, **{a: i, b: j}))
                except Exception as ex:      # noqa
                    bad(k, "key expression cannot be evaluated at (%d, %d): %r" % (i, j, ex))
                m = re.fullmatch(r"c([0-9])([0-9])", val) if isinstance(val, str) else None
                if not m:
                    bad(k, "key at (%d, %d) is %r, not 'c<digit><digit>'" % (i, j, val))
                keys.append((i + 1, j + 1, int(m.group(1)), int(m.group(2))))
        self.fill_keys = keys
        self.arrays["cij"] = ("full", "c")
        self.facts.append("fill loop of cij: iteration and body shape matched, key expression `%s` evaluated on all 36 cells "
                          "(table g_st_fill_keys, proved to be the model's in Coq); 'missing column reads as 0' is the "
                          "numpy.zeros + `if key in df.columns` shape" % src_of(k.value))


def translate_static(source):
    """returns (coq_text, info dict)"""
    mod = parse(source)
    mains = [n for n in mod.body if isinstance(n, ast.FunctionDef) and n.name == "main"]
    if len(mains) != 1:
        raise TranslateError(STATIC, None, "function main defined %d times" % len(mains))
    main = mains[0]
    # name bindings inside main
    seen = {k: bindings_of(main, k) for k in list(STATIC_IMPORTS) + list(STATIC_UNIT_FUNS)}
    have = {}
    for nm, nodes in seen.items():
        if nm in STATIC_OPTIONAL and not nodes:
            if bindings_of(mod, nm):
                raise TranslateError(STATIC, bindings_of(mod, nm)[0], "name `%s` is bound at module level" % nm)
            have[nm] = False
            continue
        if len(nodes) != 1:
            raise TranslateError(STATIC, nodes[1] if len(nodes) > 1 else main, "name `%s` is bound %d times in main" % (nm, len(nodes)))
        n = nodes[0]
        have[nm] = True
        if nm in STATIC_IMPORTS:
            if src_of(n) not in STATIC_IMPORTS[nm] or n not in main.body:
                raise TranslateError(STATIC, n, "name `%s` is bound by `%s`" % (nm, src_of(n)[:80]))
        else:
            if not (isinstance(n, ast.ImportFrom) and n.module == "cij.util.units" and n.level == 0 and n in main.body
                    and any(a.name == nm and a.asname is None for a in n.names)):
                raise TranslateError(STATIC, n, "`%s` is not imported from cij.util.units at the top of main" % nm)
    for n in ast.walk(mod):
        if isinstance(n, ast.Name) and n.id in ("setattr", "exec", "eval", "globals", "locals", "vars"):
            raise TranslateError(STATIC, n, "use of `%s`" % n.id)

    # locate the VRH block
    idx = [i for i, s in enumerate(main.body) if isinstance(s, ast.If) and any(
        isinstance(x, ast.Name) and x.id == "cij" and isinstance(x.ctx, ast.Store) for x in ast.walk(s))]
    anywhere = bindings_of(main, "cij")
    if len(idx) != 1 or len(anywhere) != 1:
        raise TranslateError(STATIC, anywhere[1] if len(anywhere) > 1 else main,
                             "`cij` is not bound exactly once, inside one top-level `if input02:` block of main")
    k = idx[0]
    blk = main.body[k]
    if src_of(blk.test) != "input02" or blk.orelse:
        raise TranslateError(STATIC, blk, "the block that binds cij is not a plain `if input02:`")
    # imports must precede
    for nm, nodes in seen.items():
        if nodes and main.body.index(nodes[0]) > k:
            raise TranslateError(STATIC, nodes[0], "`%s` is imported after the VRH block" % nm)
    tr = StaticTr(source, mod, main, k, have)
    tr.block(blk.body)
    if tr.inverse_of is None:
        raise TranslateError(STATIC, blk, "no `numpy.linalg.inv(cij)` in the VRH block")
    tail = main.body[k + 1:]
    for s in tail:
        t = src_of(s)
        if isinstance(s, ast.If) and src_of(s.test) == "input02" and not s.orelse:
            tr.block(s.body)
            continue
        if t == STATIC_SAMPLING or (t == STATIC_PRINT and have.get("sys")):
            tr.facts.append("tail statement matched literally: " + t.split("\n")[0])
            continue
        tr.stmt(s)
    missing = [c for c in ST_COLS if c not in tr.version]
    if missing:
        raise TranslateError(STATIC, blk, "columns %s are not computed by the translated blocks" % ", ".join(missing))

    out = ["(* ---- GENERATED from %s ---- *)" % STATIC,
           "(* one table row: c / s = the whole 6x6 cij and numpy.linalg.inv of the whole cij, 1-based;\n"
           "   rho0 = the density column on entry of the VRH block; to_gcm3 / to_kms = cij.util.units._to_gcm3 / _to_kms *)",
           "Section GenStatic.", "  Context {F : Type} {OF : Ops F}.", "  Local Open Scope ops_scope.", ""]
    for ident, body in tr.defs:
        out.append("  Definition %s (to_gcm3 to_kms : F -> F) (rho0 : F) (c s : @mat F) : F :=\n    %s.\n" % (ident, body))
    for col in sorted(tr.version):
        out.append("  Definition g_st_%s := g_st_%s_%d." % (col, col, tr.version[col]))
    out.append("End GenStatic.\n")
    out.append("Local Open Scope string_scope.")
    idents = ["g_st_%s" % c for c in sorted(tr.version)] + [i for i, _ in reversed(tr.defs)]
    out.append("Ltac g_st_unfold := unfold %s." % ", ".join(idents))
    out.append("Definition g_st_inverse_of : string := %s." % coq_str(tr.inverse_of))
    out.append("(* (i, j, a, b): cij[:, i-1, j-1] is filled from the column 'c<a><b>' (when present, else stays 0) *)")
    out.append("Definition g_st_fill_keys : list (Z * Z * Z * Z) :=\n  [%s]." % "; ".join(
        "(%d, %d, %d, %d)" % q for q in sorted(tr.fill_keys)))
    out.append("Definition g_st_arrays : list (string * string) :=\n  [%s]." % "; ".join(
        "(%s, %s)" % (coq_str(a), coq_str("%s %s" % st)) for a, st in sorted(tr.arrays.items())))
    out.append("(* pattern-checked / evaluated at translation time:\n   %s *)" % "\n   ".join(
        f.replace("(*", "( *").replace("*)", "* )").replace('"', "'") for f in tr.facts))
    return "\n".join(out) + "\n", dict(columns=dict(tr.version), arrays=dict(tr.arrays), facts=tr.facts)


if __name__ == "__main__":
    import sys
    root = sys.argv[1] if len(sys.argv) > 1 else "/repo"
    r = translate_calculator(open(root + "/" + CALC).read(), open(root + "/cij/util/__init__.py").read(),
                             open(root + "/cij/util/voigt.py").read())
    for k, e in r.errors.items():
        print("(* ERROR %s: %s *)" % (k, e))
    st = ""
    try:
        st = translate_static(open(root + "/" + STATIC).read())[0]
    except TranslateError as e:
        print("(* ERROR static: %s *)" % e)
    print(gen_file(emit_calculator(r), st))
