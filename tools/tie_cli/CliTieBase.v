(** Shared vocabulary of the static tie of cij/cli/extract.py and cij/cli/geotherm.py (C19).
    Copied into the per-run directory by tools/props/cli_static.py (logical path CijGen).  Hand-written:
    these definitions are the TRUSTED reading of the library calls the translator accepts (glob / fnmatch,
    pandas label access, numpy on 1-D arrays, dict, DataFrame column assignment); the generated file
    Gen_cli.v composes them exactly as the source does, and Tie_cli_*.v prove the compositions equal to
    theories/ExtractModel.v. *)
From Coq Require Import String Ascii List Bool Arith.
From Cij Require Import Ops ExtractModel.
Import ListNotations.

(** a [for] loop in the exception monad: the first iteration that raises ends the loop *)
Fixpoint py_for {S E : Type} (f : S -> E -> option S) (l : list E) (s : S) : option S :=
  match l with
  | [] => Some s
  | x :: r => match f s x with Some s' => py_for f r s' | None => None end
  end.

Lemma py_for_ext {S E : Type} (f g : S -> E -> option S) :
  (forall s x, f s x = g s x) -> forall l s, py_for f l s = py_for g l s.
Proof. intros H l; induction l as [|x r IH]; intros s; cbn; [reflexivity|]. rewrite H. destruct (g s x); auto. Qed.

(* ------------------------------------------------------------------------------------------ *)
(** * glob.glob(pattern) in one directory = the names of the listing, in listing order, that fnmatch accepts.
    Pattern language: [*] any run of characters, [?] one character, everything else literal; a character class
    "[" is not modelled (the translator refuses it in literal text; [GBad] matches nothing).  glob does not let a
    wildcard match a leading dot. *)
Inductive gtok := GLit (c : ascii) | GStar | GAny | GBad.

Definition gtok_of (c : ascii) : gtok :=
  if Ascii.eqb c "*" then GStar else if Ascii.eqb c "?" then GAny else if Ascii.eqb c "[" then GBad else GLit c.
Fixpoint glob_parse (p : string) : list gtok :=
  match p with EmptyString => [] | String c r => gtok_of c :: glob_parse r end.

Fixpoint wild (p : list gtok) (s : string) : bool :=
  match p with
  | [] => match s with EmptyString => true | _ => false end
  | GLit c :: p' => match s with String d s' => Ascii.eqb c d && wild p' s' | EmptyString => false end
  | GAny :: p' => match s with String _ s' => wild p' s' | EmptyString => false end
  | GBad :: _ => false
  | GStar :: p' =>
      (fix star (s : string) : bool :=
         wild p' s || match s with String _ s' => star s' | EmptyString => false end) s
  end.

Definition hidden_ok (p : list gtok) (s : string) : bool :=
  match s with
  | String d _ => if Ascii.eqb d "." then match p with GLit c :: _ => Ascii.eqb c "." | _ => false end else true
  | EmptyString => true
  end.

Definition fnmatch (pat name : string) : bool :=
  hidden_ok (glob_parse pat) name && wild (glob_parse pat) name.
Definition py_glob (listing : list string) (pat : string) : list string := filter (fnmatch pat) listing.

(** l[k] with k >= 0: IndexError = None *)
Definition py_index {A : Type} (l : list A) (k : nat) : option A := nth_error l k.

(** sorted(list of str): insertion sort by code points (stable; only the order matters here) *)
Fixpoint str_insert (x : string) (l : list string) : list string :=
  match l with
  | [] => [x]
  | y :: r => if String.leb x y then x :: l else y :: str_insert x r
  end.
Fixpoint py_sorted (l : list string) : list string :=
  match l with [] => [] | x :: r => str_insert x (py_sorted r) end.

(** a variable name without glob metacharacters and directory separators *)
Definition plain_char (c : ascii) : bool :=
  negb (Ascii.eqb c "*" || Ascii.eqb c "?" || Ascii.eqb c "[" || Ascii.eqb c "/").
Fixpoint plain (s : string) : bool :=
  match s with EmptyString => true | String c r => plain_char c && plain r end.

(** dict with str keys, insertion ordered: d[k] = v replaces in place or appends; d[k] raises KeyError *)
Definition dict_empty {V : Type} : list (string * V) := [].
Fixpoint dict_set {V : Type} (k : string) (v : V) (d : list (string * V)) : list (string * V) :=
  match d with
  | [] => [(k, v)]
  | (k', v') :: r => if String.eqb k k' then (k', v) :: r else (k', v') :: dict_set k v r
  end.
Fixpoint dict_get {V : Type} (k : string) (d : list (string * V)) : option V :=
  match d with
  | [] => None
  | (k', v') :: r => if String.eqb k k' then Some v' else dict_get k r
  end.

(** d.items(): the (key, value) pairs in insertion order (a key assigned again keeps its first position) *)
Definition dict_items {V : Type} (d : list (string * V)) : list (string * V) := d.

Section CliBase.
  Context {F : Type} {OF : Ops F}.
  Local Open Scope ops_scope.

  (** pandas accessors on the table load_data returns *)
  Definition df_T (t : @table F) : @table F := transpose t.
  Definition df_columns (t : @table F) : list F := t_cols t.
  Definition df_index (t : @table F) : list F := t_idx t.
  Definition df_values (t : @table F) : list (list F) := t_vals t.
  (** df.iloc[k]: the Series (labels = the columns, values = row k) *)
  Definition df_iloc (t : @table F) (k : nat) : list F * list F := (t_cols t, nth k (t_vals t) []).

  (** numpy on 1-D arrays *)
  Definition np_sub_s (a : list F) (y : F) : list F := map (fun x => x - y) a.
  Definition np_abs (a : list F) : list F := map fabs a.
  (** numpy.argmin: ONE left-to-right pass that keeps the best value seen so far and replaces it only by a
      strictly smaller one (0 on the empty array, where numpy raises - as in the model) *)
  Fixpoint scan_min (l : list F) (k bk : nat) (bv : F) : nat :=
    match l with
    | [] => bk
    | x :: r => if negb (fleb bv x) then scan_min r (S k) k x else scan_min r (S k) bk bv
    end.
  Definition np_argmin (a : list F) : nat :=
    match a with [] => O | x :: r => scan_min r 1 0 x end.

  (** pandas.DataFrame(columns=names, index=labels): every cell NaN (= None) *)
  Definition oframe : Type := (list F * list (string * list (option F)))%type.
  Definition oframe_new (cols : list string) (idx : list F) : oframe :=
    (idx, map (fun c => (c, map (fun _ : F => @None F) idx)) cols).
  (** table[k] = series: the Series is ALIGNED on the frame's index labels, the column is replaced in place
      (or appended when new) *)
  Definition oframe_set (k : string) (s : list F * list F) (t : oframe) : oframe :=
    (fst t, dict_set k (align (fst t) s) (snd t)).

  (** RectBivariateSpline(x, y, z): the object remembers its three arguments; calling it with grid=False
      evaluates the spline (oracle [spline]) at the points (a_i, b_i) *)
  Record spline_obj := mk_spline { so_x : list F; so_y : list F; so_z : list (list F) }.
  Definition spline_call (spline : @spline_t F) (o : spline_obj) (a b : list F) : list F :=
    zipw (fun x y => spline (so_x o) (so_y o) (so_z o) x y) a b.

  (** what the correspondence shards of C19 do with a request: all tables first *)
  Fixpoint load_all (load : string -> option (@table F)) (vars : list string) : option (list (string * @table F)) :=
    match vars with
    | [] => Some []
    | v :: r => match load v, load_all load r with
                | Some t, Some ts => Some ((v, t) :: ts)
                | _, _ => None
                end
    end.
End CliBase.
