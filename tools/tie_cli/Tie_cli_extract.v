(** static tie, group EXTRACT-MAIN: main of cij/cli/extract.py, regenerated from the source, is the model's
    [extract] (theories/ExtractModel.v) for ALL inputs over R:
      - temperature is tested first, then pressure (which transposes the table); neither = an exception;
      - the row is numpy.argmin(numpy.abs(index - y)) = the model's [argmin_abs] (first minimum; by induction);
      - the Series of every variable is kept under its name, the output frame is indexed by the labels of the
        LAST variable's table and gets one ALIGNED column per variable, in request order. *)
From Coq Require Import String List Bool Arith Reals Lra Lia.
From Cij Require Import Ops ROps ExtractModel Extract.
From CijGen Require Import CliTieBase Gen_cli.
Import ListNotations.
Local Open Scope R_scope.

Notation tableR := (@table R).
Notation seriesR := (list R * list R)%type.

(* ---------------------------------------------------------------------------------------------- *)
(** * numpy.argmin (one left-to-right pass) = the model's argmin (recursion from the right) *)
Definition min_of (l : list R) : R := nth (@argmin R ROps l) l 0.

Lemma argmin_cons2 : forall x y r,
  @argmin R ROps (x :: y :: r) = if Rleb x (min_of (y :: r)) then O else S (@argmin R ROps (y :: r)).
Proof.
  intros x y r. unfold min_of.
  assert (Hk : (@argmin R ROps (y :: r) < length (y :: r))%nat)
    by (apply (argmin_spec (y :: r)); discriminate).
  rewrite (nth_indep (y :: r) 0 x Hk). reflexivity.
Qed.

Lemma scan_min_cons : forall x l k bk bv,
  @scan_min R ROps (x :: l) k bk bv =
  if negb (Rleb bv x) then @scan_min R ROps l (S k) k x else @scan_min R ROps l (S k) bk bv.
Proof. reflexivity. Qed.

Lemma scan_min_spec : forall (l : list R) (k bk : nat) (bv : R), l <> [] ->
  @scan_min R ROps l k bk bv = if Rleb bv (min_of l) then bk else (k + @argmin R ROps l)%nat.
Proof.
  induction l as [|x l IH]; intros k bk bv Hne; [congruence|].
  destruct l as [|y r].
  - rewrite scan_min_cons. cbn [scan_min]. unfold min_of. cbn [argmin nth].
    destruct (Rleb bv x); cbn [negb]; [reflexivity | lia].
  - assert (Hne' : y :: r <> []) by discriminate.
    rewrite scan_min_cons.
    assert (Hmin : min_of (x :: y :: r) = if Rleb x (min_of (y :: r)) then x else min_of (y :: r)).
    { unfold min_of at 1. rewrite argmin_cons2. destruct (Rleb x (min_of (y :: r))); reflexivity. }
    rewrite Hmin, argmin_cons2.
    destruct (Rleb bv x) eqn:E1; cbn [negb].
    + rewrite (IH (S k) bk bv Hne'). apply Rleb_true in E1.
      destruct (Rleb x (min_of (y :: r))) eqn:E2.
      * apply Rleb_true in E2.
        replace (Rleb bv (min_of (y :: r))) with true by (symmetry; apply Rleb_true; lra).
        replace (Rleb bv x) with true by (symmetry; apply Rleb_true; lra). reflexivity.
      * destruct (Rleb bv (min_of (y :: r))); [reflexivity | lia].
    + rewrite (IH (S k) k x Hne'). apply Rleb_false in E1.
      destruct (Rleb x (min_of (y :: r))) eqn:E2.
      * replace (Rleb bv x) with false by (symmetry; apply Rleb_false; lra). lia.
      * apply Rleb_false in E2.
        replace (Rleb bv (min_of (y :: r))) with false by (symmetry; apply Rleb_false; lra). lia.
Qed.

Lemma np_argmin_model : forall l : list R, @np_argmin R ROps l = @argmin R ROps l.
Proof.
  intros [|x [|y r]]; [reflexivity | reflexivity |].
  unfold np_argmin. rewrite scan_min_spec by discriminate. rewrite argmin_cons2.
  destruct (Rleb x (min_of (y :: r))); reflexivity.
Qed.

(** numpy.argmin(numpy.abs(index - y)) *)
Lemma nearest_index_model : forall (xs : list R) (y : R),
  @np_argmin R ROps (@np_abs R ROps (@np_sub_s R ROps xs y)) = @argmin_abs R ROps xs y.
Proof.
  intros xs y. rewrite np_argmin_model. unfold np_abs, np_sub_s, argmin_abs. rewrite map_map. reflexivity.
Qed.

(* ---------------------------------------------------------------------------------------------- *)
(** * which option decides, and the row it selects *)
Definition sel_of (temperature pressure : option R) : option (@selector R) :=
  match temperature, pressure with
  | Some t, _ => Some (AtT t)          (* -T wins when both are given *)
  | None, Some p => Some (AtP p)       (* -P: the table is transposed first *)
  | None, None => None                 (* neither: y is never bound - UnboundLocalError *)
  end.

(** the specification of main in terms of the model *)
Definition spec_main (load : string -> option tableR) (vars : list string) (temperature pressure : option R)
  : option (list R * list (string * list (option R))) :=
  match vars with
  | [] => None                          (* x_array is never bound ("".split(",") is [""], never []) *)
  | _ => match sel_of temperature pressure, load_all load vars with
         | Some s, Some tabs => Some (@extract R ROps s tabs)
         | _, _ => None
         end
  end.

(** one round of the first loop, as the model sees it *)
Definition step1 (load : string -> option tableR) (s : @selector R)
  (st : list (string * seriesR) * option (list R) * option R) (var : string) :=
  let '(data, xa, y) := st in
  match load var with
  | Some t => Some (dict_set var (@select R ROps s t) data, Some (fst (@select R ROps s t)), Some (@sel_y R s))
  | None => None
  end.
Definition step2 (data : list (string * seriesR)) (tb : @oframe R) (var : string) : option (@oframe R) :=
  match dict_get var data with Some g => Some (@oframe_set R ROps var g tb) | None => None end.

(** the second loop, in the two forms the translator accepts:
    `for var in variables: table[var] = data[var]`   and   `for var, column in data.items(): table[var] = column` *)
Definition step2i (tb : @oframe R) (kv : string * seriesR) : option (@oframe R) :=
  Some (@oframe_set R ROps (fst kv) (snd kv) tb).
Definition L2_vars (vars : list string) (data : list (string * seriesR)) (xa : list R) :=
  py_for (step2 data) vars (oframe_new vars xa).
Definition L2_items (vars : list string) (data : list (string * seriesR)) (xa : list R) :=
  py_for step2i (dict_items data) (oframe_new vars xa).

Definition main_gen (L2 : list (string * seriesR) -> list R -> option (@oframe R))
  (load : string -> option tableR) (s : @selector R) (vars : list string) :=
  match py_for (step1 load s) vars (dict_empty, None, None) with
  | Some (data, Some xa, _) => L2 data xa
  | _ => None
  end.
Definition main_with load s vars := main_gen (L2_vars vars) load s vars.

(** the generated main, for each of the three ways the options can be given; the second loop in either form *)
Ltac second_loop d x vars :=
  first
    [ left; unfold L2_vars;
      rewrite (py_for_ext _ (step2 d)) by (intros tb v; unfold step2; destruct (dict_get v d); reflexivity);
      destruct (py_for (step2 d) vars (oframe_new vars x)); reflexivity
    | right; unfold L2_items;
      rewrite (py_for_ext _ step2i) by (intros tb kv; reflexivity);
      destruct (py_for step2i (dict_items d) (oframe_new vars x)); reflexivity ].

Ltac main_shape load SEL vars :=
  unfold gx_main; cbv zeta;
  rewrite (py_for_ext _ (step1 load SEL))
    by (intros [[d x] y] v; unfold step1; destruct (load v) as [tb|]; [|reflexivity];
        cbv zeta; rewrite nearest_index_model; reflexivity);
  unfold main_with, main_gen;
  let d := fresh "d" in let x := fresh "x" in let y := fresh "y" in
  destruct (py_for (step1 load SEL) vars (dict_empty, None, None)) as [[[d [x|]] y]|];
  [ cbv zeta; second_loop d x vars | left; reflexivity | left; reflexivity ].

Lemma gx_main_T : forall load vars t p,
  @gx_main R ROps load vars (Some t) p = main_with load (AtT t) vars \/
  @gx_main R ROps load vars (Some t) p = main_gen (L2_items vars) load (AtT t) vars.
Proof. intros. main_shape load (AtT t) vars. Qed.

Lemma gx_main_P : forall load vars p,
  @gx_main R ROps load vars None (Some p) = main_with load (AtP p) vars \/
  @gx_main R ROps load vars None (Some p) = main_gen (L2_items vars) load (AtP p) vars.
Proof. intros. main_shape load (AtP p) vars. Qed.

Lemma gx_main_neither : forall load vars, @gx_main R ROps load vars None None = None.
Proof.
  intros. unfold gx_main. cbv zeta. destruct vars as [|v r]; [reflexivity|].
  cbn [py_for]. destruct (load v); reflexivity.
Qed.

(* ---------------------------------------------------------------------------------------------- *)
(** * the two loops against [extract] *)
Lemma dict_set_new {V} : forall (k : string) (v : V) d, ~ In k (map fst d) -> dict_set k v d = d ++ [(k, v)].
Proof.
  induction d as [|[k' v'] d IH]; intros H; [reflexivity|]. cbn in *.
  destruct (String.eqb_spec k k'); [exfalso; apply H; left; congruence|].
  rewrite IH; [reflexivity | intro; apply H; right; assumption].
Qed.
Lemma dict_set_hit {V} : forall (k : string) (v w : V) d1 d2, ~ In k (map fst d1) ->
  dict_set k v (d1 ++ (k, w) :: d2) = d1 ++ (k, v) :: d2.
Proof.
  induction d1 as [|[k' v'] d1 IH]; intros d2 H; cbn in *.
  - rewrite String.eqb_refl. reflexivity.
  - destruct (String.eqb_spec k k'); [exfalso; apply H; left; congruence|].
    rewrite IH; [reflexivity | intro; apply H; right; assumption].
Qed.
Lemma dict_get_app_hit {V} : forall (k : string) (v : V) d1 d2, ~ In k (map fst d1) ->
  dict_get k (d1 ++ (k, v) :: d2) = Some v.
Proof.
  induction d1 as [|[k' v'] d1 IH]; intros d2 H; cbn in *.
  - rewrite String.eqb_refl. reflexivity.
  - destruct (String.eqb_spec k k'); [exfalso; apply H; left; congruence|].
    apply IH. intro; apply H; right; assumption.
Qed.

Section Loops.
  Variable load : string -> option tableR.
  Variable s : @selector R.
  Let ser (vt : string * tableR) : string * seriesR := (fst vt, @select R ROps s (snd vt)).

  Lemma load_all_names : forall vars tabs, load_all load vars = Some tabs -> map fst tabs = vars.
  Proof.
    induction vars as [|v r IH]; intros tabs H; cbn in H.
    - inversion H. reflexivity.
    - destruct (load v); [|discriminate]. destruct (load_all load r); [|discriminate].
      inversion H. cbn. f_equal. apply IH. reflexivity.
  Qed.

  (** first loop: all tables load -> the dict holds the Series in request order, x_array is the last table's *)
  Lemma loop1_some : forall vars tabs d xa y,
    load_all load vars = Some tabs -> NoDup (map fst d ++ vars) ->
    py_for (step1 load s) vars (d, xa, y) =
    Some (d ++ map ser tabs,
          match rev tabs with (_, t) :: _ => Some (fst (@select R ROps s t)) | [] => xa end,
          match vars with [] => y | _ => Some (@sel_y R s) end).
  Proof.
    induction vars as [|v r IH]; intros tabs d xa y HL ND; cbn in HL.
    - inversion HL. cbn. rewrite app_nil_r. reflexivity.
    - destruct (load v) as [t|] eqn:Ev; [|discriminate].
      destruct (load_all load r) as [ts|] eqn:Er; [|discriminate]. inversion HL; subst tabs. clear HL.
      cbn [py_for]. unfold step1 at 1. rewrite Ev.
      assert (Hv : ~ In v (map fst d)).
      { intro Hin. apply NoDup_remove_2 in ND. apply ND. apply in_or_app. left. exact Hin. }
      rewrite (dict_set_new v _ d Hv).
      rewrite (IH ts (d ++ [(v, @select R ROps s t)]) _ _ eq_refl).
      + assert (EA : (d ++ [(v, @select R ROps s t)]) ++ map ser ts = d ++ map ser ((v, t) :: ts))
          by (rewrite <- app_assoc; reflexivity).
        assert (EB : match rev ts with
                     | (_, t0) :: _ => Some (fst (@select R ROps s t0))
                     | [] => Some (fst (@select R ROps s t))
                     end =
                     match rev ((v, t) :: ts) with
                     | (_, t0) :: _ => Some (fst (@select R ROps s t0))
                     | [] => xa
                     end).
        { cbn [rev]. destruct (rev ts) as [|[v' t'] q]; reflexivity. }
        assert (EC : match r with [] => Some (@sel_y R s) | _ :: _ => Some (@sel_y R s) end = Some (@sel_y R s))
          by (destruct r; reflexivity).
        rewrite EA, EB, EC. reflexivity.
      + rewrite map_app. cbn [map fst]. rewrite <- app_assoc. exact ND.
  Qed.

  Lemma loop1_none : forall vars st, load_all load vars = None -> py_for (step1 load s) vars st = None.
  Proof.
    induction vars as [|v r IH]; intros [[d xa] y] H; cbn in H; [discriminate|].
    cbn [py_for]. unfold step1 at 1. destruct (load v) as [t|]; [|reflexivity].
    apply IH. destruct (load_all load r); [discriminate | reflexivity].
  Qed.

  (** second loop: every blank column is replaced, in place, by the aligned Series of its variable *)
  Lemma loop2 : forall (x : list R) (data : list (string * seriesR)) (todo : list (string * tableR))
                       (done : list (string * list (option R))),
    NoDup (map fst done ++ map fst todo) ->
    (forall vt, In vt todo -> dict_get (fst vt) data = Some (@select R ROps s (snd vt))) ->
    py_for (step2 data) (map fst todo)
           (x, done ++ map (fun vt => (fst vt, map (fun _ : R => @None R) x)) todo) =
    Some (x, done ++ map (fun vt => (fst vt, @align R ROps x (@select R ROps s (snd vt)))) todo).
  Proof.
    intros x data. induction todo as [|[v t] r IH]; intros done ND Hget; [reflexivity|].
    cbn [map fst py_for]. unfold step2 at 1.
    pose proof (Hget (v, t) (or_introl eq_refl)) as Hg. cbn [fst snd] in Hg. rewrite Hg. cbn [fst snd].
    unfold oframe_set. cbn [fst snd].
    assert (Hv : ~ In v (map fst done)).
    { intro Hin. cbn [map fst] in ND. apply NoDup_remove_2 in ND. apply ND. apply in_or_app. left. exact Hin. }
    rewrite (dict_set_hit v _ _ done _ Hv).
    replace (done ++ (v, @align R ROps x (@select R ROps s t)) :: map (fun vt => (fst vt, map (fun _ : R => @None R) x)) r)
      with ((done ++ [(v, @align R ROps x (@select R ROps s t))]) ++ map (fun vt => (fst vt, map (fun _ : R => @None R) x)) r)
      by (rewrite <- app_assoc; reflexivity).
    rewrite IH.
    - rewrite <- app_assoc. reflexivity.
    - rewrite map_app. cbn [map fst]. rewrite <- app_assoc. exact ND.
    - intros vt Hin. apply Hget. right. exact Hin.
  Qed.

  Lemma main_with_extract : forall vars, NoDup vars -> vars <> [] ->
    main_with load s vars =
    match load_all load vars with Some tabs => Some (@extract R ROps s tabs) | None => None end.
  Proof.
    intros vars ND Hne. unfold main_with, main_gen, L2_vars.
    destruct (load_all load vars) as [tabs|] eqn:HL.
    - rewrite (loop1_some vars tabs dict_empty None None HL) by exact ND.
      pose proof (load_all_names vars tabs HL) as Hn.
      assert (Htne : tabs <> []) by (intro; subst tabs; cbn in Hn; congruence).
      destruct (rev tabs) as [|[vl tl] q] eqn:Erev.
      { exfalso. apply Htne. rewrite <- (rev_involutive tabs), Erev. reflexivity. }
      cbn [app dict_empty].
      unfold extract. rewrite Erev.
      set (x := fst (@select R ROps s tl)).
      rewrite <- Hn. unfold oframe_new. rewrite map_map.
      assert (H2 := loop2 x (map ser tabs) tabs []). cbn [app map] in H2. rewrite H2.
      + reflexivity.
      + rewrite Hn. exact ND.
      + intros [v t] Hin. cbn [fst snd].
        apply in_split in Hin. destruct Hin as [l1 [l2 Hs]]. rewrite Hs, map_app. cbn [map]. unfold ser at 2. cbn [fst snd].
        apply dict_get_app_hit. rewrite map_map. cbn [fst].
        rewrite Hs, map_app in Hn. cbn [map fst] in Hn. rewrite <- Hn in ND.
        apply NoDup_remove_2 in ND. intro Hin. apply ND. apply in_or_app. left.
        rewrite map_ext with (g := fst) in Hin by reflexivity. exact Hin.
    - rewrite loop1_none by exact HL. reflexivity.
  Qed.

  (** iterating over the items of the dict filled in request order = iterating over the request (distinct names) *)
  Lemma items_as_vars : forall (x : list R) (pre d : list (string * seriesR)) (tb : @oframe R),
    NoDup (map fst (pre ++ d)) ->
    py_for step2i d tb = py_for (step2 (pre ++ d)) (map fst d) tb.
  Proof.
    intros x pre d. revert pre. induction d as [|[k v] d IH]; intros pre tb ND; [reflexivity|].
    cbn [map fst py_for]. unfold step2 at 1, step2i at 1. cbn [fst snd].
    rewrite dict_get_app_hit.
    - replace (pre ++ (k, v) :: d) with ((pre ++ [(k, v)]) ++ d) by (rewrite <- app_assoc; reflexivity).
      apply IH. rewrite <- app_assoc. exact ND.
    - rewrite map_app in ND. cbn [map fst] in ND. apply NoDup_remove_2 in ND.
      intro Hin. apply ND. apply in_or_app. left. exact Hin.
  Qed.

  Lemma main_items_extract : forall vars, NoDup vars -> vars <> [] ->
    main_gen (L2_items vars) load s vars =
    match load_all load vars with Some tabs => Some (@extract R ROps s tabs) | None => None end.
  Proof.
    intros vars ND Hne. rewrite <- (main_with_extract vars ND Hne). unfold main_with, main_gen.
    destruct (load_all load vars) as [tabs|] eqn:HL.
    - rewrite (loop1_some vars tabs dict_empty None None HL) by exact ND.
      pose proof (load_all_names vars tabs HL) as Hn.
      destruct (rev tabs) as [|[vl tl] q]; [reflexivity|]. cbn [app dict_empty].
      unfold L2_items, L2_vars, dict_items.
      rewrite (items_as_vars (fst (@select R ROps s tl)) [] (map ser tabs)).
      + cbn [app]. rewrite map_map. cbn [fst]. rewrite (map_ext _ fst) by reflexivity. rewrite Hn. reflexivity.
      + cbn [app]. rewrite map_map. cbn [fst]. rewrite (map_ext _ fst) by reflexivity. rewrite Hn. exact ND.
    - rewrite loop1_none by exact HL. reflexivity.
  Qed.
End Loops.

(* ---------------------------------------------------------------------------------------------- *)
Theorem tie_extract_main : forall (load : string -> option tableR) (vars : list string) (temperature pressure : option R),
  NoDup vars -> @gx_main R ROps load vars temperature pressure = spec_main load vars temperature pressure.
Proof.
  intros load vars T P ND. unfold spec_main.
  destruct vars as [|v r].
  - destruct T as [t|]; [|destruct P as [p|]]; reflexivity.
  - destruct T as [t|]; [|destruct P as [p|]]; cbn [sel_of].
    + destruct (gx_main_T load (v :: r) t P) as [-> | ->];
        [apply main_with_extract | apply main_items_extract]; first [exact ND | discriminate].
    + destruct (gx_main_P load (v :: r) p) as [-> | ->];
        [apply main_with_extract | apply main_items_extract]; first [exact ND | discriminate].
    + rewrite gx_main_neither. destruct (load_all load (v :: r)); reflexivity.
Qed.

(** consequences that name the clauses of the property *)
Corollary tie_temperature_first : forall load vars t p, NoDup vars ->
  @gx_main R ROps load vars (Some t) (Some p) = @gx_main R ROps load vars (Some t) None.
Proof. intros. rewrite !tie_extract_main by assumption. reflexivity. Qed.

(** non-vacuity: a request on a 2x2 table is answered *)
Example main_answers :
  exists out, @gx_main R ROps (fun _ => Some (mkTable [100; 200] [0; 10] [[1; 2]; [3; 4]])) ["a"%string] None (Some 9) = Some out.
Proof. rewrite tie_extract_main by (repeat constructor; intros []). cbn. eexists. reflexivity. Qed.

Print Assumptions tie_extract_main.
