(** static tie, group GEOTHERM-MAIN: fit_data and main of cij/cli/geotherm.py, regenerated from the source,
    are the model's [geotherm] (theories/ExtractModel.v) with the spline as an oracle (section variable):
      - the spline is built from (index, columns, values) of the table, in that order;
      - it is evaluated pointwise (grid=False) at (table[p_col], table[t_col]) - FIRST argument from the option
        named --p-col, SECOND from --t-col (the help texts of the two options are swapped; the defaults "T" / "P"
        make the first argument the temperature column);
      - each result column is stored under the variable's name (appended after the geotherm's own columns when
        the name is new), in request order; a missing column / table is an exception. *)
From Coq Require Import String List Bool Arith Reals.
From Cij Require Import Ops ROps ExtractModel Extract.
From CijGen Require Import CliTieBase Gen_cli.
Import ListNotations.

Section Geo.
  Context {F : Type} {OF : Ops F}.
  Variable spline : @spline_t F.

  (** fit_data: RectBivariateSpline(x = index, y = columns, z = values) *)
  Lemma tie_fit_data : forall df : @table F,
    gg_fit_data df = Some (mk_spline (t_idx df) (t_cols df) (t_vals df)).
  Proof. intros. reflexivity. Qed.

  (** one variable: exactly the model's [geotherm_eval] *)
  Lemma tie_spline_call : forall (tc pc : string) (geo : @frame F) (t : @table F),
    match fget pc geo, fget tc geo with
    | Some a, Some b => Some (spline_call spline (mk_spline (t_idx t) (t_cols t) (t_vals t)) a b)
    | _, _ => None
    end = geotherm_eval spline tc pc geo t.
  Proof. intros. unfold geotherm_eval, spline_call. cbn [so_x so_y so_z]. reflexivity. Qed.

  (** the model's loop with the tables loaded on the way (what main does) *)
  Fixpoint spec_geo (load : string -> option (@table F)) (tc pc : string) (vars : list string) (geo : @frame F)
    : option (@frame F) :=
    match vars with
    | [] => Some geo
    | v :: r =>
        match load v with
        | None => None
        | Some t => match geotherm_eval spline tc pc geo t with
                    | Some c => spec_geo load tc pc r (fset v c geo)
                    | None => None
                    end
        end
    end.

  Lemma spec_geo_model : forall load tc pc vars geo,
    spec_geo load tc pc vars geo =
    match load_all load vars with Some tabs => geotherm spline tc pc geo tabs | None => None end.
  Proof.
    induction vars as [|v r IH]; intros geo; [reflexivity|]. cbn [spec_geo load_all].
    destruct (load v) as [t|]; [|reflexivity].
    destruct (load_all load r) as [ts|] eqn:E.
    - cbn [geotherm]. destruct (geotherm_eval spline tc pc geo t); [|reflexivity]. rewrite IH. reflexivity.
    - destruct (geotherm_eval spline tc pc geo t); [|reflexivity]. rewrite IH. reflexivity.
  Qed.

  Definition gstep (load : string -> option (@table F)) (tc pc : string) (geo : @frame F) (v : string) : option (@frame F) :=
    match load v with
    | None => None
    | Some t => match geotherm_eval spline tc pc geo t with Some c => Some (fset v c geo) | None => None end
    end.

  Lemma py_for_gstep : forall load tc pc vars geo,
    py_for (gstep load tc pc) vars geo = spec_geo load tc pc vars geo.
  Proof.
    induction vars as [|v r IH]; intros geo; [reflexivity|]. cbn [py_for spec_geo]. unfold gstep at 1.
    destruct (load v) as [t|]; [|reflexivity]. destruct (geotherm_eval spline tc pc geo t); [|reflexivity]. apply IH.
  Qed.

  Theorem tie_geotherm_main : forall (load : string -> option (@table F)) (vars : list string) (tc pc : string) (geo : @frame F),
    gg_main spline load vars tc pc geo =
    match load_all load vars with Some tabs => geotherm spline tc pc geo tabs | None => None end.
  Proof.
    intros. rewrite <- spec_geo_model, <- py_for_gstep. unfold gg_main. cbv zeta.
    rewrite (py_for_ext _ (gstep load tc pc)).
    2:{ intros g v. unfold gstep. destruct (load v) as [t|]; [|reflexivity]. cbv zeta.
        rewrite tie_fit_data. rewrite <- tie_spline_call.
        destruct (fget pc g); [|reflexivity]. destruct (fget tc g); reflexivity. }
    destruct (py_for (gstep load tc pc) vars geo); reflexivity.
  Qed.
End Geo.

(** the option defaults, as click passes them when --t-col / --p-col are absent *)
Lemma tie_default_cols : gg_default_t_col = default_t_col /\ gg_default_p_col = default_p_col.
Proof. split; reflexivity. Qed.

(** with the defaults the spline over (temperatures, pressures) is evaluated at (T, P) of the geotherm:
    the model's theorem, now about the generated main *)
Corollary tie_geotherm_axes : forall (spline : @spline_t R) (geo : @frame R) (t : @table R) (v : string) (Tg Pg : list R),
  fget "T" geo = Some Tg -> fget "P" geo = Some Pg ->
  gg_main spline (fun _ => Some t) [v] gg_default_t_col gg_default_p_col geo =
  Some (fset v (zipw (fun T P => spline (t_idx t) (t_cols t) (t_vals t) T P) Tg Pg) geo).
Proof.
  intros spline geo t v Tg Pg HT HP. rewrite tie_geotherm_main. cbn [load_all geotherm].
  destruct tie_default_cols as [-> ->]. rewrite (geotherm_axes_l spline geo t Tg Pg HT HP). reflexivity.
Qed.

Theorem tie_group_geotherm :
  (forall (F : Type) (spline : @spline_t F) load vars tc pc geo,
     gg_main spline load vars tc pc geo =
     match load_all load vars with Some tabs => geotherm spline tc pc geo tabs | None => None end) /\
  gg_default_t_col = default_t_col /\ gg_default_p_col = default_p_col.
Proof. split; [intros; apply tie_geotherm_main | exact tie_default_cols]. Qed.
Print Assumptions tie_group_geotherm.
