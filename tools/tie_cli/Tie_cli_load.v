(** static tie, group LOAD-DATA: the file choice of load_data (cij/cli/extract.py and cij/cli/geotherm.py),
    regenerated from the source, is the model's [choose_file]:
    glob(f"{var}_tp_*")[0] = the FIRST name of the directory listing, in listing order, that starts with
    var ++ "_tp_" - for every listing and every variable name free of glob metacharacters. *)
From Coq Require Import String Ascii List Bool Arith Lia.
From Cij Require Import Ops ExtractModel.
From CijGen Require Import CliTieBase Gen_cli.
Import ListNotations.
Local Open Scope string_scope.

(** ** the wildcard matcher on "literal prefix, then a star" *)
Lemma wild_star_any : forall s, wild [GStar] s = true.
Proof. induction s as [|c s IH]; [reflexivity|]. cbn in *. exact IH. Qed.

Lemma wild_lits_star : forall pre s,
  wild (map GLit (list_ascii_of_string pre) ++ [GStar]) s = prefixb pre s.
Proof.
  induction pre as [|c pre IH]; intros s.
  - cbn [list_ascii_of_string map app]. rewrite wild_star_any. destruct s; reflexivity.
  - cbn [list_ascii_of_string map app]. destruct s as [|d s]; [reflexivity|].
    cbn [wild prefixb]. rewrite IH. reflexivity.
Qed.

Lemma gtok_of_plain : forall c, plain_char c = true -> gtok_of c = GLit c.
Proof.
  intros c H. unfold plain_char in H. unfold gtok_of.
  destruct (Ascii.eqb c "*"); [discriminate|]. destruct (Ascii.eqb c "?"); [discriminate|].
  destruct (Ascii.eqb c "["); [discriminate|]. reflexivity.
Qed.
Lemma glob_parse_plain : forall v, plain v = true -> glob_parse v = map GLit (list_ascii_of_string v).
Proof.
  induction v as [|c v IH]; intros H; [reflexivity|]. cbn in H. apply andb_prop in H. destruct H as [H1 H2].
  cbn [glob_parse list_ascii_of_string map]. rewrite gtok_of_plain by exact H1. rewrite IH by exact H2. reflexivity.
Qed.
Lemma glob_parse_app : forall a b, glob_parse (a ++ b) = (glob_parse a ++ glob_parse b)%list.
Proof. induction a as [|c a IH]; intros b; [reflexivity|]. cbn. rewrite IH. reflexivity. Qed.
Lemma plain_app : forall a b, plain a = true -> plain b = true -> plain (a ++ b) = true.
Proof. induction a as [|c a IH]; intros b Ha Hb; [exact Hb|]. cbn in *. apply andb_prop in Ha. destruct Ha as [H1 H2].
  rewrite H1. cbn. apply IH; assumption. Qed.

(** a pattern "plain non-empty prefix, then *" accepts exactly the names with that prefix (the rule about
    leading dots never applies: the first pattern character is literal) *)
Lemma fnmatch_prefix_star : forall pre name,
  plain pre = true -> pre <> "" -> fnmatch (pre ++ "*") name = prefixb pre name.
Proof.
  intros pre name Hp Hne. unfold fnmatch. rewrite glob_parse_app, (glob_parse_plain pre Hp).
  change (glob_parse "*") with [GStar]. rewrite wild_lits_star.
  destruct pre as [|c pre]; [congruence|]. cbn [list_ascii_of_string map app].
  destruct name as [|d name]; [reflexivity|]. unfold hidden_ok.
  destruct (Ascii.eqb d ".") eqn:Ed; [|reflexivity].
  apply Ascii.eqb_eq in Ed. subst d. cbn [prefixb].
  destruct (Ascii.eqb c "."); reflexivity.
Qed.

Lemma hd_filter_find {A} (f : A -> bool) : forall l, nth_error (filter f l) 0 = find f l.
Proof. induction l as [|x l IH]; [reflexivity|]. cbn. destruct (f x); [reflexivity | exact IH]. Qed.

Lemma append_assoc_local : forall a b c : string, (a ++ (b ++ c)) = ((a ++ b) ++ c).
Proof. induction a as [|x a IH]; intros b c; [reflexivity|]. cbn. rewrite IH. reflexivity. Qed.

(** glob(f"{var}_tp_*")[0] *)
Lemma glob_tp_first : forall listing var, plain var = true ->
  py_index (py_glob listing (var ++ "_tp_*")) 0 = choose_file var listing.
Proof.
  intros listing var Hp. unfold py_index, py_glob, choose_file, glob_pattern.
  rewrite hd_filter_find. change "_tp_*" with ("_tp_" ++ "*"). rewrite append_assoc_local.
  assert (Hq : plain (var ++ "_tp_") = true) by (apply plain_app; [exact Hp | reflexivity]).
  assert (Hne : var ++ "_tp_" <> "") by (destruct var; discriminate).
  induction listing as [|n l IH]; [reflexivity|]. cbn [find].
  rewrite (fnmatch_prefix_star _ n Hq Hne). destruct (prefixb (var ++ "_tp_") n); [reflexivity | exact IH].
Qed.

(** what the model (and the C19 shards) take load_data to be: the chosen file, parsed *)
Definition spec_load_data {F} (listing : list string) (read_table : string -> option (@table F)) (var : string)
  : option (@table F) :=
  match choose_file var listing with Some f => read_table f | None => None end.

Ltac tie_load :=
  intros; unfold gx_load_data, gg_load_data, spec_load_data; cbv zeta;
  rewrite glob_tp_first by assumption;
  repeat match goal with |- context [match ?x with _ => _ end] => destruct x end; reflexivity.

Lemma tie_extract_load_data : forall (F : Type) listing (read_table : string -> option (@table F)) var,
  plain var = true -> gx_load_data listing read_table var = spec_load_data listing read_table var.
Proof. tie_load. Qed.

Lemma tie_geotherm_load_data : forall (F : Type) listing (read_table : string -> option (@table F)) var,
  plain var = true -> gg_load_data listing read_table var = spec_load_data listing read_table var.
Proof. tie_load. Qed.

(** non-vacuity: an ordinary variable name is plain, and the selection prefers listing order *)
Example plain_c11s : plain "c11s" = true. Proof. reflexivity. Qed.
Example listing_order : forall (F : Type) (rt : string -> option (@table F)),
  gx_load_data ["README"; "c12s_tp_zzz.txt"; "c12s_tp_gpa.txt"; "c1_tp_gpa.txt"] rt "c12s" = rt "c12s_tp_zzz.txt".
Proof. intros. rewrite tie_extract_load_data by reflexivity. reflexivity. Qed.

Theorem tie_group_load_data :
  (forall (F : Type) listing (read_table : string -> option (@table F)) var,
     plain var = true -> gx_load_data listing read_table var = spec_load_data listing read_table var) /\
  (forall (F : Type) listing (read_table : string -> option (@table F)) var,
     plain var = true -> gg_load_data listing read_table var = spec_load_data listing read_table var).
Proof. split; [exact tie_extract_load_data | exact tie_geotherm_load_data]. Qed.
Print Assumptions tie_group_load_data.
