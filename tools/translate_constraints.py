"""Fail-closed translator  cij/data/constraints/<system>  ->  Gen_constraints.v  (rows over Q)
plus the Q(sqrt 3) certificates that Prop_C08.v checks.

Splitting rule = the one in fill_cij: every line is split on "=", the first part minus each
later part is one homogeneous linear equation.  Accepted expression grammar (anything else
raises Untranslatable, which the check reports as a broken tie):

    expr   := term (('+'|'-') term)*
    term   := factor (('*'|'/') factor)*
    factor := '-' factor | '+' factor | '(' expr ')' | INT | SYMBOL
    SYMBOL := c<i><j>  with 1 <= i <= j <= 6

'*' needs a constant on one side, '/' a non-zero constant divisor; the equation must have
no constant term (homogeneous).  The rows are validated on every run against what sympy's
parse_expr / linear_eq_to_matrix (the calls fill_cij makes) produce - exact comparison.
"""
import itertools
import re
from fractions import Fraction

SYSTEMS = ["cubic", "hexagonal", "trigonal6", "trigonal7", "tetragonal6", "tetragonal7",
           "orthorhombic", "monoclinic", "triclinic"]
COQ_SYSTEM = {s: s.capitalize() for s in SYSTEMS}
KEYS21 = [(i, j) for i, j in itertools.product(range(1, 7), range(1, 7)) if i <= j]
SYMS = ["c%d%d" % k for k in KEYS21]
NSYM = 21


class Untranslatable(Exception):
    pass


# ---------------------------------------------------------------------------------------
# parser: linear forms  (coeffs[21], const)
# ---------------------------------------------------------------------------------------
TOKEN = re.compile(r"\s*(?:(c[1-6][1-6])(?![0-9A-Za-z_])|(\d+)(?![0-9A-Za-z_.])|([-+*/()]))")


def tokenize(s, where):
    pos, out = 0, []
    s = s.rstrip()
    while pos < len(s):
        m = TOKEN.match(s, pos)
        if not m:
            raise Untranslatable("%s: cannot read %r at column %d of %r" % (where, s[pos:pos + 8], pos, s))
        if m.group(1):
            name = m.group(1)
            if name not in SYMS:
                raise Untranslatable("%s: symbol %s is not one of the 21 symbols (i<=j)" % (where, name))
            out.append(("sym", SYMS.index(name)))
        elif m.group(2):
            out.append(("int", int(m.group(2))))
        else:
            out.append(("op", m.group(3)))
        pos = m.end()
    return out


class Lin:
    def __init__(self, co=None, k=Fraction(0)):
        self.co = co or [Fraction(0)] * NSYM
        self.k = Fraction(k)

    def is_const(self):
        return all(c == 0 for c in self.co)

    def __add__(self, o):
        return Lin([a + b for a, b in zip(self.co, o.co)], self.k + o.k)

    def __neg__(self):
        return Lin([-a for a in self.co], -self.k)

    def __sub__(self, o):
        return self + (-o)

    def scale(self, f):
        return Lin([a * f for a in self.co], self.k * f)


class Parser:
    def __init__(self, toks, where):
        self.t, self.i, self.where = toks, 0, where

    def peek(self):
        return self.t[self.i] if self.i < len(self.t) else None

    def eat(self):
        tok = self.peek()
        if tok is None:
            raise Untranslatable("%s: unexpected end of expression" % self.where)
        self.i += 1
        return tok

    def expr(self):
        v = self.term()
        while self.peek() in (("op", "+"), ("op", "-")):
            op = self.eat()[1]
            w = self.term()
            v = v + w if op == "+" else v - w
        return v

    def term(self):
        v = self.factor()
        while self.peek() in (("op", "*"), ("op", "/")):
            op = self.eat()[1]
            w = self.factor()
            if op == "*":
                if w.is_const():
                    v = v.scale(w.k)
                elif v.is_const():
                    v = w.scale(v.k)
                else:
                    raise Untranslatable("%s: product of two non-constant expressions" % self.where)
            else:
                if not w.is_const() or w.k == 0:
                    raise Untranslatable("%s: division by a non-constant or zero" % self.where)
                v = v.scale(1 / w.k)
        return v

    def factor(self):
        tok = self.eat()
        if tok == ("op", "-"):
            return -self.factor()
        if tok == ("op", "+"):
            return self.factor()
        if tok == ("op", "("):
            v = self.expr()
            if self.eat() != ("op", ")"):
                raise Untranslatable("%s: missing ')'" % self.where)
            return v
        if tok[0] == "int":
            return Lin(k=tok[1])
        if tok[0] == "sym":
            co = [Fraction(0)] * NSYM
            co[tok[1]] = Fraction(1)
            return Lin(co)
        raise Untranslatable("%s: unexpected token %r" % (self.where, tok))


def parse_part(s, where):
    if not s.strip():
        raise Untranslatable("%s: empty expression (parse_expr would raise)" % where)
    p = Parser(tokenize(s, where), where)
    v = p.expr()
    if p.peek() is not None:
        raise Untranslatable("%s: trailing token %r" % (where, p.peek()))
    return v


def parse_relations(text, name="<relations>"):
    """rows (list of 21 Fractions) in the order fill_cij appends its equations"""
    rows = []
    # `for line in fp` : universal newlines; a final line without '\n' is still a line
    lines = text.splitlines()
    for ln, line in enumerate(lines, 1):
        where = "%s line %d" % (name, ln)
        parts = [parse_part(p, where) for p in line.split("=")]
        for part in parts[1:]:
            eq = parts[0] - part
            if eq.k != 0:
                raise Untranslatable("%s: relation with a constant term (inhomogeneous)" % where)
            rows.append(eq.co)
    return rows


def sympy_rows(path):
    """the three sympy calls of fill_cij on the same file; returns (rows, rhs) as Fractions"""
    import sympy
    from sympy.parsing.sympy_parser import parse_expr
    symbols = [sympy.symbols(s) for s in SYMS]
    eqns = []
    with open(path) as fp:
        for line in fp:
            parts = [parse_expr(part) for part in line.split("=")]
            for part in parts[1:]:
                eqns.append(parts[0] - part)
    if not eqns:
        return [], []
    a, b = sympy.linear_eq_to_matrix(eqns, *symbols)
    rows = [[Fraction(int(sympy.Rational(a[i, j]).p), int(sympy.Rational(a[i, j]).q)) for j in range(NSYM)]
            for i in range(a.shape[0])]
    rhs = [Fraction(int(sympy.Rational(b[i, 0]).p), int(sympy.Rational(b[i, 0]).q)) for i in range(b.shape[0])]
    return rows, rhs


# ---------------------------------------------------------------------------------------
# exact arithmetic in Q(sqrt 3)
# ---------------------------------------------------------------------------------------
class S3:
    __slots__ = ("a", "b")

    def __init__(self, a=0, b=0):
        self.a, self.b = Fraction(a), Fraction(b)

    def __add__(self, o):
        return S3(self.a + o.a, self.b + o.b)

    def __sub__(self, o):
        return S3(self.a - o.a, self.b - o.b)

    def __neg__(self):
        return S3(-self.a, -self.b)

    def __mul__(self, o):
        return S3(self.a * o.a + 3 * self.b * o.b, self.a * o.b + self.b * o.a)

    def inv(self):
        d = self.a * self.a - 3 * self.b * self.b
        return S3(self.a / d, -self.b / d)

    def __bool__(self):
        return self.a != 0 or self.b != 0

    def __eq__(self, o):
        return self.a == o.a and self.b == o.b

    def __float__(self):
        return float(self.a) + float(self.b) * 3 ** 0.5

    def __repr__(self):
        return "(%s%+s*s3)" % (self.a, self.b)


Z0, ONE = S3(0), S3(1)
H3 = S3(0, Fraction(1, 2))


def G(rows):
    return [[x if isinstance(x, S3) else S3(x) for x in r] for r in rows]


HALF = Fraction(1, 2)
G_ID = G([[1, 0, 0], [0, 1, 0], [0, 0, 1]])
G_4Z = G([[0, -1, 0], [1, 0, 0], [0, 0, 1]])
G_3D = G([[0, 0, 1], [1, 0, 0], [0, 1, 0]])
G_6Z = G([[HALF, -H3, 0], [H3, HALF, 0], [0, 0, 1]])
G_3Z = G([[-HALF, -H3, 0], [H3, -HALF, 0], [0, 0, 1]])
G_2X = G([[1, 0, 0], [0, -1, 0], [0, 0, -1]])
G_2Y = G([[-1, 0, 0], [0, 1, 0], [0, 0, -1]])
G_2Z = G([[-1, 0, 0], [0, -1, 0], [0, 0, 1]])
GENS = {
    "cubic": [("4_z", G_4Z), ("3_[111]", G_3D)],
    "hexagonal": [("6_z", G_6Z), ("2_x", G_2X)],
    "trigonal6": [("3_z", G_3Z), ("2_x", G_2X)],
    "trigonal7": [("3_z", G_3Z)],
    "tetragonal6": [("4_z", G_4Z), ("2_x", G_2X)],
    "tetragonal7": [("4_z", G_4Z)],
    "orthorhombic": [("2_z", G_2Z), ("2_x", G_2X)],
    "monoclinic": [("2_y", G_2Y)],
    "triclinic": [("1", G_ID)],
}
STD = {1: (0, 0), 2: (1, 1), 3: (2, 2), 4: (1, 2), 5: (0, 2), 6: (0, 1)}
VOF = {(0, 0): 1, (1, 1): 2, (2, 2): 3, (1, 2): 4, (2, 1): 4, (0, 2): 5, (2, 0): 5, (0, 1): 6, (1, 0): 6}


def canon4(a, b, c, d):
    x, y = VOF[(a, b)], VOF[(c, d)]
    return (x, y) if x <= y else (y, x)


def rotate4(g, c, key):
    """c: dict key -> S3 ; returns the rotated component `key`"""
    (i, j), (p, q) = STD[key[0]], STD[key[1]]
    tot = S3(0)
    for a in range(3):
        if not g[i][a]:
            continue
        for b in range(3):
            if not g[j][b]:
                continue
            gab = g[i][a] * g[j][b]
            for x in range(3):
                if not g[p][x]:
                    continue
                gx = gab * g[p][x]
                for y in range(3):
                    if not g[q][y]:
                        continue
                    tot = tot + gx * g[q][y] * c[canon4(a, b, x, y)]
    return tot


def inv_rows(system):
    """rows of c |-> rotate(g,c)_k - c_k in the order (generator, k in KEYS21); same as SymModel.Inv"""
    rows = []
    for _, g in GENS[system]:
        cols = []
        for kp in KEYS21:
            basis = {k: (ONE if k == kp else Z0) for k in KEYS21}
            cols.append([rotate4(g, basis, k) - basis[k] for k in KEYS21])
        for ki in range(NSYM):
            rows.append([cols[kp][ki] for kp in range(NSYM)])
    return rows


def express(B, A):
    """M with B = M*A over Q(sqrt 3) (rows of B as combinations of rows of A); None entries for
    rows of B outside the row space of A.  Plain Gauss-Jordan on [A | I]."""
    n = len(A)
    ncol = NSYM
    W = [list(r) + [ONE if i == j else Z0 for j in range(n)] for i, r in enumerate(A)]
    piv = []   # (row index in W, column)
    r = 0
    for c in range(ncol):
        p = next((i for i in range(r, n) if W[i][c]), None)
        if p is None:
            continue
        W[r], W[p] = W[p], W[r]
        iv = W[r][c].inv()
        W[r] = [x * iv for x in W[r]]
        for i in range(n):
            if i != r and W[i][c]:
                f = W[i][c]
                W[i] = [x - f * y for x, y in zip(W[i], W[r])]
        piv.append((r, c))
        r += 1
    out = []
    for b in B:
        rem = list(b)
        comb = [Z0] * n
        for (ri, c) in piv:
            if rem[c]:
                f = rem[c]
                rem = [x - f * y for x, y in zip(rem, W[ri][:ncol])]
                comb = [x + f * y for x, y in zip(comb, W[ri][ncol:])]
        out.append(None if any(rem) else comb)
    return out


# ---------------------------------------------------------------------------------------
# Coq emission
# ---------------------------------------------------------------------------------------
def qcoq(fr):
    fr = Fraction(fr)
    if fr.denominator == 1:
        return "%d" % fr.numerator if fr.numerator >= 0 else "(%d)" % fr.numerator
    return "(%d # %d)" % (fr.numerator, fr.denominator) if fr.numerator >= 0 else \
        "((%d) # %d)" % (fr.numerator, fr.denominator)


def q3coq(x):
    return "(%s, %s)" % (qcoq(x.a), qcoq(x.b))


def coq_rows_q(rows):
    if not rows:
        return "[]"
    return "[" + ";\n   ".join("[" + "; ".join(qcoq(x) for x in r) + "]" for r in rows) + "]"


def coq_rows_q3(rows):
    if not rows:
        return "[]"
    return "[" + ";\n   ".join("[" + "; ".join(q3coq(x) for x in r) + "]" for r in rows) + "]"


def translate(repo, systems=SYSTEMS):
    """returns (coq_text, info) ; info[system] = dict(rows, not_invariant_rows, missing_inv_rows)"""
    out = ["(* GENERATED from cij/data/constraints/* by tools/translate_constraints.py - do not edit *)",
           "From Coq Require Import QArith List.", "From Cij Require Import Q3 SymModel.",
           "Import ListNotations.", "Local Open Scope Q_scope.", ""]
    info = {}
    for s in systems:
        path = repo / "cij" / "data" / "constraints" / s
        rows = parse_relations(path.read_text(), s)
        inv = inv_rows(s)
        rel3 = [[S3(x) for x in r] for r in rows]
        m1 = express(rel3, inv)
        m2 = express(inv, rel3)
        bad1 = [i for i, m in enumerate(m1) if m is None]
        bad2 = [i for i, m in enumerate(m2) if m is None]
        info[s] = dict(rows=rows, not_invariant_rows=bad1, missing_inv_rows=bad2)
        z1 = [Z0] * len(inv)
        z2 = [Z0] * len(rel3)
        out.append("Definition rel_%s : list (list Q) :=\n  %s." % (s, coq_rows_q(rows)))
        out.append("Definition cert1_%s : list (list Q3) :=\n  %s." % (
            s, coq_rows_q3([m if m is not None else z1 for m in m1])))
        out.append("Definition cert2_%s : list (list Q3) :=\n  %s." % (
            s, coq_rows_q3([m if m is not None else z2 for m in m2])))
        out.append("")
    out.append("Definition rel_of (s : system) : list (list Q) :=\n  match s with\n" + "\n".join(
        "  | %s => rel_%s" % (COQ_SYSTEM[s], s) for s in systems) + "\n  end.")
    out.append("Definition cert1_of (s : system) : list (list Q3) :=\n  match s with\n" + "\n".join(
        "  | %s => cert1_%s" % (COQ_SYSTEM[s], s) for s in systems) + "\n  end.")
    out.append("Definition cert2_of (s : system) : list (list Q3) :=\n  match s with\n" + "\n".join(
        "  | %s => cert2_%s" % (COQ_SYSTEM[s], s) for s in systems) + "\n  end.")
    return "\n".join(out) + "\n", info


if __name__ == "__main__":
    import sys
    from pathlib import Path
    txt, info = translate(Path(sys.argv[1] if len(sys.argv) > 1 else "/repo"))
    print(txt)
    for s, d in info.items():
        sys.stderr.write("%s: %d rows, not-invariant %s, missing %s\n" % (
            s, len(d["rows"]), d["not_invariant_rows"], d["missing_inv_rows"]))
