"""Shared helpers of the small static translator ties (T4: config merge C16, pressure range check C06,
task identity C04, static-fit data flow C05).

* ast helpers on top of translate_vrh (TranslateError naming file/line/construct, parse, src_of, ...)
* run_groups(): writes the regenerated Gen_*.v + the hand-written base/lemma templates into the per-run
  directory (logical path CijGen), compiles them and records one obligation per lemma group.  Never calls
  ctx.failure.
"""
import ast
import re
from pathlib import Path

import vlib
from vlib import write
from translate_vrh import TranslateError, parse, src_of, body_no_doc, module_binding_checks, coq_str, zlit  # noqa: F401


def bindings_of(tree, name):
    """every node that binds `name` anywhere below `tree`"""
    out = []
    for n in ast.walk(tree):
        names = []
        if isinstance(n, (ast.Import, ast.ImportFrom)):
            names = [(a.asname or a.name).split(".")[0] for a in n.names]
        elif isinstance(n, (ast.FunctionDef, ast.AsyncFunctionDef, ast.ClassDef)):
            names = [n.name]
        elif isinstance(n, ast.Name) and isinstance(n.ctx, (ast.Store, ast.Del)):
            names = [n.id]
        elif isinstance(n, ast.arg):
            names = [n.arg]
        elif isinstance(n, (ast.Global, ast.Nonlocal)):
            names = list(n.names)
        elif isinstance(n, ast.ExceptHandler) and n.name:
            names = [n.name]
        if name in names:
            out.append(n)
    return out


def module_function(mod, file, name):
    """the unique module-level `def name`, which is also the only binding of `name` in the module"""
    fs = [n for n in mod.body if isinstance(n, ast.FunctionDef) and n.name == name]
    if len(fs) != 1:
        raise TranslateError(file, fs[1] if len(fs) > 1 else None, "function `%s` is defined %d times at module level" % (name, len(fs)))
    b = [n for n in bindings_of(mod, name) if n is not fs[0]]
    if b:
        raise TranslateError(file, b[0], "name `%s` is bound a second time (`%s`)" % (name, src_of(b[0])[:80]))
    if fs[0].decorator_list:
        raise TranslateError(file, fs[0], "function `%s` is decorated" % name)
    return fs[0]


def module_class(mod, file, name):
    cs = [n for n in mod.body if isinstance(n, ast.ClassDef) and n.name == name]
    if len(cs) != 1:
        raise TranslateError(file, cs[1] if len(cs) > 1 else None, "class `%s` is defined %d times at module level" % (name, len(cs)))
    b = [n for n in bindings_of(mod, name) if n is not cs[0]]
    if b:
        raise TranslateError(file, b[0], "name `%s` is bound a second time (`%s`)" % (name, src_of(b[0])[:80]))
    if cs[0].decorator_list or cs[0].keywords:
        raise TranslateError(file, cs[0], "class `%s` has decorators / keywords" % name)
    return cs[0]


def class_method(cls, file, name, decorators=()):
    """the unique binding of `name` in the class body: a def with exactly these decorators"""
    ms = [n for n in cls.body if isinstance(n, (ast.FunctionDef, ast.AsyncFunctionDef)) and n.name == name]
    others = [n for n in cls.body if not isinstance(n, ast.FunctionDef) and any(
        isinstance(x, ast.Name) and x.id == name and isinstance(x.ctx, ast.Store) for x in ast.walk(n))]
    if len(ms) != 1 or others or not isinstance(ms[0], ast.FunctionDef):
        raise TranslateError(file, (ms[1] if len(ms) > 1 else (others[0] if others else cls)),
                             "%s.%s is not defined exactly once as a plain method" % (cls.name, name))
    if [src_of(d) for d in ms[0].decorator_list] != list(decorators):
        raise TranslateError(file, ms[0], "%s.%s: decorators %s (expected %s)" % (
            cls.name, name, [src_of(d) for d in ms[0].decorator_list], list(decorators)))
    return ms[0]


def arg_names(fn, file, expected, defaults_ok=False):
    """positional parameter names must be exactly `expected`; returns {name: default node}"""
    a = fn.args
    if a.vararg or a.kwarg or a.kwonlyargs or a.posonlyargs:
        raise TranslateError(file, fn, "%s: *args / **kwargs / keyword-only / positional-only parameters" % fn.name)
    names = [x.arg for x in a.args]
    if names != list(expected):
        raise TranslateError(file, fn, "%s: parameters %s (expected %s)" % (fn.name, names, list(expected)))
    if a.defaults and not defaults_ok:
        raise TranslateError(file, fn, "%s: default parameter values" % fn.name)
    return dict(zip(names[len(names) - len(a.defaults):], a.defaults))


def no_reflection(tree, file, extra=()):
    bad = ("setattr", "delattr", "vars", "globals", "locals", "exec", "eval", "__import__") + tuple(extra)
    for n in ast.walk(tree):
        if isinstance(n, ast.Name) and n.id in bad:
            raise TranslateError(file, n, "use of `%s`" % n.id)
        if isinstance(n, ast.Attribute) and n.attr in ("__dict__", "__class__", "__getattribute__", "__setattr__"):
            raise TranslateError(file, n, "use of `.%s`" % n.attr)
        if isinstance(n, (ast.Lambda, ast.Yield, ast.YieldFrom, ast.Await, ast.NamedExpr)):
            raise TranslateError(file, n, "%s inside translated code" % type(n).__name__)


def is_full_slice(s):
    return isinstance(s, ast.Slice) and s.lower is None and s.upper is None and s.step is None


def int_const(e):
    """int literal, possibly negated -> int, else None"""
    if isinstance(e, ast.Constant) and type(e.value) is int:
        return e.value
    if isinstance(e, ast.UnaryOp) and isinstance(e.op, ast.USub) and isinstance(e.operand, ast.Constant) \
            and type(e.operand.value) is int:
        return -e.operand.value
    return None


def lemma_at(path: Path, out: str) -> str:
    """name of the lemma in which coqc reported its (first) error"""
    m = re.search(r'File "[^"]*", line (\d+)', out)
    if not m:
        return ""
    lines = path.read_text().splitlines()[:int(m.group(1))]
    for ln in reversed(lines):
        mm = re.match(r"\s*(Lemma|Theorem|Corollary|Example|Definition|Fixpoint)\s+([\w']+)", ln)
        if mm:
            return mm.group(2)
    return ""


def run_groups(ctx, rd: Path, tag, source_desc, gen_name, gen_text, templates: Path, base_files, groups, why, key,
               side_files=()):
    """
    tag          short name used in obligation names ("config", "prange", ...)
    gen_name     file name of the regenerated definitions (Gen_xxx.v); gen_text its content
    base_files   hand-written files compiled BEFORE the generated file (vocabulary), names relative to `templates`
    side_files   hand-written lemma libraries that need the base files only (compiled in parallel with the generated file)
    groups       [(gid, lemma file name, what)]
    why          {gid: reason}: groups whose source could not be translated (recorded as broken, not compiled)
    key          ctx.extra key prefix
    returns the list of failed group ids
    """
    XQ = [(rd, "CijGen")]
    failed = []
    ok_pre, out_pre = True, ""
    for b in base_files:
        write(rd / b, (templates / b).read_text())
        ok, out = vlib.coqc(rd / b, extra_Q=XQ, timeout=300)
        if not ok:
            ok_pre, out_pre = False, out
            break
    write(rd / gen_name, gen_text)
    if ok_pre:
        # hand-written lemma libraries that do not depend on the generated file are compiled next to it
        side = [write(rd / b, (templates / b).read_text()) for b in side_files]
        r = vlib.coqc_many([rd / gen_name] + side, extra_Q=XQ, timeout=300)
        for p_, (ok, out) in r.items():
            if not ok:
                ok_pre, out_pre = False, out
    ctx.obligation("static tie [%s]: %s regenerated from %s compiles" % (tag, gen_name, source_desc),
                   "translator", ok_pre, "" if ok_pre else out_pre)
    todo = []
    for gid, fname, what in groups:
        if gid in why or not ok_pre:
            continue
        todo.append(write(rd / fname, (templates / fname).read_text()))
    res = vlib.coqc_many(todo, extra_Q=XQ, timeout=300) if todo else {}
    for gid, fname, what in groups:
        name = "static tie [%s/%s]: %s" % (tag, gid, what)
        if gid in why:
            ctx.obligation(name, "translator-tie", False, "TranslateError: " + why[gid])
            failed.append(gid)
            continue
        if not ok_pre:
            ctx.obligation(name, "translator-tie", False, "%s / base files do not compile" % gen_name)
            failed.append(gid)
            continue
        ok, out = res[rd / fname]
        detail = ""
        if not ok:
            lem = lemma_at(rd / fname, out)
            detail = ("lemma %s of %s does not hold for the regenerated definitions\n" % (lem, fname) if lem else "") + out
            failed.append(gid)
        ctx.obligation(name, "translator-tie", ok, detail)
        for closed, names in vlib.parse_assumptions(out):
            for n in names:
                ctx.axioms[n] = ctx.axioms.get(n, 0) + 1
    if failed:
        det = ctx.extra.setdefault("static_tie_details", {})
        for o in ctx.obligations:
            m = re.match(r"static tie \[%s/([\w-]+)\]" % re.escape(tag), o["name"])
            if m and not o["ok"]:
                det["%s/%s" % (tag, m.group(1))] = o["detail"][:600]
    ctx.extra["static_tie_failed_groups"] = sorted(set(ctx.extra.get("static_tie_failed_groups", [])) |
                                                   {"%s/%s" % (tag, g) for g in failed})
    return failed
