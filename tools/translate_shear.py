"""Fail-closed translator  cij/core/phonon_contribution/shear.py  ->  Gen_shear.v   (Gallina over `Ops F`)

READING (vocabulary: tools/tie_shear/ShearTieBase.v, copied next to the generated file)
  3x3 ndarray                      nat -> nat -> F            negative indices (numpy wrap-around) are NOT modelled:
                                                              [zidx] sends them outside the 3x3 block
  self.strain (ntv, 3)             one row  nat -> F          leading axes are pointwise (zeros((*shape, 3)), the
                                                              `...` of einsum / @ / numpy.diagonal)
  C_ object                        its Voigt pair (vkey); rebuilt from the REGENERATED voigt model Gen_voigt.v where
                                   its fields are read:  c_(a,b,c,d) = gen_c4 a b c d,  self.key = gen_C (g_key self),
                                   .i/.j = fst/snd, [0]/[1] = fst/snd, .standard = mod_standard, .multiplicity
  key == target                    vkey_eqb (faithful on all C_ objects the loop can build: Tie_shear_keyobj.v)
  numpy.isclose(x, 0)              isz x       (a parameter, as in theories/ShearModel.v)
  numpy.linalg.eigh(self.fictitious_strain)   the ORACLE value g_eigh self : (eigenvalues, eigenvectors);
                                   only WHICH component is used where is translated
  self.modulus / .modulus_rotated  vkey -> F  (dictionary read = application; a missing key raises in Python)
  self.value_isothermal            g_iso_cache self: the memoised value of a @LazyProperty whose producer reads
                                   mutable attributes (self.modulus / self.modulus_rotated are re-bound by the task
                                   list); every other member is re-evaluated (pure function of key / strain / oracle)
  the loop                         for (i,j),(k,l) in itertools.product(nz, nz), nz = argwhere(not isclose(e, 0))
                                   = left fold over the 81 index 4-tuples [idx81] (argwhere order x product order),
                                   guarded by the two non-zero tests; `+=` on the local accumulator = acc + term

ACCEPTED GRAMMAR (everything else -> TranslateError naming file, line and construct)
  module     imports (numpy, itertools, typing, logging.getLogger, lazy_property.LazyProperty, cij.util C_/c_),
             `logger = getLogger(__name__)`, the two functions, the class; every name the reading relies on bound once
  helpers    a further UNDECORATED module-level function, bound once, is only looked at where a loop function consumes it:
             it must be a generator  def h(strain, target[=None]):  NZ = argwhere(..strain..);  for (i, j), (k, l) in
             itertools.product(NZ, NZ): <loop body statements>; yield <tuple of numbers / keys>   (one yield, last statement;
             no return / break / try / with / nested def / lambda) consumed as  `for <names> in h(<strain param>, <target
             param | None>)`  or  `return [KEY for <names> in h(..)]` (no conditions).  It is INLINED: its statements (Coq
             names h_*), the consumer's names bound to the yielded values (`_` binds nothing), the consumer's body.  Sound
             because a generator runs its body up to each yield in loop order and the consumer's body once per yield, and
             neither body can store into anything but fresh locals / the accumulator
             an index-list helper  def h(strain): return numpy.argwhere(numpy.logical_not(numpy.isclose(strain, 0)))
             (that single return, nothing else) may stand for the NZ expression:  NZ = h(<strain param>)
  loop fns   ACC = <number> | ACC = []          NZ = numpy.argwhere(numpy.logical_not(numpy.isclose(<param 1>, 0)))
             for (i, j), (k, l) in itertools.product(NZ, NZ):  <loop body>          return ACC
             loop body:  KEY = c_(<4 ints of the loop indices>)  (exactly once; emitted as gen_energy_key / gen_keys_key)
             |   NAME = expr (fresh numeric local)   |   if TARGET and KEY == TARGET: continue   (at most once, before
             any resolver call; also `TARGET is not None and ...`, operands of == in either order)
             last statement:  ACC += expr | ACC -= expr | ACC = <expr in ACC>   resp.   ACC.append(KEY)
             NO other AugAssign, no call but c_(..4 ints..) and <resolver param>(KEY), no attribute, no numpy.*
  class      no bases/decorators; docstring and defs only; __init__ template-checked (`{}` read as `dict()`); known members with the
             decorators of MEMBERS (value_isothermal MUST be @LazyProperty, the two strain energies MUST be @property)
  member     docstring | logger.debug(<pure text: + % f-strings str repr of constants, self.key/.strain/.fictitious_strain,
             the oracle, bound locals>) | NAME = expr (single assignment, not a bare name) |
             a, b, c, d = self.key.standard | w, v = numpy.linalg.eigh(self.fictitious_strain) (component 0 / 1 of the
             same oracle pair, `_` binds nothing) | LOCAL[int, int] = <number> on a fresh numpy.zeros((3, 3)) local |
             numpy.einsum('...ii -> ...i', LOCAL)[...] = self.strain on a fresh numpy.zeros((*self.strain.shape, 3))
             local | return expr (last)
  expr       numbers (exact decimals), + - * / unary -, @ and .T on matrices, M[int, int], tuple[int],
             numpy.zeros / numpy.diag(vector) / numpy.linalg.eigh(self.fictitious_strain)[0|1] /
             numpy.diagonal(M, axis1=-2, axis2=-1), self.key(.i|.j)([0|1]) / .standard / .multiplicity, self.strain,
             self.modulus[K], self.modulus_rotated[K], self.<property member>, self.<method member>(...),
             the two loop functions (positional or keyword arguments), lambda K: expr, self.get_elastic_modulus[_rotated]
"""
import ast
from fractions import Fraction

SRC = "cij/core/phonon_contribution/shear.py"
SRC_UTIL = "cij/util/__init__.py"
SRC_VOIGT = "cij/util/voigt.py"
CLS = "ShearElasticModulusPhononContribution"
FN_ENERGY = "calculate_fictitious_strain_energy"
FN_KEYS = "get_fictitious_strain_energy_keys"


class TranslateError(Exception):
    pass


def bail(node, why, fname=SRC):
    line = getattr(node, "lineno", "?")
    if isinstance(node, (ast.FunctionDef, ast.ClassDef)):
        txt = node.name
    else:
        try:
            txt = ast.unparse(node)
        except Exception:
            txt = ""
    txt = " ".join(txt.split())
    if len(txt) > 140:
        txt = txt[:137] + "..."
    raise TranslateError("%s:%s: %s: %s `%s`" % (fname, line, why, type(node).__name__, txt))


def parse(src):
    import warnings
    with warnings.catch_warnings():
        warnings.simplefilter("ignore")
        return ast.parse(src)


def is_doc(s):
    return isinstance(s, ast.Expr) and isinstance(s.value, ast.Constant) and isinstance(s.value.value, str)


def src_of(n):
    return ast.unparse(n)


def coq_name(node, name, prefix="v_"):
    if not (name.isascii() and name.isidentifier()):
        bail(node, "unsupported identifier")
    return prefix + name


# ------------------------------------------------------------------------------------------------
# typed values
# ------------------------------------------------------------------------------------------------
# ty: 'C' exact constant (Fraction in .c) | 'F' scalar | 'Z' integer | 'N' nat loop index | 'M' 3x3 matrix |
#     'Vec' | 'Key' vkey | 'KeyObj' (.t = vkey term, .mk = modkey term) | 'Strain' (Z*Z) | 'Tup' (.items, .joint) |
#     'Eigh' | 'Fun' vkey -> F | 'Opt' option vkey | 'Keys' list vkey | 'Dict' vkey -> F | 'None'

class V:
    def __init__(self, ty, t=None, **kw):
        self.ty, self.t = ty, t
        self.fresh = kw.pop("fresh", None)      # for 'M': "3x3" / "batch" when a fresh numpy.zeros local
        self.__dict__.update(kw)


COQ_TYPE = {"F": "F", "M": "nat -> nat -> F", "Vec": "nat -> F", "Keys": "list vkey"}


def zlit(n):
    return "(%d)" % n if n < 0 else "%d" % n


def const_F(c):
    if c.denominator == 1:
        return "(ofZ %s)" % zlit(c.numerator)
    return "(ofZ %s / ofZ %s)" % (zlit(c.numerator), zlit(c.denominator))


def to_F(node, v):
    if v.ty == "F":
        return v.t
    if v.ty == "C":
        return const_F(v.c)
    if v.ty == "Z":
        return "(ofZ %s)" % v.t
    bail(node, "a number is needed here, found a value of kind %s" % v.ty)


def to_Z(node, v):
    if v.ty == "Z":
        return v.t
    if v.ty == "C" and v.c.denominator == 1:
        return "%s%%Z" % zlit(v.c.numerator)
    if v.ty == "N":
        return "(Z.of_nat %s)" % v.t
    bail(node, "an integer is needed here, found a value of kind %s" % v.ty)


def to_idx(node, v):
    """array index -> nat term"""
    if v.ty == "N":
        return v.t
    if v.ty == "C" and v.c.denominator == 1 and v.c >= 0:
        return "%d%%nat" % v.c.numerator
    if v.ty in ("Z", "C"):
        return "(zidx %s)" % to_Z(node, v)
    bail(node, "an integer index is needed here, found a value of kind %s" % v.ty)


def to_key(node, v):
    if v.ty in ("Key", "KeyObj"):
        return v.t
    bail(node, "a C_ key is needed here, found a value of kind %s" % v.ty)


# ------------------------------------------------------------------------------------------------
# expressions shared by the loop functions and the members
# ------------------------------------------------------------------------------------------------

class Exprs:
    """common arithmetic; subclasses provide name(), attribute(), call(), subscript_special()"""

    def expr(self, e, env):
        if isinstance(e, ast.Constant):
            v = e.value
            if type(v) is int:
                return V("C", c=Fraction(v))
            if type(v) is float and v == v and abs(v) != float("inf"):
                from decimal import Decimal
                return V("C", c=Fraction(Decimal(repr(v))))
            if v is None:
                return V("None")
            bail(e, "unsupported constant")
        if isinstance(e, ast.Name):
            return self.name(e, env)
        if isinstance(e, ast.UnaryOp):
            if isinstance(e.op, (ast.USub, ast.UAdd)):
                a = self.expr(e.operand, env)
                neg = isinstance(e.op, ast.USub)
                if a.ty == "C":
                    return V("C", c=-a.c if neg else a.c)
                if a.ty in ("Z", "N"):
                    return V("Z", "(- %s)%%Z" % to_Z(e, a)) if neg else V("Z", to_Z(e, a))
                return V("F", "(- %s)" % to_F(e, a)) if neg else V("F", to_F(e, a))
            bail(e, "unsupported unary operator")
        if isinstance(e, ast.BinOp):
            return self.binop(e, env)
        if isinstance(e, ast.Subscript):
            return self.subscript(e, env)
        if isinstance(e, ast.Attribute):
            return self.attribute(e, env)
        if isinstance(e, ast.Call):
            return self.call(e, env)
        if isinstance(e, ast.Tuple):
            if any(isinstance(x, ast.Starred) for x in e.elts):
                bail(e, "starred tuple")
            return V("Tup", items=[self.expr(x, env) for x in e.elts], joint=None)
        if isinstance(e, ast.Lambda):
            return self.lam(e, env)
        bail(e, "construct outside the translator's grammar")

    def binop(self, e, env):
        if isinstance(e.op, ast.MatMult):
            a, b = self.expr(e.left, env), self.expr(e.right, env)
            if a.ty == "M" and b.ty == "M":
                return V("M", "(mmul %s %s)" % (a.t, b.t))
            bail(e, "@ only between 3x3 matrices")
        ops = {ast.Add: "+", ast.Sub: "-", ast.Mult: "*", ast.Div: "/"}
        if type(e.op) not in ops:
            bail(e, "unsupported binary operator %s" % type(e.op).__name__)
        op = ops[type(e.op)]
        a, b = self.expr(e.left, env), self.expr(e.right, env)
        for x, n in ((a, e.left), (b, e.right)):
            if x.ty not in ("C", "F", "Z", "N"):
                bail(n, "arithmetic on a value of kind %s" % x.ty)
        if a.ty == "C" and b.ty == "C":
            if op == "/":
                if b.c == 0:
                    bail(e, "division by the constant zero")
                return V("C", c=a.c / b.c)
            return V("C", c={"+": a.c + b.c, "-": a.c - b.c, "*": a.c * b.c}[op])
        if op != "/" and a.ty in ("C", "Z", "N") and b.ty in ("C", "Z", "N") and \
                all(x.ty != "C" or x.c.denominator == 1 for x in (a, b)):
            return V("Z", "(%s %s %s)%%Z" % (to_Z(e.left, a), op, to_Z(e.right, b)))
        if "N" in (a.ty, b.ty):
            bail(e, "an array index is used as a number")
        return V("F", "(%s %s %s)" % (to_F(e.left, a), op, to_F(e.right, b)))

    def subscript(self, e, env):
        v = self.expr(e.value, env)
        sl = e.slice
        if v.ty == "M":
            if not (isinstance(sl, ast.Tuple) and len(sl.elts) == 2):
                bail(e, "a 3x3 array can only be read as A[int, int]")
            i, j = (to_idx(x, self.expr(x, env)) for x in sl.elts)
            return V("F", "(%s %s %s)" % (v.t, i, j))
        if isinstance(sl, ast.Constant) and type(sl.value) is int:
            n = sl.value
            if v.ty == "Tup" and 0 <= n < len(v.items) and v.joint is None:
                return v.items[n]
            if v.ty == "Eigh" and n in (0, 1):
                return V("Vec", "(fst %s)" % v.t) if n == 0 else V("M", "(snd %s)" % v.t)
            if v.ty == "Strain" and n in (0, 1):
                return V("Z", "(%s %s)" % ("fst" if n == 0 else "snd", v.t))
        if v.ty == "Dict":
            return V("F", "(%s %s)" % (v.t, to_key(sl, self.expr(sl, env))))
        bail(e, "unsupported subscript of a value of kind %s" % v.ty)

    def name(self, e, env):
        if e.id in env:
            return env[e.id]
        bail(e, "unknown name")

    def attribute(self, e, env):
        bail(e, "attribute outside the translator's grammar")

    def call(self, e, env):
        bail(e, "call outside the translator's grammar")

    def lam(self, e, env):
        bail(e, "lambda outside the translator's grammar")


def plain_args(fn, ndefaults_ok):
    a = fn.args
    if a.vararg or a.kwarg or a.kwonlyargs or a.posonlyargs or a.kw_defaults:
        bail(fn, "unsupported parameter list of %s" % fn.name)
    if len(a.defaults) not in ndefaults_ok:
        bail(fn, "unsupported default values in the parameter list of %s" % fn.name)
    return [x.arg for x in a.args], a.defaults


# ------------------------------------------------------------------------------------------------
# the two loop functions
# ------------------------------------------------------------------------------------------------

class LoopFn(Exprs):
    """one of the two module-level loop functions.  The loop may be written out in the function itself or live in a
    private module-level GENERATOR (argwhere / product / key / target test, ending in `yield <tuple>`) that the function
    consumes by `for <names> in helper(<its strain>, <its target>)` or by a list comprehension over it: the generator is
    then inlined (its locals get the Coq prefix h_, so nothing can be captured).  A generator runs its body up to each
    `yield` in loop order and the consumer's body once per yielded tuple, so the inlined statement sequence is the
    sequence Python executes; neither body may store into anything but fresh locals / the accumulator."""

    def __init__(self, fn, mode, helpers=None):
        self.fn, self.mode = fn, mode          # mode: "energy" | "keys"
        self.helpers = helpers or {}
        self.resolver_called = False
        self.guard_seen = False
        self.keydef = None
        self.keyname = "gen_energy_key" if mode == "energy" else "gen_keys_key"
        self.idx = []
        self.inlined = None

    # -- expressions in the loop body
    def name(self, e, env):
        if e.id in env:
            v = env[e.id]
            if v.ty in ("Res", "Opt", "Acc?"):
                bail(e, "the %s may not be used here" % {"Res": "resolver", "Opt": "target"}.get(v.ty, "accumulator"))
            return v
        bail(e, "unknown name")

    def call(self, e, env):
        if src_of(e.func).startswith("numpy."):
            bail(e, "numpy call on a resolved modulus / in the loop body (it may alias the caller's array: a "
                    "following in-place operation would scale the stored modulus)")
        if e.keywords or any(isinstance(a, ast.Starred) for a in e.args):
            bail(e, "keyword / starred arguments in a call")
        if isinstance(e.func, ast.Name) and e.func.id == "c_":
            if len(e.args) != 4:
                bail(e, "c_ only with four standard indices")
            zs = [to_Z(a, self.expr(a, env)) for a in e.args]
            return V("Key", "(gen_c4 %s)" % " ".join(zs))
        if isinstance(e.func, ast.Name) and e.func.id in env and env[e.func.id].ty == "Res":
            if len(e.args) != 1:
                bail(e, "the resolver takes one key")
            k = to_key(e.args[0], self.expr(e.args[0], env))
            self.resolver_called = True
            return V("F", "(%s %s)" % (env[e.func.id].t, k))
        bail(e, "call outside the translator's grammar")

    # -- pieces
    @staticmethod
    def nz_text(fs):
        return "numpy.argwhere(numpy.logical_not(numpy.isclose(%s, 0)))" % fs

    def is_nz(self, value, fs):
        """is `value` the index list of the strain `fs`: the argwhere/isclose expression itself, or a call h(fs) of a
        private undecorated module-level function whose whole body is `return <that expression of its own parameter>`
        (calling it evaluates exactly that expression on the same array: nothing else can happen in its body)"""
        if src_of(value) == self.nz_text(fs):
            return True
        if isinstance(value, ast.Call) and isinstance(value.func, ast.Name) and value.func.id in self.helpers and \
                not value.keywords and len(value.args) == 1 and isinstance(value.args[0], ast.Name) and value.args[0].id == fs:
            h = self.helpers[value.func.id]
            a = h.args
            if h.decorator_list or a.vararg or a.kwarg or a.kwonlyargs or a.posonlyargs or a.defaults or a.kw_defaults or \
                    len(a.args) != 1:
                bail(h, "an index-list helper must be an undecorated function of the strain only")
            body = [x for x in h.body if not is_doc(x)]
            if len(body) != 1 or not isinstance(body[0], ast.Return) or body[0].value is None or \
                    src_of(body[0].value) != self.nz_text(a.args[0].arg):
                bail(h, "an index-list helper must be exactly `return %s`" % self.nz_text(a.args[0].arg))
            return True
        return False

    def product_header(self, loop, nz, taken, prefix):
        """`for (i, j), (k, l) in itertools.product(NZ, NZ):` -> (python index names, Coq names)"""
        if loop.orelse or getattr(loop, "type_comment", None):
            bail(loop, "for ... else")
        if src_of(loop.iter) != "itertools.product(%s, %s)" % (nz, nz):
            bail(loop.iter, "the loop must run over itertools.product(%s, %s)" % (nz, nz))
        tg = loop.target
        ok = isinstance(tg, ast.Tuple) and len(tg.elts) == 2 and all(
            isinstance(p, ast.Tuple) and len(p.elts) == 2 and all(isinstance(x, ast.Name) for x in p.elts) for p in tg.elts)
        if not ok:
            bail(tg, "the loop target must be `(i, j), (k, l)`")
        idx = [x.id for p in tg.elts for x in p.elts]
        if len(set(idx)) != 4 or set(idx) & (set(taken) | RESERVED):
            bail(tg, "loop index names must be four fresh distinct names")
        return idx, [coq_name(tg, n, prefix) for n in idx]

    def inline(self, call, fs, tgt, cn):
        """the private generator consumed by the loop function -> (Coq index names, lines, yielded values)"""
        h = self.helpers[call.func.id]
        if h.decorator_list:
            bail(h, "decorated helper")
        hn, hd = plain_args(h, (0, 1))
        if len(hn) != 2 or len(set(hn)) != 2 or (hd and not (isinstance(hd[0], ast.Constant) and hd[0].value is None)):
            bail(h, "a loop helper must take (strain, target[=None])")
        if any(isinstance(a, ast.Starred) for a in call.args) or len(call.args) > 2:
            bail(call, "unsupported arguments of the loop helper")
        args = dict(zip(hn, call.args))
        for k in call.keywords:
            if k.arg not in hn or k.arg in args:
                bail(call, "unknown / repeated keyword argument of the loop helper")
            args[k.arg] = k.value
        a = args.get(hn[0])
        if not (isinstance(a, ast.Name) and a.id == fs):
            bail(call, "the loop helper must be applied to the strain parameter `%s` itself" % fs)
        b = args.get(hn[1])
        if b is None:
            if not hd:
                bail(call, "missing target argument of the loop helper")
            tterm = "None"
        elif isinstance(b, ast.Constant) and b.value is None:
            tterm = "None"
        elif isinstance(b, ast.Name) and b.id == tgt:
            tterm = cn[tgt]
        else:
            bail(call, "the loop helper must be given the target parameter `%s` itself (or None)" % tgt)
        for x in ast.walk(h):
            if isinstance(x, (ast.YieldFrom, ast.Return, ast.Lambda, ast.AsyncFor, ast.AsyncWith, ast.Await, ast.Global,
                              ast.Nonlocal, ast.Try, ast.With, ast.While, ast.Break, ast.ClassDef)) or \
                    (isinstance(x, ast.FunctionDef) and x is not h):
                bail(x, "construct not accepted in a loop helper")
        if sum(isinstance(x, ast.Yield) for x in ast.walk(h)) != 1:
            bail(h, "a loop helper must contain exactly one `yield`")
        st = [s for s in h.body if not is_doc(s)]
        if len(st) != 2 or not (isinstance(st[0], ast.Assign) and len(st[0].targets) == 1 and
                                isinstance(st[0].targets[0], ast.Name) and self.is_nz(st[0].value, hn[0])) \
                or not isinstance(st[1], ast.For):
            bail(h, "a loop helper must be exactly: NZ = %s; for (i, j), (k, l) in itertools.product(NZ, NZ): ... yield ..."
                 % self.nz_text(hn[0]))
        nz = st[0].targets[0].id
        if nz in hn or nz in RESERVED:
            bail(st[0], "index list shadows a parameter / reserved name")
        idx, ci = self.product_header(st[1], nz, hn + [nz], "h_")
        self.idx = idx
        env = {hn[0]: V("M", cn[fs]), hn[1]: V("Opt", tterm), nz: V("Acc?", None)}
        for n, c in zip(idx, ci):
            env[n] = V("N", c)
        lines, vals = self.block(st[1].body, env, dict(acc=None, final="yield", tgt=hn[1], prefix="h_", fn=h))
        self.inlined = h.name
        return ci, lines, vals

    def bind_targets(self, tg, vals, env, taken):
        """consumer side of the generator: `for a, b, c in helper(..)`; `_` may repeat and binds nothing"""
        names = [tg] if isinstance(tg, ast.Name) else list(tg.elts) if isinstance(tg, ast.Tuple) else None
        if names is None or not all(isinstance(x, ast.Name) for x in names) or len(names) != len(vals) or \
                (isinstance(tg, ast.Name) and len(vals) != 1):
            bail(tg, "the loop target must be as many plain names as the helper yields (%d)" % len(vals))
        lines = []
        seen = set()
        for x, v in zip(names, vals):
            if x.id == "_":
                continue
            if x.id in seen or x.id in env or x.id in taken or x.id in RESERVED:
                bail(x, "loop target name is bound / repeated / reserved")
            seen.add(x.id)
            c = coq_name(x, x.id)
            lines.append("        let %s := %s in" % (c, v.t))
            env[x.id] = V(v.ty, c)
        return lines

    # -- the function
    def translate(self):
        fn = self.fn
        energy = self.mode == "energy"
        names, defaults = plain_args(fn, (1,))
        if len(names) != (3 if energy else 2):
            bail(fn, "%s must take (%s)" % (fn.name, "strain, resolver, target=None" if energy else "strain, target=None"))
        if not (isinstance(defaults[0], ast.Constant) and defaults[0].value is None):
            bail(fn, "the default of the target parameter must be None")
        if fn.decorator_list:
            bail(fn, "decorated function")
        if len(set(names)) != len(names):
            bail(fn, "repeated parameter name")
        fs, tgt = names[0], names[-1]
        res = names[1] if energy else None
        cn = {n: coq_name(fn, n) for n in names}
        stmts = [s for s in fn.body if not is_doc(s)]
        base_env = {fs: V("M", cn[fs]), tgt: V("Opt", cn[tgt])}
        if energy:
            base_env[res] = V("Res", cn[res])

        # ---- form 0 (keys only): return [ELT for <names> in helper(strain, target)]
        if not energy and len(stmts) == 1 and isinstance(stmts[0], ast.Return) and isinstance(stmts[0].value, ast.ListComp):
            lc = stmts[0].value
            g = lc.generators[0] if len(lc.generators) == 1 else None
            if g is None or g.ifs or g.is_async or not (isinstance(g.iter, ast.Call) and isinstance(g.iter.func, ast.Name)
                                                        and g.iter.func.id in self.helpers):
                bail(lc, "only `[KEY for <names> in <loop helper>(strain, target)]` (no conditions) is accepted")
            ci, hlines, vals = self.inline(g.iter, fs, tgt, cn)
            env = dict(base_env)
            cacc = "r_keys"
            lines = hlines + self.bind_targets(g.target, vals, env, names)
            k = to_key(lc.elt, self.expr(lc.elt, env))
            lines.append("        (%s ++ [%s])" % (cacc, k))
            return self.emit(cn, fs, res, tgt, cacc, "[]", ci, "\n".join(lines))

        # ---- initialisations, one loop, return ACC
        acc = nz = None
        init = None
        i = 0
        while i < len(stmts) and not isinstance(stmts[i], ast.For):
            s = stmts[i]
            if not (isinstance(s, ast.Assign) and len(s.targets) == 1 and isinstance(s.targets[0], ast.Name)):
                bail(s, "unsupported statement before the loop")
            nm = s.targets[0].id
            if nm in names or nm in (acc, nz) or nm in RESERVED:
                bail(s, "assignment to a parameter / an already bound name before the loop")
            if isinstance(s.value, ast.Call):
                if nz is not None or not self.is_nz(s.value, fs):
                    bail(s, "the index list must be `%s` (or a helper that returns exactly that), once" % self.nz_text(fs))
                nz = nm
            else:
                if acc is not None:
                    bail(s, "two accumulators")
                if energy:
                    v = self.expr(s.value, {})
                    if v.ty != "C":
                        bail(s, "the accumulator must start from a number")
                    init = const_F(v.c)
                else:
                    if not (isinstance(s.value, ast.List) and not s.value.elts):
                        bail(s, "the key list must start from []")
                    init = "[]"
                acc = nm
            i += 1
        if acc is None:
            bail(fn, "accumulator initialisation not found before the loop in")
        if len(stmts) != i + 2 or not isinstance(stmts[i], ast.For):
            bail(stmts[i] if i < len(stmts) else fn, "expected exactly: initialisations, one for loop, `return %s`" % acc)
        loop, ret = stmts[i], stmts[i + 1]
        if not (isinstance(ret, ast.Return) and isinstance(ret.value, ast.Name) and ret.value.id == acc):
            bail(ret, "the function must end with `return %s`" % acc)
        cacc = coq_name(fn, acc)
        env = dict(base_env)
        env[acc] = V("Acc?", cacc)
        sc = dict(acc=acc, final=self.mode, tgt=tgt, prefix="v_", fn=fn)
        it = loop.iter
        if isinstance(it, ast.Call) and isinstance(it.func, ast.Name) and it.func.id in self.helpers:
            # ---- form 2: the loop lives in a private generator
            if nz is not None:
                bail(fn, "an index list is built but the loop runs over a helper in")
            if loop.orelse:
                bail(loop, "for ... else")
            ci, hlines, vals = self.inline(it, fs, tgt, cn)
            lines = hlines + self.bind_targets(loop.target, vals, env, names + [acc])
            blines, _ = self.block(loop.body, env, sc)
            body = "\n".join(lines + blines)
        else:
            # ---- form 1: the loop is written out
            if nz is None:
                bail(fn, "index list not found before the loop in")
            env[nz] = V("Acc?", None)
            idx, ci = self.product_header(loop, nz, names + [acc, nz], "v_")
            self.idx = idx
            for n, c in zip(idx, ci):
                env[n] = V("N", c)
            blines, _ = self.block(loop.body, env, sc)
            body = "\n".join(blines)
        return self.emit(cn, fs, res, tgt, cacc, init, ci, body)

    def emit(self, cn, fs, res, tgt, cacc, init, ci, body):
        energy = self.mode == "energy"
        if self.keydef is None:
            bail(self.fn, "no key local (`key = c_(i+1, j+1, k+1, l+1)`) in the loop body of")
        accty = "F" if energy else "list vkey"
        params = "(isz : F -> bool) (%s : nat -> nat -> F)%s (%s : option vkey)" % (
            cn[fs], " (%s : vkey -> F)" % cn[res] if energy else "", cn[tgt])
        body = body.replace("@SKIP@", cacc)     # the target test leaves the accumulator as it is
        return ("  Definition %s (%s : nat) : vkey :=\n    %s.\n" % (self.keyname, " ".join(ci), self.keydef)) + \
               ("  Definition %s %s : %s :=\n"
                "    fold_left (fun (%s : %s) (t : nat * nat * nat * nat) =>\n"
                "      let '(%s, %s, %s, %s) := t in\n"
                "      if negb (isz (%s %s %s)) && negb (isz (%s %s %s)) then\n%s\n"
                "      else %s) idx81 %s."
                % ("gen_energy" if energy else "gen_energy_keys", params, accty, cacc, accty, ci[0], ci[1], ci[2], ci[3],
                   cn[fs], ci[0], ci[1], cn[fs], ci[2], ci[3], body, cacc, init))

    def block(self, stmts, env, sc):
        """statements of a loop body -> (Coq lines, yielded values or None).  sc: acc (python name or None), final
        ('energy' | 'keys' | 'yield'), tgt (python name of the target in this scope), prefix of Coq names, fn"""
        lines = []
        acc, final, tgt, prefix = sc["acc"], sc["final"], sc["tgt"], sc["prefix"]
        cacc = env[acc].t if acc else None
        ind = "        "
        for n, s in enumerate(stmts):
            last = n == len(stmts) - 1
            if isinstance(s, ast.AugAssign):
                if not (acc and isinstance(s.target, ast.Name) and s.target.id == acc):
                    bail(s, "in-place operation on something other than the local accumulator%s (it would modify "
                            "an array owned by the caller)" % (" `%s`" % acc if acc else ""))
                if final != "energy" or not isinstance(s.op, (ast.Add, ast.Sub)):
                    bail(s, "the accumulator may only be updated by += / -=")
                if not last:
                    bail(s, "the accumulation must be the last statement of the loop body")
                t = to_F(s.value, self.expr(s.value, env))
                lines.append("%s(%s %s %s)" % (ind, cacc, "+" if isinstance(s.op, ast.Add) else "-", t))
                return lines, None
            if isinstance(s, ast.Assign):
                if len(s.targets) != 1 or not isinstance(s.targets[0], ast.Name):
                    bail(s, "unsupported assignment target in the loop body (stores into arrays are not accepted)")
                nm = s.targets[0].id
                if acc and nm == acc:
                    if final != "energy" or not last:
                        bail(s, "the accumulator may only be re-assigned by the last statement of the loop body")
                    env2 = dict(env)
                    env2[acc] = V("F", cacc)
                    t = to_F(s.value, self.expr(s.value, env2))
                    lines.append("%s%s" % (ind, t))
                    return lines, None
                if nm in env or nm in RESERVED or nm == "_":
                    bail(s, "local name assigned twice / shadows a name the translation relies on")
                if isinstance(s.value, ast.Name):
                    bail(s, "aliasing assignment of a bare name")
                v = self.expr(s.value, env)
                c = coq_name(s, nm, prefix)
                if v.ty == "C":
                    v = V("F", const_F(v.c))
                if v.ty not in ("F", "Z", "Key"):
                    bail(s, "a loop local must be a number or a key")
                if v.ty == "Key":
                    # the key of the tuple becomes a definition of its own (its tie is a finite check over the 81 tuples)
                    used = {x.id for x in ast.walk(s.value) if isinstance(x, ast.Name)} - {"c_"}
                    if self.keydef is not None or not used <= set(self.idx) or not all(x in env for x in self.idx):
                        bail(s, "exactly one key local, built from the four loop indices only, is accepted")
                    self.keydef = v.t
                    v = V("Key", "(%s %s)" % (self.keyname, " ".join(env[x].t for x in self.idx)))
                lines.append("%slet %s := %s in" % (ind, c, v.t))
                env[nm] = V(v.ty, c)
                continue
            if isinstance(s, ast.If):
                if self.guard_seen:
                    bail(s, "second conditional in the loop body")
                if s.orelse or len(s.body) != 1 or not isinstance(s.body[0], ast.Continue):
                    bail(s, "the only conditional accepted is `if <target> and <key> == <target>: continue`")
                if self.resolver_called:
                    bail(s, "the resolver is called before the target test (it raises KeyError for the unknown target)")
                k = self.guard(s.test, env, tgt)
                lines.append("%sif key_is %s %s then @SKIP@ else" % (ind, env[tgt].t, k))
                self.guard_seen = True
                continue
            if isinstance(s, ast.Expr) and final == "keys" and isinstance(s.value, ast.Call):
                c = s.value
                if isinstance(c.func, ast.Attribute) and c.func.attr == "append" and isinstance(c.func.value, ast.Name) \
                        and c.func.value.id == acc and len(c.args) == 1 and not c.keywords:
                    if not last:
                        bail(s, "the append must be the last statement of the loop body")
                    k = to_key(c.args[0], self.expr(c.args[0], env))
                    lines.append("%s(%s ++ [%s])" % (ind, cacc, k))
                    return lines, None
            if isinstance(s, ast.Expr) and final == "yield" and isinstance(s.value, ast.Yield):
                if not last:
                    bail(s, "the yield must be the last statement of the helper's loop body")
                y = s.value.value
                if y is None:
                    bail(s, "bare yield")
                elts = list(y.elts) if isinstance(y, ast.Tuple) else [y]
                vals = []
                for x in elts:
                    if isinstance(x, ast.Starred):
                        bail(x, "starred yield")
                    v = self.expr(x, env)
                    if v.ty == "C":
                        v = V("F", const_F(v.c))
                    if v.ty not in ("F", "Z", "Key"):
                        bail(x, "a helper may only yield numbers and keys")
                    vals.append(v)
                return lines, vals
            bail(s, "unsupported statement in the loop body")
        bail(sc["fn"], "the loop body does not end with the %s in" % ("yield" if final == "yield" else "accumulation"))

    def guard(self, test, env, tgt):
        """`T and K == T` | `T is not None and K == T`  ->  Coq term of K"""
        if not (isinstance(test, ast.BoolOp) and isinstance(test.op, ast.And) and len(test.values) == 2):
            bail(test, "unsupported loop condition")
        a, b = test.values
        if not ((isinstance(a, ast.Name) and a.id == tgt) or src_of(a) == "%s is not None" % tgt):
            bail(a, "unsupported loop condition (first operand must be the target / `target is not None`)")
        if not (isinstance(b, ast.Compare) and len(b.ops) == 1 and isinstance(b.ops[0], ast.Eq)):
            bail(b, "unsupported loop condition (second operand must be `key == target`)")
        l, r = b.left, b.comparators[0]
        if isinstance(r, ast.Name) and r.id == tgt:
            k = l
        elif isinstance(l, ast.Name) and l.id == tgt:
            k = r
        else:
            bail(b, "unsupported loop condition (comparison must be against the target)")
        v = self.expr(k, env)
        if v.ty != "Key":
            bail(k, "the target is compared with something that is not a key")
        return v.t


# ------------------------------------------------------------------------------------------------
# the class
# ------------------------------------------------------------------------------------------------

# member -> (result kind, accepted decorator lists, extra parameters)
MEMBERS = {
    "fictitious_strain": ("M", (["LazyProperty"], ["property"]), []),
    "fictitious_strain_rotated": ("M", (["LazyProperty"], ["property"]), []),
    "transformation_matrix": ("M", (["LazyProperty"], ["property"]), []),
    "fictitious_strain_energy": ("F", (["property"],), []),
    "fictitious_strain_energy_rotated": ("F", (["property"],), []),
    "strain_rotated": ("Vec", (["LazyProperty"], ["property"]), []),
    "get_target_elastic_modulus": ("F", ([],), []),
    "get_modulus_keys": ("Keys", ([],), []),
    "get_modulus_keys_rotated": ("Keys", ([],), []),
    "get_elastic_modulus": ("F", ([],), ["key"]),
    "get_elastic_modulus_rotated": ("F", ([],), ["key"]),
    "value_isothermal": ("F", (["LazyProperty"],), []),
    "value_adiabatic": ("F", (["property"], ["LazyProperty"]), []),
}
ORDER = ["fictitious_strain", "fictitious_strain_rotated", "transformation_matrix", "get_elastic_modulus",
         "get_elastic_modulus_rotated", "fictitious_strain_energy", "fictitious_strain_energy_rotated",
         "strain_rotated", "get_target_elastic_modulus", "get_modulus_keys", "get_modulus_keys_rotated",
         "value_isothermal", "value_adiabatic"]
INSTANCE_ATTRS = {"key", "strain", "modulus", "modulus_rotated", "modulus_isothermal", "modulus_isothermal_rotated",
                  "calculator"}
W_INIT = ["self.key = key", "self.strain = strain", "self.modulus_isothermal = dict()",
          "self.modulus_isothermal_rotated = dict()", "self.calculator = calculator"]
IMPORTS = {"numpy": "import numpy", "itertools": "import itertools", "getLogger": "from logging import getLogger",
           "LazyProperty": "from lazy_property import LazyProperty", "c_": "from cij.util import C_, c_",
           "C_": "from cij.util import C_, c_", "logger": "logger = getLogger(__name__)"}
RESERVED = set(IMPORTS) | {"self", CLS, FN_ENERGY, FN_KEYS, "str", "repr", "Union", "Tuple", "List"}
DEBUG_SELF = {"key", "fictitious_strain", "strain"}


def pure_text(e, local=()):
    """argument of logger.debug: string building (+, %, f-string, str, repr) from pure reads only: constants, self.key /
    .strain / .fictitious_strain, the oracle, and already bound locals (arrays, numbers, keys: formatting them runs
    ndarray / NamedTuple __str__/__repr__/__format__, which do not write)"""
    if isinstance(e, ast.Constant):
        return isinstance(e.value, (str, int, float))
    if isinstance(e, ast.BinOp):
        return isinstance(e.op, (ast.Add, ast.Mod)) and pure_text(e.left, local) and pure_text(e.right, local)
    if isinstance(e, ast.JoinedStr):
        return all(pure_text(x, local) for x in e.values)
    if isinstance(e, ast.FormattedValue):
        return pure_text(e.value, local) and (e.format_spec is None or pure_text(e.format_spec, local))
    if isinstance(e, ast.Tuple):
        return all(pure_text(x, local) for x in e.elts)
    if isinstance(e, ast.Call):
        return src_of(e.func) in ("str", "repr", "numpy.diag", "numpy.linalg.eigh") and not e.keywords and \
            all(pure_text(a, local) for a in e.args)
    if isinstance(e, ast.Subscript):
        return pure_text(e.value, local) and isinstance(e.slice, ast.Constant) and type(e.slice.value) is int
    if isinstance(e, ast.Attribute):
        return isinstance(e.value, ast.Name) and e.value.id == "self" and e.attr in DEBUG_SELF
    if isinstance(e, ast.Name):
        return e.id in local
    return False


class ClassTr(Exprs):
    def __init__(self, cls, loop_ok):
        self.cls = cls
        self.loop_ok = loop_ok            # {"energy": True|TranslateError, "keys": ...}
        self.members = {}
        self.memo = {}
        self.stack = []
        self.deps = {}                    # member -> set of definitions it mentions
        self.cur = None
        self.loop_params = {}

    def check_class(self):
        c = self.cls
        if c.bases or c.keywords or c.decorator_list:
            bail(c, "class %s must have no bases / decorators / metaclass" % CLS)
        for s in c.body:
            if is_doc(s):
                continue
            if not isinstance(s, ast.FunctionDef):
                bail(s, "unsupported statement in the body of class %s" % CLS)
            if s.name in self.members:
                bail(s, "member %s defined twice" % s.name)
            if s.name in INSTANCE_ATTRS:
                bail(s, "class member shadows an instance attribute")
            if s.name.startswith("__") and s.name.endswith("__") and s.name != "__init__":
                bail(s, "special method in class %s" % CLS)
            self.members[s.name] = s
        init = self.members.get("__init__")
        if init is None:
            bail(c, "no __init__ in")
        names, defaults = plain_args(init, (0, 1))
        # `{}` and `dict()` both build a fresh empty dict (the builtin `dict` is not re-bound: check_module)
        got = [src_of(s) if not (isinstance(s, ast.Assign) and isinstance(s.value, ast.Dict) and not s.value.keys)
               else "%s = dict()" % src_of(s.targets[0]) for s in init.body if not is_doc(s)]
        if names != ["self", "strain", "key", "calculator"] or init.decorator_list or got != W_INIT or \
                (defaults and not (isinstance(defaults[0], ast.Constant) and defaults[0].value is None)):
            raise TranslateError("%s:%d: %s.__init__ differs from the accepted form (self, strain, key, calculator=None)\n"
                                 "--- got\n%s\n--- accepted\n%s" % (SRC, init.lineno, CLS, "\n".join(got), "\n".join(W_INIT)))

    # ---- members -------------------------------------------------------------------------------
    def member(self, name):
        """-> dict(text, kind, deps) or raises TranslateError (memoised)"""
        if name in self.memo:
            r = self.memo[name]
            if isinstance(r, TranslateError):
                raise r
            return r
        if name in self.stack:
            raise TranslateError("%s: cyclic definition of %s" % (SRC, name))
        fn = self.members.get(name)
        self.stack.append(name)
        saved = self.cur
        self.cur = name
        self.deps[name] = set()
        try:
            if fn is None:
                raise TranslateError("%s: class %s has no member %s" % (SRC, CLS, name))
            kind, decos, extra = MEMBERS[name]
            ds = []
            for d in fn.decorator_list:
                if not isinstance(d, ast.Name):
                    bail(d, "unsupported decorator on %s" % name)
                ds.append(d.id)
            if ds not in [list(x) for x in decos]:
                bail(fn, "%s must be decorated %s (found %s): the reading of cached / re-evaluated members depends on it"
                     % (name, " or ".join("@" + x[0] if x else "(plain method)" for x in decos), ds or "none"))
            names, _ = plain_args(fn, (0,))
            if names != ["self"] + extra:
                bail(fn, "%s must take (%s)" % (name, ", ".join(["self"] + extra)))
            env = {}
            params = ""
            for p in extra:
                env[p] = V("Key", coq_name(fn, p))
                params += " (%s : vkey)" % coq_name(fn, p)
            lines, v = self.body(fn, env)
            if kind == "F":
                t = to_F(fn, v)
            else:
                if v.ty != kind:
                    bail(fn, "%s must return a value of kind %s, found %s" % (name, kind, v.ty))
                t = v.t
            text = "  Definition gen_%s (isz : F -> bool) (self : gself F)%s : %s :=\n%s    %s." % (
                name, params, COQ_TYPE[kind], "".join("    %s\n" % l for l in lines), t)
            r = dict(text=text, kind=kind, line=fn.lineno)
        except TranslateError as ex:
            r = ex
        finally:
            self.stack.pop()
            self.cur = saved
        self.memo[name] = r
        if isinstance(r, TranslateError):
            raise r
        return r

    def use(self, node, name):
        """record a dependency of the current member; translate it first"""
        try:
            if name in ("@energy", "@keys"):
                ok = self.loop_ok[name[1:]]
                if ok is not True:
                    raise ok
                r = None
            else:
                r = self.member(name)
        except TranslateError as ex:
            bail(node, "depends on %s which could not be translated [%s]" % (name.lstrip("@"), ex))
        self.deps[self.cur].add(name)
        return r

    def body(self, fn, env):
        stmts = [s for s in fn.body if not is_doc(s)]
        lines = []
        for i, s in enumerate(stmts):
            if isinstance(s, ast.Return):
                if i != len(stmts) - 1:
                    bail(s, "return is not the last statement")
                if s.value is None:
                    bail(s, "return without value")
                return lines, self.expr(s.value, env)
            if isinstance(s, ast.Expr):
                c = s.value
                if isinstance(c, ast.Call) and src_of(c.func) == "logger.debug" and not c.keywords and \
                        all(pure_text(a, [k for k in env if not k.startswith("@")]) for a in c.args):
                    continue
                bail(s, "unsupported expression statement")
            if isinstance(s, ast.Assign):
                if len(s.targets) != 1:
                    bail(s, "chained assignment")
                tg = s.targets[0]
                if isinstance(tg, ast.Name):
                    self.assign_name(s, tg.id, env, lines)
                    continue
                if isinstance(tg, ast.Tuple) and all(isinstance(x, ast.Name) for x in tg.elts):
                    v = self.expr(s.value, env)
                    if v.ty == "Eigh" and len(tg.elts) == 2:
                        # eigenvalues, eigenvectors = numpy.linalg.eigh(self.fictitious_strain): the same oracle pair,
                        # component 0 / component 1; `_` binds nothing
                        for x, (ty, proj) in zip(tg.elts, (("Vec", "fst"), ("M", "snd"))):
                            if x.id == "_":
                                continue
                            if x.id in env or x.id in RESERVED or tg.elts[0].id == tg.elts[1].id:
                                bail(s, "unpacking into a bound / repeated / reserved name")
                            c = coq_name(x, x.id)
                            lines.append("let %s := (%s %s) in" % (c, proj, v.t))
                            env[x.id] = V(ty, c)
                        continue
                    if v.ty != "Tup" or v.joint is None or len(v.items) != len(tg.elts):
                        bail(s, "tuple unpacking only of self.key.standard / of the eigh pair into as many names")
                    cs = []
                    for x, it in zip(tg.elts, v.items):
                        if x.id in env or x.id in RESERVED or x.id in [y.id for y in tg.elts if y is not x]:
                            bail(s, "unpacking into a bound / repeated / reserved name")
                        cs.append(coq_name(x, x.id))
                    lines.append("let '(%s) := %s in" % (", ".join(cs), v.joint))
                    for x, c, it in zip(tg.elts, cs, v.items):
                        env[x.id] = V(it.ty, c)
                    continue
                if isinstance(tg, ast.Subscript):
                    self.store(s, tg, env, lines)
                    continue
                bail(s, "unsupported assignment target")
            if isinstance(s, ast.AugAssign):
                bail(s, "in-place operation in a member (it may modify a cached or caller-owned array)")
            bail(s, "unsupported statement form")
        bail(fn, "no return statement in")

    def assign_name(self, s, nm, env, lines):
        if nm in env:
            bail(s, "local name assigned twice")
        if nm in RESERVED:
            bail(s, "local name shadows a name the translation relies on")
        if isinstance(s.value, ast.Name):
            bail(s, "aliasing assignment of a bare name")
        v = self.expr(s.value, env)
        c = coq_name(s, nm)
        if v.ty == "C":
            v = V("F", const_F(v.c))
        if v.ty in ("F", "Z", "M", "Vec", "Eigh", "Key", "Keys"):
            lines.append("let %s := %s in" % (c, v.t))
            env[nm] = V(v.ty, c, fresh=v.fresh)
        elif v.ty in ("KeyObj", "Strain", "Fun", "Dict"):
            env[nm] = v                      # immutable views: inlined
        else:
            bail(s, "a local of kind %s is not supported" % v.ty)

    def store(self, s, tg, env, lines):
        # numpy.einsum('...ii -> ...i', LOCAL)[...] = self.strain
        if isinstance(tg.value, ast.Call) and src_of(tg.value.func) == "numpy.einsum":
            c = tg.value
            ok = len(c.args) == 2 and not c.keywords and isinstance(c.args[0], ast.Constant) and \
                isinstance(c.args[0].value, str) and c.args[0].value.replace(" ", "") == "...ii->...i" and \
                isinstance(c.args[1], ast.Name) and isinstance(tg.slice, ast.Constant) and tg.slice.value is Ellipsis
            if not ok:
                bail(s, "only `numpy.einsum('...ii -> ...i', LOCAL)[...] = <vector>` (assignment to the diagonal view)")
            nm = c.args[1].id
            a = env.get(nm)
            if a is None or a.ty != "M" or a.fresh != "batch":
                bail(s, "the diagonal view must be of a fresh numpy.zeros((*self.strain.shape, 3)) local")
            if nm in env.get("@reads", ()):
                bail(s, "in-place store into a local that was already used (a view or alias of it may exist)")
            v = self.expr(s.value, env)
            if v.ty != "Vec":
                bail(s, "the diagonal is assigned something that is not the strain vector")
            lines.append("let %s := mset_diagonal %s %s in" % (a.t, a.t, v.t))
            env[nm] = V("M", a.t, fresh="batch")
            return
        if not isinstance(tg.value, ast.Name):
            bail(s, "store into something that is not a local array")
        nm = tg.value.id
        a = env.get(nm)
        if a is None or a.ty != "M" or a.fresh != "3x3":
            bail(s, "in-place store into an array that is not a fresh numpy.zeros((3, 3)) local (it may be an oracle "
                    "result or a cached property)")
        if nm in env.get("@reads", ()):
            bail(s, "in-place store into a local that was already used (a view or alias of it may exist)")
        sl = tg.slice
        if not (isinstance(sl, ast.Tuple) and len(sl.elts) == 2):
            bail(s, "stores only as A[int, int] = number")
        ij = []
        for x in sl.elts:
            v = self.expr(x, env)
            if v.ty not in ("Z", "C"):
                bail(x, "store index must be an integer expression of the key (no computed / array-valued index)")
            ij.append(to_idx(x, v))
        val = self.expr(s.value, env)
        if val.ty != "C":
            bail(s, "only a number may be stored")
        lines.append("let %s := mstore %s %s %s %s in" % (a.t, a.t, ij[0], ij[1], const_F(val.c)))
        env[nm] = V("M", a.t, fresh="3x3")

    # ---- expressions -----------------------------------------------------------------------------
    def name(self, e, env):
        if e.id in env:
            v = env[e.id]
            if v.ty == "M" and v.fresh:
                env.setdefault("@reads", set()).add(e.id)
                return V("M", v.t)          # a read: the value, no longer storable through this reference
            return v
        bail(e, "unknown name")

    def lam(self, e, env):
        a = e.args
        if a.vararg or a.kwarg or a.kwonlyargs or a.posonlyargs or a.defaults or a.kw_defaults or len(a.args) != 1:
            bail(e, "only `lambda key: ...`")
        p = a.args[0].arg
        if p in env or p in RESERVED:
            bail(e, "lambda parameter shadows a bound / reserved name")
        c = coq_name(e, p)
        env2 = dict(env)
        env2[p] = V("Key", c)
        t = to_F(e.body, self.expr(e.body, env2))
        return V("Fun", "(fun %s : vkey => %s)" % (c, t))

    def attribute(self, e, env):
        if isinstance(e.value, ast.Name) and e.value.id == "self":
            return self.self_attr(e)
        v = self.expr(e.value, env)
        a = e.attr
        if v.ty == "M" and a == "T":
            return V("M", "(mtrans %s)" % v.t)
        if v.ty == "KeyObj":
            if a in ("i", "j"):
                return V("Strain", "(%s %s)" % ("fst" if a == "i" else "snd", v.mk))
            if a in ("standard", "s"):
                return V("Tup", items=[V("Z")] * 4, joint="mod_standard %s" % v.mk)
            if a == "multiplicity":
                return V("Z", "(multiplicity %s)" % v.mk)
        if v.ty == "Strain" and a in ("i", "j"):
            return V("Z", "(%s %s)" % ("fst" if a == "i" else "snd", v.t))
        bail(e, "unsupported attribute of a value of kind %s" % v.ty)

    def self_attr(self, e):
        a = e.attr
        if a == "key":
            return V("KeyObj", "(g_key self)", mk="(gen_C (g_key self))")
        if a == "strain":
            return V("Vec", "(g_strain self)")
        if a == "modulus":
            return V("Dict", "(g_modulus self)")
        if a == "modulus_rotated":
            return V("Dict", "(g_modulus_rotated self)")
        if a in MEMBERS:
            kind, decos, extra = MEMBERS[a]
            if [] in [list(d) for d in decos]:
                if extra:
                    self.use(e, a)
                    return V("Fun", "(gen_%s isz self)" % a)
                bail(e, "method %s is used without being called" % a)
            if a == "value_isothermal":
                # memoised value: its producer reads the mutable dictionaries; requires @LazyProperty
                fn = self.members.get(a)
                if fn is None or [src_of(d) for d in fn.decorator_list] != ["LazyProperty"]:
                    bail(e, "value_isothermal is read as a memoised value but is not a @LazyProperty")
                return V("F", "(g_iso_cache self)")
            self.use(e, a)
            return V(kind, "(gen_%s isz self)" % a)
        bail(e, "unknown / unsupported attribute of self")

    def call(self, e, env):
        if any(isinstance(a, ast.Starred) for a in e.args):
            bail(e, "starred argument")
        f = e.func
        fs = src_of(f)
        if isinstance(f, ast.Attribute) and isinstance(f.value, ast.Name) and f.value.id == "self" and f.attr in MEMBERS:
            kind, decos, extra = MEMBERS[f.attr]
            if [] not in [list(d) for d in decos]:
                bail(e, "property %s is called" % f.attr)
            if e.keywords or len(e.args) != len(extra):
                bail(e, "%s takes %d positional argument(s)" % (f.attr, len(extra)))
            args = "".join(" " + to_key(a, self.expr(a, env)) for a in e.args)
            self.use(e, f.attr)
            return V(kind, "(gen_%s isz self%s)" % (f.attr, args))
        if fs in (FN_ENERGY, FN_KEYS):
            return self.loop_call(e, env, fs == FN_ENERGY)
        if fs == "numpy.zeros":
            if e.keywords or len(e.args) != 1:
                bail(e, "numpy.zeros takes the shape only")
            sh = src_of(e.args[0])
            if sh == "(3, 3)":
                return V("M", "mzeros", fresh="3x3")
            if sh == "(*self.strain.shape, 3)":
                return V("M", "mzeros", fresh="batch")
            bail(e, "numpy.zeros only of (3, 3) / (*self.strain.shape, 3)")
        if fs == "numpy.diag":
            if e.keywords or len(e.args) != 1:
                bail(e, "numpy.diag takes one argument")
            v = self.expr(e.args[0], env)
            if v.ty != "Vec":
                bail(e, "numpy.diag only of a vector (builds the diagonal matrix)")
            return V("M", "(mdiag_of %s)" % v.t)
        if fs == "numpy.linalg.eigh":
            if e.keywords or len(e.args) != 1 or src_of(e.args[0]) != "self.fictitious_strain":
                bail(e, "numpy.linalg.eigh is an oracle of self.fictitious_strain only")
            self.use(e, "fictitious_strain")
            return V("Eigh", "(g_eigh self)")
        if fs == "numpy.diagonal":
            kw = {k.arg: src_of(k.value) for k in e.keywords}
            if len(e.args) != 1 or kw != {"axis1": "-2", "axis2": "-1"}:
                bail(e, "numpy.diagonal only as numpy.diagonal(M, axis1=-2, axis2=-1)")
            v = self.expr(e.args[0], env)
            if v.ty != "M":
                bail(e, "numpy.diagonal of something that is not a matrix")
            return V("Vec", "(mdiagonal %s)" % v.t)
        bail(e, "call outside the translator's grammar")

    def loop_call(self, e, env, energy):
        self.use(e, "@energy" if energy else "@keys")
        names = self.loop_params["energy" if energy else "keys"]
        args = {}
        if len(e.args) > len(names):
            bail(e, "too many arguments")
        for n, a in zip(names, e.args):
            args[n] = a
        for k in e.keywords:
            if k.arg is None or k.arg not in names or k.arg in args:
                bail(e, "unknown / repeated keyword argument")
            args[k.arg] = k.value
        missing = [n for n in names[:-1] if n not in args]
        if missing:
            bail(e, "missing argument(s) %s" % missing)
        m = self.expr(args[names[0]], env)
        if m.ty != "M":
            bail(args[names[0]], "the strain argument is not a 3x3 array")
        t = "None"
        if names[-1] in args:
            tv = self.expr(args[names[-1]], env)
            if tv.ty == "KeyObj":
                t = "(Some %s)" % tv.t
            elif tv.ty != "None":
                bail(args[names[-1]], "the target must be self.key or None")
        if energy:
            r = self.expr(args[names[1]], env)
            if r.ty != "Fun":
                bail(args[names[1]], "the resolver must be `lambda key: self.get_elastic_modulus[_rotated](key)` or the bound method")
            return V("F", "(gen_energy isz %s %s %s)" % (m.t, r.t, t))
        return V("Keys", "(gen_energy_keys isz %s %s)" % (m.t, t))


# ------------------------------------------------------------------------------------------------
# module
# ------------------------------------------------------------------------------------------------

def check_module(mod):
    bound = {}
    for n in mod.body:
        if is_doc(n):
            continue
        if isinstance(n, ast.Import):
            for a in n.names:
                bound.setdefault(a.asname or a.name.split(".")[0], []).append(n)
        elif isinstance(n, ast.ImportFrom):
            for a in n.names:
                if a.name == "*":
                    bail(n, "star import")
                bound.setdefault(a.asname or a.name, []).append(n)
        elif isinstance(n, ast.Assign) and len(n.targets) == 1 and isinstance(n.targets[0], ast.Name):
            bound.setdefault(n.targets[0].id, []).append(n)
        elif isinstance(n, (ast.FunctionDef, ast.ClassDef)):
            bound.setdefault(n.name, []).append(n)
        else:
            bail(n, "unsupported module-level statement")
    for name, want in IMPORTS.items():
        ns = bound.get(name, [])
        if len(ns) != 1 or src_of(ns[0]) != want:
            raise TranslateError("%s: name `%s` must be bound exactly once, by `%s` (found: %s)"
                                 % (SRC, name, want, [src_of(x).splitlines()[0] for x in ns]))
    for name, ty in ((FN_ENERGY, ast.FunctionDef), (FN_KEYS, ast.FunctionDef), (CLS, ast.ClassDef)):
        ns = bound.get(name, [])
        if len(ns) != 1 or not isinstance(ns[0], ty):
            raise TranslateError("%s: `%s` must be defined exactly once at module level" % (SRC, name))
    for name in ("dict", "str", "repr"):
        if name in bound:
            bail(bound[name][0], "module-level re-binding of the builtin `%s`" % name)
    helpers = {}
    for name, ns in bound.items():
        if name in IMPORTS or name in (FN_ENERGY, FN_KEYS, CLS) or all(isinstance(x, (ast.Import, ast.ImportFrom)) for x in ns):
            continue
        # a further undecorated module-level function is a candidate loop helper: defining it executes nothing; it
        # only matters where a translated function calls it, and there it must fit the helper grammar (LoopFn.inline)
        if len(ns) == 1 and isinstance(ns[0], ast.FunctionDef) and not ns[0].decorator_list and name not in RESERVED:
            helpers[name] = ns[0]
            continue
        bail(ns[0], "unexpected module-level definition of `%s`" % name)
    bound["@helpers"] = helpers
    return bound


def check_c_(util_src, voigt_src):
    """c_ = C_._ , C_ = ModulusRepresentation, _ = cls.create(*args)  (create itself is translated by translate_voigt)"""
    um = parse(util_src)
    if [src_of(s) for s in um.body if isinstance(s, ast.Assign) and src_of(s.targets[0]) == "c_"] != ["c_ = C_._"] or \
            not any(isinstance(s, ast.ImportFrom) and s.module == "voigt" and s.level == 1 and
                    any(a.name == "C_" and a.asname is None for a in s.names) for s in um.body):
        raise TranslateError("%s: `c_ = C_._` with C_ imported from .voigt not found" % SRC_UTIL)
    vm = parse(voigt_src)
    if [src_of(s) for s in vm.body if isinstance(s, ast.Assign) and src_of(s.targets[0]) == "C_"] != ["C_ = ModulusRepresentation"]:
        raise TranslateError("%s: `C_ = ModulusRepresentation` not found" % SRC_VOIGT)
    mr = [n for n in vm.body if isinstance(n, ast.ClassDef) and n.name == "ModulusRepresentation"]
    us = [n for n in (mr[0].body if len(mr) == 1 else []) if isinstance(n, ast.FunctionDef) and n.name == "_"]
    if len(us) != 1 or [src_of(s) for s in us[0].body if not is_doc(s)] != ["return cls.create(*args)"] or \
            [src_of(d) for d in us[0].decorator_list] != ["classmethod"]:
        raise TranslateError("%s: ModulusRepresentation._ is not `return cls.create(*args)`" % SRC_VOIGT)
    fields = [src_of(s) for s in (mr[0].body if len(mr) == 1 else []) if isinstance(s, ast.AnnAssign)]
    if fields != ["i: StrainRepresentation", "j: StrainRepresentation"] or [src_of(b) for b in mr[0].bases] != ["NamedTuple"]:
        raise TranslateError("%s: ModulusRepresentation is not NamedTuple(i: StrainRepresentation, j: StrainRepresentation)" % SRC_VOIGT)
    sr = [n for n in vm.body if isinstance(n, ast.ClassDef) and n.name == "StrainRepresentation"]
    if len(sr) != 1 or [src_of(s) for s in sr[0].body if isinstance(s, ast.AnnAssign)] != ["i: int", "j: int"] or \
            [src_of(b) for b in sr[0].bases] != ["NamedTuple"]:
        raise TranslateError("%s: StrainRepresentation is not NamedTuple(i: int, j: int)" % SRC_VOIGT)
    for c in (mr[0], sr[0]):
        for s in c.body:
            if isinstance(s, ast.FunctionDef) and s.name in ("__eq__", "__ne__", "__hash__", "__bool__", "__len__",
                                                             "__getitem__", "__iter__", "__new__"):
                raise TranslateError("%s:%d: %s overrides %s (tuple equality / truthiness / indexing are relied on)"
                                     % (SRC_VOIGT, s.lineno, c.name, s.name))


# lemma group -> generated definitions it mentions
GROUPS = ["wiring", "keyobj", "energy", "keys", "fict", "strain_rot", "target", "adiabatic"]
NEEDS = {
    "wiring": [], "keyobj": [],
    "energy": ["@energy"],
    "keys": ["@keys", "fictitious_strain", "fictitious_strain_rotated", "get_modulus_keys", "get_modulus_keys_rotated"],
    "fict": ["fictitious_strain", "fictitious_strain_rotated", "transformation_matrix"],
    "strain_rot": ["strain_rotated", "transformation_matrix"],
    "target": ["@energy", "@keys", "fictitious_strain", "fictitious_strain_rotated", "transformation_matrix",
               "get_elastic_modulus", "get_elastic_modulus_rotated", "fictitious_strain_energy",
               "fictitious_strain_energy_rotated", "get_target_elastic_modulus", "get_modulus_keys",
               "get_modulus_keys_rotated", "value_isothermal"],
    "adiabatic": ["value_adiabatic"],
}

HEADER = """(* GENERATED from %s by tools/translate_shear.py - do not edit.
   gen_energy / gen_energy_keys: the two module-level loop functions as left folds over the 81 index 4-tuples;
   gen_<member>: the members of class %s as functions of the zero test [isz]
   (numpy.isclose(., 0)) and of the instance [self : gself F] (vocabulary and reading: ShearTieBase.v). *)
From Coq Require Import ZArith List Bool Arith.
From Cij Require Import Ops VoigtBase Voigt ShearModel.
From CijGen Require Import Gen_voigt ShearTieBase.
Import ListNotations.

Section Gen.
  Context {F : Type} {OF : Ops F}.
  Local Open Scope ops_scope.
"""


def translate(src, util_src=None, voigt_src=None):
    """-> dict(gen=text of Gen_shear.v, errors={definition or 'wiring': message}, defined=[names],
               group_errors={group: [messages]}).
    A structural problem of the module / class raises TranslateError: nothing can be trusted then."""
    mod = parse(src)
    bound = check_module(mod)
    errors = {}
    if util_src is not None and voigt_src is not None:
        try:
            check_c_(util_src, voigt_src)
        except TranslateError as ex:
            errors["wiring"] = str(ex)
    out = [HEADER % (SRC, CLS)]
    defined = []
    loop_ok = {}
    loop_params = {}
    for name, mode in ((FN_ENERGY, "energy"), (FN_KEYS, "keys")):
        fn = bound[name][0]
        try:
            text = LoopFn(fn, mode, bound["@helpers"]).translate()
            out.append("  (* %s  (line %d) *)\n%s\n" % (name, fn.lineno, text))
            defined += ["gen_energy_key", "gen_energy"] if mode == "energy" else ["gen_keys_key", "gen_energy_keys"]
            loop_ok[mode] = True
            loop_params[mode] = [a.arg for a in fn.args.args]
        except TranslateError as ex:
            errors["@" + mode] = str(ex)
            loop_ok[mode] = ex
            out.append("  (* %s: NOT TRANSLATED *)\n" % name)
    ct = ClassTr(bound[CLS][0], loop_ok)
    ct.loop_params = loop_params
    ct.check_class()
    emitted = set()

    def emit(name):
        if name in emitted or name.startswith("@"):
            return
        r = ct.member(name)
        for d in sorted(ct.deps.get(name, ())):
            emit(d)
        if name not in emitted:
            emitted.add(name)
            out.append("  (* %s.%s  (line %d) *)\n%s\n" % (CLS, name, r["line"], r["text"]))
            defined.append("gen_" + name)

    for name in ORDER:
        try:
            emit(name)
        except TranslateError as ex:
            errors[name] = str(ex)
            out.append("  (* %s: NOT TRANSLATED *)\n" % name)
    out.append("End Gen.\n")
    group_errors = {}
    for g in GROUPS:
        msgs = [errors[n] for n in NEEDS[g] if n in errors]
        if "wiring" in errors and g in ("wiring", "keyobj", "energy", "keys", "fict", "target"):
            msgs.append(errors["wiring"])
        if msgs:
            group_errors[g] = sorted(set(msgs))
    return dict(gen="\n".join(out), errors=errors, defined=defined, group_errors=group_errors)


def translate_repo(repo):
    from pathlib import Path
    repo = Path(repo)
    return translate((repo / SRC).read_text(), (repo / SRC_UTIL).read_text(), (repo / SRC_VOIGT).read_text())


if __name__ == "__main__":
    import sys
    r = translate_repo(sys.argv[1] if len(sys.argv) > 1 else "/repo")
    print(r["gen"])
    for g, msgs in r["group_errors"].items():
        for m in msgs:
            print("ERROR[%s] %s" % (g, m), file=sys.stderr)
