#!/venv/bin/python
"""./check <property> [--tier quick|thorough] [--replay file]

Exit 0: property held on everything explored (KNOWN-FINDING lines allowed).
Exit 1: `VIOLATION property=<id> replay=<path>` printed for every unlisted violation.
"""
import argparse
import hashlib
import importlib
import json
import os
import sys
import time
import traceback

sys.path.insert(0, "/verif/tools")
import vlib  # noqa: E402
from vlib import Ctx, VERIF  # noqa: E402


def load_known():
    p = VERIF / "known_findings.json"
    if not p.exists():
        return []
    return json.loads(p.read_text()).get("findings", [])


def main():
    ap = argparse.ArgumentParser()
    ap.add_argument("pid")
    ap.add_argument("--tier", default=os.environ.get("VERIF_TIER") or "quick")
    ap.add_argument("--replay", default=None)
    a = ap.parse_args()
    pid = a.pid.upper()
    tier = a.tier if a.tier in ("quick", "thorough") else "quick"
    seed = int(os.environ.get("VERIF_SEED") or 20260930)
    ctx = Ctx(pid, tier, seed)
    ctx.replay_in = json.loads(open(a.replay).read()) if a.replay else None

    (VERIF / "evidence").mkdir(exist_ok=True)
    (VERIF / "replay").mkdir(exist_ok=True)

    crashed = None
    try:
        bad = vlib.forbidden_gate()
        ctx.obligation("grep-gate: no Admitted/Axiom/Parameter/unset checks in coq/", "gate", not bad,
                       "; ".join(bad))
        vlib.ensure_theories()
        mod = importlib.import_module("props.%s" % pid.lower())
        mod.run(ctx)
    except Exception:
        crashed = traceback.format_exc()
        ctx.obligation("check machinery completed", "machinery", False, crashed)

    known = [k for k in load_known() if k.get("property") == pid]
    known_keys = {k["key"]: k for k in known}

    listed, unlisted = [], []
    seen = set()
    ctx.failures = [vlib.clean(f) for f in ctx.failures]
    ctx.samples = vlib.clean(ctx.samples)
    ctx.extra = vlib.clean(ctx.extra)
    ctx.dist = vlib.clean(ctx.dist)
    for f in ctx.failures:
        if f["key"] in seen:
            continue
        seen.add(f["key"])
        (listed if f["key"] in known_keys else unlisted).append(f)

    broken = [o for o in ctx.obligations if not o["ok"]]
    lines = []
    for f in listed:
        lines.append("KNOWN-FINDING: property=%s %s [%s]" % (pid, known_keys[f["key"]].get("what", f["what"]), f["key"]))

    nviol = 0
    for f in unlisted[:8]:
        h = hashlib.sha1(json.dumps(f, sort_keys=True, default=vlib.jsonable).encode()).hexdigest()[:10]
        rp = VERIF / "replay" / ("%s-%s.json" % (pid, h))
        rp.write_text(json.dumps(dict(property=pid, seed=seed, tier=tier, failing_input=f,
                                      broken_obligations=[o["name"] for o in broken]),
                                 indent=1, default=vlib.jsonable))
        lines.append("VIOLATION property=%s replay=%s" % (pid, rp))
        nviol += 1
    if broken and not unlisted:
        h = hashlib.sha1(json.dumps([o["name"] for o in broken]).encode()).hexdigest()[:10]
        rp = VERIF / "replay" / ("%s-%s.json" % (pid, h))
        rp.write_text(json.dumps(dict(property=pid, seed=seed, tier=tier, failing_input=None,
                                      no_longer_checks=[dict(name=o["name"], kind=o["kind"], detail=o["detail"])
                                                        for o in broken]), indent=1))
        lines.append("VIOLATION property=%s replay=%s no-failing-input-found" % (pid, rp))
        nviol += 1

    wall = time.time() - ctx.t0
    nob = len(ctx.obligations)
    ndis = sum(1 for o in ctx.obligations if o["ok"])
    samples = ctx.samples or [o["name"] for o in ctx.obligations[:5]]
    cov = dict(
        obligations=nob, discharged=ndis,
        checker_cmd="coqc %s <file>  (static theories: make in /verif/coq; per-run files under coq/run/%s)"
                    % (" ".join(vlib.COQ_FLAGS), pid),
        trusted_base=ctx.trusted,
        evaluations=ctx.evaluations, distinct_nontrivial=ctx.nontrivial,
        rule=ctx.rule, samples=json.loads(json.dumps(samples, default=vlib.jsonable)),
        obligation_list=[dict(name=o["name"], kind=o["kind"], ok=o["ok"]) for o in ctx.obligations],
        input_distribution=ctx.dist,
        axioms_reported_by_Print_Assumptions=sorted(ctx.axioms),
        partial_clauses=ctx.partial,
        known_findings_hit=[f["key"] for f in listed],
        exhaustive=bool(ctx.extra.get("exhaustive", False)),
    )
    for k, v in ctx.extra.items():
        cov.setdefault(k, v)
    ev = dict(property_id=pid, tier=tier, seed=seed, level="proof", coverage=cov,
              assumptions=ctx.assumptions, wall_s=round(wall, 2), violations=nviol)
    evdir = VERIF / "evidence"
    if os.environ.get("VERIF_TAG"):
        evdir = vlib.RUN / ("evidence_" + os.environ["VERIF_TAG"])
        evdir.mkdir(parents=True, exist_ok=True)
    (evdir / ("%s.json" % pid)).write_text(json.dumps(ev, indent=1, default=vlib.jsonable))

    for ln in lines:
        print(ln)
    print("%s tier=%s seed=%d obligations=%d discharged=%d evaluations=%d distinct_nontrivial=%d wall=%.1fs"
          % (pid, tier, seed, nob, ndis, ctx.evaluations, ctx.nontrivial, wall))
    if crashed:
        sys.stderr.write(crashed)
    sys.exit(1 if nviol else 0)


if __name__ == "__main__":
    main()
