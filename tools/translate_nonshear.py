"""Fail-closed translator  cij/core/phonon_contribution/nonshear.py  ->  Gen_nonshear.v

POINTWISE SCALAR SEMANTICS.  Every numpy array of the source is a function of the grid point (T, V)
and of the mode (q, m).  An array expression is translated into a scalar term over `Ops F` in the atoms

    t v          temperature / volume of the grid point          (t_array: axes (T), v_array: (V))
    ei ej        strain fractions  self.e[0], self.e[1]          (V)
    pst          calculator.static_p_array                       (V)
    cv p         volume_base.heat_capacity / .pressures          (T,V)
    f gv g       freq_array, calculator.mode_gamma[0], [1]       (V,q,m);  calculator.mode_gamma[2] is g*g
    na           self.na (an integer, ofZ na);   K : consts      unit constants c_hdk, c_h, c_k

Broadcasting is CHECKED, not ignored: every value carries an axis signature (a tuple over
{'T','V','q','m','1'}); subscripts with `nax` / `:` only realign axes; a binary operation must be a legal
numpy broadcast that aligns EQUAL axis names (right-aligned; '1' or a missing axis broadcasts); the result
of every known property must have its declared signature.  `self.t_array[nax, :]` where `[:, nax]` is
meant therefore raises TranslateError instead of silently producing the same term.

`self.average_over_modes(E)` splits a grid-level property into an OUTER function (the mode average is a
parameter a1, a2, ... numbered by first occurrence, structurally equal arguments share one parameter) and
one INNER per-mode function per distinct argument E.

Accepted grammar (everything else -> TranslateError naming file, line and construct):
  module level   the known imports, `logger = ...`, the three unit-constant assignments (exact text),
                 class ElasticModulus: pass, the functions average_over_modes / clear_gamma_point (accepted
                 spellings W_FORMS, compared up to renaming of locals), further undecorated functions (inlined when
                 called, see below), the two classes; no other binding of a name the translation relies on
  class body     docstring and `def`s only; known members need @LazyProperty/@property; __init__, the accessors
                 v_array/t_array/freq_array/q_weights and the method average_over_modes are template-checked (W_FORMS);
                 further @LazyProperty/@property members are *helper properties*, further undecorated methods
                 *helper methods*: translated on demand and inlined;
                 inheritance: a member not overridden in the OffDiagonal class is the Longitudinal one, and
                 every method is translated once per *instance* class (self.X resolves through the MRO)
  statements     docstring;  NAME = expr  (single assignment, fresh non-reserved name, value not a bare name);
                 NAME1, NAME2, ... = <tuple of as many components>  (same conditions per name);
                 NAME[MASK, :] = 0  with MASK = numpy.where(self.t_array == 0) | self.t_array == 0 |
                 self.<property whose whole body is `return self.t_array == 0`>
                 on a fresh, not yet used local of axes (T,V)  (-> `if is0 t then zero else ...` guard);
                 HELPER(args) as a statement (see below);  return expr  (last statement)
  expressions    int constants, float literals that are short exact decimals p/q (0.5 -> 1/2; the literal is the
                 same double as the accepted integer division p / q), + - * /, ** with constant exponent 0..4,
                 unary - +, numpy.exp(e), numpy.square / negative / add / subtract / multiply / divide (positional
                 arguments only: no out= / where=), numpy.prod(self.e, axis=0), tuples, TUPLE[int],
                 ARRAY[nax|:, ...] with exactly one `:` per axis, the attribute chains listed in ATOMS,
                 self.<known property>, self.<helper property>, h_div_k, the two
                 units.Quantity(...).to(...).magnitude expressions (exact text), local names,
                 self.average_over_modes(e) (grid-level properties only, not nested), HELPER(args)
  helpers        HELPER = an undecorated module-level function bound exactly once, or self.<undecorated method>
                 (MRO of the instance class); positional arguments only, no defaults, no recursion; its body must be
                 inside this same grammar (so its only possible side effect is the T = 0 guard), module-level
                 functions may not mention self.  In expression position arguments are passed by value (the callee
                 cannot assign into them) and the body ends in `return expr`; in statement position the body has no
                 return and an argument that is a bare local name is passed by reference: a guard on the parameter
                 is a guard on the caller's local, under the same fresh / not-yet-used conditions.
"""
import ast

SRC = "cij/core/phonon_contribution/nonshear.py"
SRC_CALC = "cij/core/calculator.py"
SRC_MG = "cij/core/mode_gamma.py"
LONG = "LongitudinalElasticModulusPhononContribution"
OFFD = "OffDiagonalElasticModulusPhononContribution"
PREFIX = {LONG: "L", OFFD: "O"}


class TranslateError(Exception):
    pass


def bail(node, why, fname=SRC):
    line = getattr(node, "lineno", "?")
    if isinstance(node, (ast.FunctionDef, ast.ClassDef)):
        txt = node.name
    else:
        try:
            txt = ast.unparse(node)
        except Exception:
            txt = ""
    if len(txt) > 160:
        txt = txt[:157] + "..."
    raise TranslateError("%s:%s: %s: %s `%s`" % (fname, line, why, type(node).__name__, txt))


# ------------------------------------------------------------------------------------------------
# values
# ------------------------------------------------------------------------------------------------

class Arr:
    """array-valued expression: axis signature + scalar term; fresh = a new array object (result of
    arithmetic / a call), i.e. not a view or an alias of an attribute"""
    def __init__(self, sig, term, fresh=False):
        self.sig, self.term, self.fresh = tuple(sig), term, fresh


class Tup:
    def __init__(self, items):
        self.items = list(items)


V_ = ("V",)
TV = ("T", "V")
VQM = ("V", "q", "m")
TVQM = ("T", "V", "q", "m")

# parameter lists by level (V included in TV included in M)
LEVELS = ("V", "TV", "M")
PARAMS = {"V": ["ei", "ej", "v", "pst"], "TV": ["ei", "ej", "v", "pst", "t", "cv", "p"],
          "M": ["ei", "ej", "v", "pst", "t", "cv", "p", "f", "g", "gv"]}
ATOM_LEVEL = {"ei": "V", "ej": "V", "v": "V", "pst": "V", "t": "TV", "cv": "TV", "p": "TV",
              "f": "M", "g": "M", "gv": "M"}


def level_le(a, b):
    return LEVELS.index(a) <= LEVELS.index(b)


ATOMS = {
    "self.t_array": ("t", ("T",)), "self.calculator.t_array": ("t", ("T",)),
    "self.v_array": ("v", V_), "self.calculator.v_array": ("v", V_),
    "self.freq_array": ("f", VQM), "self.calculator.freq_array": ("f", VQM),
    "self.calculator.static_p_array": ("pst", V_),
    "self.qha_calculator.volume_base.heat_capacity": ("cv", TV),
    "self.calculator.qha_calculator.volume_base.heat_capacity": ("cv", TV),
    "self.qha_calculator.volume_base.pressures": ("p", TV),
    "self.calculator.qha_calculator.volume_base.pressures": ("p", TV),
}
SCALARS = {"self.na": ("na",), "self.calculator.na": ("na",)}
CONST_EXPR = {
    "units.Quantity(_h, units.J * units.m).to(units.rydberg * units.cm).magnitude": "c_h",
    "units.Quantity(_k, units.eV / units.K).to(units.rydberg / units.K).magnitude": "c_k",
}
MODULE_CONSTS = {
    "_h": "scipy.constants.physical_constants['molar Planck constant times c'][0] / "
          "scipy.constants.physical_constants['Avogadro constant'][0]",
    "_k": "scipy.constants.physical_constants['Boltzmann constant in eV/K'][0]",
    "h_div_k": "units.Quantity(_h / _k, units.J * units.m / units.eV * units.K).to(units.cm * units.K).magnitude",
}
IMPORTS = {"numpy": "import numpy", "nax": "from numpy import newaxis as nax",
           "units": "from cij.util import units", "LazyProperty": "from lazy_property import LazyProperty",
           "scipy": "import scipy.constants"}
RESERVED = set(IMPORTS) | set(MODULE_CONSTS) | {
    "self", "average_over_modes", "clear_gamma_point", "ElasticModulus", LONG, OFFD, "logger", "logging",
    "Tuple", "List"}

# known properties: shape (nested tuple of signatures), level of the generated function(s), names
POINTWISE = {
    "prefactors": dict(shape=(V_, (V_, V_), V_), level="V", names=("pref0", ("pref1i", "pref1j"), "pref2")),
    "mode_gamma": dict(shape=(VQM, (VQM, VQM), VQM), level="M", names=("mg0", ("mg1i", "mg1j"), "mg2")),
    "Q": dict(shape=TVQM, level="M", names="Q"),
    "Q1": dict(shape=TVQM, level="M", names="Q1"),
    "Q2": dict(shape=TVQM, level="M", names="Q2"),
}
# grid-level properties: signature, level of the outer function, number of distinct mode averages the tie
# expects, other grid-level properties they may mention (these become parameters of the outer function)
GRID = {
    "zero_point_contribution": dict(sig=V_, level="V", navg=1, refs=(), name="zp"),
    "thermal_contribution": dict(sig=TV, level="TV", navg=1, refs=(), name="th"),
    "value_isothermal": dict(sig=TV, level="TV", navg=0,
                             refs=(("zero_point_contribution", "zp"), ("thermal_contribution", "th")), name="iso"),
    "isothermal_to_adiabatic": dict(sig=TV, level="TV", navg=2, refs=(), name="gap"),
    "value_adiabatic": dict(sig=TV, level="TV", navg=0,
                            refs=(("value_isothermal", "iso"), ("isothermal_to_adiabatic", "gap")), name="adi"),
}
INSTANCE_ATTRS = {"e", "calculator", "qha_calculator", "nv", "np", "nq", "na"}

# template-checked members ("wiring"): every accepted spelling is a complete `def`; a member is compared
# with them after ALPHA-NORMALISATION (parameters and locally bound names -> _v0, _v1, ... in binding order), so
# renaming a local / a comprehension variable is accepted, anything else is not.
W_FORMS = {
    "__init__": ["""
def __init__(self, calculator, e):
    self.e = e
    self.calculator = calculator
    self.qha_calculator = self.calculator.qha_calculator
    self.nv = self.calculator.nv
    self.np = self.calculator.np
    self.nq = self.calculator.nq
    self.na = self.calculator.na
"""],
    "v_array": ["def v_array(self):\n    return self.calculator.v_array\n"],
    "t_array": ["def t_array(self):\n    return self.calculator.t_array\n"],
    "freq_array": ["def freq_array(self):\n    return self.calculator.freq_array\n"],
    "q_weights": ["def q_weights(self):\n"
                  "    return numpy.array([weight for coord, weight in self.calculator.qha_input.weights])\n"],
    "average_over_modes (method)": ["def average_over_modes(self, amount):\n"
                                    "    return average_over_modes(amount, self.q_weights)\n"],
    # mean over the last axis (modes), then weighted mean over the then-last axis (q-points), of a copy whose
    # [..., 0, 0:3] entries are zeroed.  For an array of ndim d >= 2:  axis=d-1 is axis=-1, and after the
    # first reduction axis=d-2 is the last axis again, i.e. axis=-1: the four spellings denote the same function.
    "average_over_modes": ["""
def average_over_modes(amount, q_weights):
    dims = len(amount.shape)
    _amount = amount.copy()
    clear_gamma_point(_amount)
    return numpy.average(numpy.average(_amount, axis=dims - 1), weights=q_weights, axis=dims - 2)
""", """
def average_over_modes(amount, q_weights):
    dims = len(amount.shape)
    _amount = amount.copy()
    clear_gamma_point(_amount)
    inner = numpy.average(_amount, axis=dims - 1)
    return numpy.average(inner, weights=q_weights, axis=dims - 2)
""", """
def average_over_modes(amount, q_weights):
    _amount = amount.copy()
    clear_gamma_point(_amount)
    return numpy.average(numpy.average(_amount, axis=-1), weights=q_weights, axis=-1)
""", """
def average_over_modes(amount, q_weights):
    _amount = amount.copy()
    clear_gamma_point(_amount)
    inner = numpy.average(_amount, axis=-1)
    return numpy.average(inner, weights=q_weights, axis=-1)
""", """
def average_over_modes(amount, q_weights):
    dims = amount.ndim
    _amount = amount.copy()
    clear_gamma_point(_amount)
    return numpy.average(numpy.average(_amount, axis=dims - 1), weights=q_weights, axis=dims - 2)
""", """
def average_over_modes(amount, q_weights):
    dims = amount.ndim
    _amount = amount.copy()
    clear_gamma_point(_amount)
    inner = numpy.average(_amount, axis=dims - 1)
    return numpy.average(inner, weights=q_weights, axis=dims - 2)
"""],
    # tuple([slice(None)] * (d - 2) + [0, slice(0, 3)]) is the index [..., 0, 0:3] for ndim d >= 2;
    # ndarray.ndim is len(ndarray.shape)
    "clear_gamma_point": ["""
def clear_gamma_point(mat):
    dims = len(mat.shape)
    indices = tuple([slice(None)] * (dims - 2) + [0, slice(0, 3)])
    mat[indices] = 0
""", """
def clear_gamma_point(mat):
    dims = mat.ndim
    indices = tuple([slice(None)] * (dims - 2) + [0, slice(0, 3)])
    mat[indices] = 0
""", """
def clear_gamma_point(mat):
    mat[..., 0, 0:3] = 0
"""],
}
W_CALC_FREQ = "self.freq_array = interp_freq"
W_CALC_MG = ["self.mode_gamma = [vdr_dv, gamma_i, gamma_i ** 2]", "self.mode_gamma = [vdr_dv, gamma_i, gamma_i * gamma_i]",
             "self.mode_gamma = [vdr_dv, gamma_i, numpy.square(gamma_i)]"]
W_MG_RETURN = "return (interp_freq, gamma_i, vdr_dv)"


def parse(src):
    import warnings
    with warnings.catch_warnings():
        warnings.simplefilter("ignore")      # invalid escape sequences in the docstrings
        return ast.parse(src)


def is_doc(s):
    return isinstance(s, ast.Expr) and isinstance(s.value, ast.Constant) and isinstance(s.value.value, str)


def norm_body(fn):
    return [ast.unparse(s) for s in fn.body if not is_doc(s)]


def alpha_body(fn):
    """(number of parameters, statements) with parameters and locally bound names renamed canonically"""
    import copy
    fn = copy.deepcopy(fn)
    order = [a.arg for a in fn.args.args]
    stores = sorted((n.lineno, n.col_offset, n.id) for n in ast.walk(fn)
                    if isinstance(n, ast.Name) and isinstance(n.ctx, ast.Store))
    for _, _, i in stores:
        if i not in order:
            order.append(i)
    ren = {n: "_v%d" % k for k, n in enumerate(order)}
    for n in ast.walk(fn):
        if isinstance(n, ast.Name) and n.id in ren:
            n.id = ren[n.id]
        elif isinstance(n, ast.arg) and n.arg in ren:
            n.arg = ren[n.arg]
    return len(fn.args.args), [ast.unparse(x) for x in fn.body if not is_doc(x)]


W_ALPHA = {k: [alpha_body(ast.parse(t.strip() + "\n").body[0]) for t in v] for k, v in W_FORMS.items()}


def arg_names(fn):
    a = fn.args
    if a.vararg or a.kwarg or a.kwonlyargs or a.posonlyargs or a.defaults or a.kw_defaults:
        bail(fn, "unsupported parameter list of %s" % fn.name)
    return [x.arg for x in a.args]


def deco_names(fn):
    out = []
    for d in fn.decorator_list:
        if not isinstance(d, ast.Name):
            bail(d, "unsupported decorator on %s" % fn.name)
        out.append(d.id)
    return out


# ------------------------------------------------------------------------------------------------
# terms
# ------------------------------------------------------------------------------------------------
# ('int', n) ('atom', name) ('na',) ('const', field) ('add'|'sub'|'mul'|'div', a, b) ('neg', a) ('exp', a)
# ('call', coq_name, level) ('avg', inner_term) ('opaque', name) ('guard', a)

def show(t, avg_names):
    k = t[0]
    if k == "int":
        return "(ofZ (%d))" % t[1] if t[1] < 0 else "(ofZ %d)" % t[1]
    if k == "atom":
        return t[1]
    if k == "na":
        return "(ofZ na)"
    if k == "const":
        return "(%s K)" % t[1]
    if k in ("add", "sub", "mul", "div"):
        op = {"add": "+", "sub": "-", "mul": "*", "div": "/"}[k]
        return "(%s %s %s)" % (show(t[1], avg_names), op, show(t[2], avg_names))
    if k == "neg":
        return "(- %s)" % show(t[1], avg_names)
    if k == "exp":
        return "(fexp %s)" % show(t[1], avg_names)
    if k == "call":
        return "(%s K na %s)" % (t[1], " ".join(PARAMS[t[2]]))
    if k == "avg":
        return avg_names[t[1]]
    if k == "opaque":
        return t[1]
    if k == "guard":
        return "(if is0 t then zero else %s)" % show(t[1], avg_names)
    raise AssertionError(t)


def collect_avgs(t, acc):
    if t[0] == "avg":
        if t[1] not in acc:
            acc.append(t[1])
        return
    for x in t[1:]:
        if isinstance(x, tuple):
            collect_avgs(x, acc)


def check_level(node, name, term, level):
    """every atom / generated function mentioned by `term` outside average_over_modes(...) must be available at
    `level` (the arguments of average_over_modes become separate per-mode functions)"""
    def walk(t):
        if t[0] == "avg":
            return
        lv = ATOM_LEVEL.get(t[1]) if t[0] == "atom" else t[2] if t[0] == "call" else None
        if t[0] == "guard" and not level_le("TV", level):
            bail(node, "%s: T = 0 guard in a per-%s quantity" % (name, level))
        if lv is not None and not level_le(lv, level):
            bail(node, "%s: a per-%s quantity (%s) is used in a per-%s context" % (name, lv, t[1], level))
        for x in t[1:]:
            if isinstance(x, tuple):
                walk(x)
    walk(term)


def contains(t, kinds):
    if t[0] in kinds:
        return True
    return any(isinstance(x, tuple) and contains(x, kinds) for x in t[1:])


def broadcast(node, a, b):
    n = max(len(a), len(b))
    pa = (None,) * (n - len(a)) + tuple(a)
    pb = (None,) * (n - len(b)) + tuple(b)
    out = []
    for x, y in zip(pa, pb):
        if x == y or y in (None, "1"):
            out.append(x if x is not None else y)
        elif x in (None, "1"):
            out.append(y)
        else:
            bail(node, "operands do not broadcast: axes %s against %s (axis %s meets axis %s)"
                 % (fmt_sig(a), fmt_sig(b), x, y))
    return tuple(out)


def fmt_sig(s):
    return "(" + ",".join(s) + ")"


# ------------------------------------------------------------------------------------------------
# the translator proper
# ------------------------------------------------------------------------------------------------

class Translator:
    def __init__(self, src, calc_src=None, mg_src=None):
        self.mod = parse(src)
        self.calc_src, self.mg_src = calc_src, mg_src
        self.classes = {}
        self.memo = {}          # (cls, prop) -> result dict or TranslateError
        self.stack = []
        self.inlined_helpers = set()

    # ---- module / class structure --------------------------------------------------------------
    def check_module(self):
        bound = {}

        def bind(name, node):
            bound.setdefault(name, []).append(node)

        for n in self.mod.body:
            if is_doc(n):
                continue
            if isinstance(n, ast.Import):
                for a in n.names:
                    bind(a.asname or a.name.split(".")[0], n)
            elif isinstance(n, ast.ImportFrom):
                for a in n.names:
                    if a.name == "*":
                        bail(n, "star import")
                    bind(a.asname or a.name, n)
            elif isinstance(n, ast.Assign) and len(n.targets) == 1 and isinstance(n.targets[0], ast.Name):
                bind(n.targets[0].id, n)
            elif isinstance(n, (ast.FunctionDef, ast.ClassDef)):
                bind(n.name, n)
            else:
                bail(n, "unsupported module-level statement")
        for name, want in IMPORTS.items():
            ns = bound.get(name, [])
            if len(ns) != 1 or ast.unparse(ns[0]) != want:
                raise TranslateError("%s: name `%s` must be bound exactly once, by `%s` (found: %s)"
                                     % (SRC, name, want, [ast.unparse(x).splitlines()[0] for x in ns]))
        for name, want in MODULE_CONSTS.items():
            ns = bound.get(name, [])
            if len(ns) != 1 or not isinstance(ns[0], ast.Assign) or ast.unparse(ns[0].value) != want:
                raise TranslateError("%s: unit constant `%s` is not the accepted expression `%s` (found: %s)"
                                     % (SRC, name, want, [ast.unparse(x) for x in ns]))
        # module-level functions (candidates for inlining): bound exactly once, by an undecorated def
        self.top = {n: ns[0] for n, ns in bound.items()
                    if len(ns) == 1 and isinstance(ns[0], ast.FunctionDef) and not ns[0].decorator_list}
        for name in ("average_over_modes", "clear_gamma_point"):
            if name not in self.top:
                raise TranslateError("%s: `%s` must be one undecorated module-level function" % (SRC, name))
        for name in ("average_over_modes", "clear_gamma_point", "ElasticModulus", LONG, OFFD):
            if len(bound.get(name, [])) != 1:
                raise TranslateError("%s: `%s` must be defined exactly once at module level" % (SRC, name))
        em = bound["ElasticModulus"][0]
        if not isinstance(em, ast.ClassDef) or em.bases or em.keywords or em.decorator_list or \
                [ast.unparse(s) for s in em.body if not is_doc(s)] not in ([], ["pass"]):
            bail(em, "base class ElasticModulus is not empty")
        for cname, base in ((LONG, "ElasticModulus"), (OFFD, LONG)):
            c = bound[cname][0]
            if not isinstance(c, ast.ClassDef):
                bail(c, "%s is not a class" % cname)
            if [ast.unparse(b) for b in c.bases] != [base] or c.keywords or c.decorator_list:
                bail(c, "class %s must derive from %s only, without decorators/metaclass" % (cname, base))
            members = {}
            for s in c.body:
                if is_doc(s):
                    continue
                if not isinstance(s, ast.FunctionDef):
                    bail(s, "unsupported statement in the body of class %s" % cname)
                if s.name in members:
                    bail(s, "member %s defined twice in class %s" % (s.name, cname))
                if s.name in INSTANCE_ATTRS:
                    bail(s, "class member shadows an instance attribute set in __init__")
                if s.name.startswith("__") and s.name.endswith("__") and s.name != "__init__":
                    bail(s, "special method in class %s" % cname)
                members[s.name] = s
            self.classes[cname] = members

    def resolve(self, cls, name):
        """MRO lookup: (FunctionDef, defining class) or (None, None)"""
        for c in ((OFFD, LONG) if cls == OFFD else (LONG,)):
            if name in self.classes[c]:
                return self.classes[c][name], c
        return None, None

    def expect_form(self, fn, key, what, decos):
        arg_names(fn)                      # no defaults / *args / keyword-only parameters
        got = alpha_body(fn)
        if got not in W_ALPHA[key]:
            raise TranslateError("%s:%d: %s differs from the accepted form(s) (compared up to renaming of locals)"
                                 "\n--- got\n%s\n--- accepted\n%s"
                                 % (SRC, fn.lineno, what, "\n".join(norm_body(fn)),
                                    "\n--- or\n".join(t.strip() for t in W_FORMS[key])))
        if deco_names(fn) not in decos:
            bail(fn, "%s: decorators must be one of %s" % (what, decos))

    def check_wiring(self):
        """template checks of everything the pointwise reading relies on but does not translate"""
        self.expect_form(self.top["average_over_modes"], "average_over_modes", "function average_over_modes", [[]])
        self.expect_form(self.top["clear_gamma_point"], "clear_gamma_point", "function clear_gamma_point", [[]])
        for cls in (LONG, OFFD):
            for name, key, decos in [("__init__", "__init__", [[]])] + \
                    [(n, n, [["property"], ["LazyProperty"]]) for n in ("v_array", "t_array", "freq_array", "q_weights")] + \
                    [("average_over_modes", "average_over_modes (method)", [[]])]:
                fn, _ = self.resolve(cls, name)
                if fn is None:
                    raise TranslateError("%s: %s has no member %s" % (SRC, cls, name))
                self.expect_form(fn, key, "%s.%s" % (cls, name), decos)
        if self.calc_src is not None:
            self.check_calculator()

    def check_calculator(self):
        """calculator.mode_gamma is [V dgamma/dV, gamma, gamma**2] and interpolate_modes returns
        (freq, gamma, V dgamma/dV) in this order"""
        cm = parse(self.calc_src)
        fns = [n for n in ast.walk(cm) if isinstance(n, ast.FunctionDef) and n.name == "_interpolate_modes"]
        if len(fns) != 1:
            raise TranslateError("%s: expected exactly one _interpolate_modes" % SRC_CALC)
        body = [s for s in fns[0].body if not is_doc(s)]
        ok = len(body) == 3 and isinstance(body[0], ast.Assign) and len(body[0].targets) == 1 and \
            ast.unparse(body[0].targets[0]) in ("(interp_freq, gamma_i, vdr_dv)", "interp_freq, gamma_i, vdr_dv") and \
            isinstance(body[0].value, ast.Call) and ast.unparse(body[0].value.func) == "interpolate_modes" and \
            ast.unparse(body[1]) == W_CALC_FREQ and ast.unparse(body[2]) in W_CALC_MG
        if ok and "numpy" in ast.unparse(body[2]):
            nb = [n for n in cm.body if (isinstance(n, (ast.Import, ast.ImportFrom)) and
                                         any((a.asname or a.name.split(".")[0]) == "numpy" for a in n.names)) or
                  (isinstance(n, (ast.FunctionDef, ast.ClassDef)) and n.name == "numpy") or
                  (isinstance(n, ast.Assign) and any(isinstance(t, ast.Name) and t.id == "numpy" for t in n.targets))]
            ok = len(nb) == 1 and ast.unparse(nb[0]) == "import numpy"
        if not ok:
            raise TranslateError("%s:%d: Calculator._interpolate_modes differs from the accepted form "
                                 "(freq, gamma_i, vdr_dv = interpolate_modes(...); %s; %s)\n--- got\n%s"
                                 % (SRC_CALC, fns[0].lineno, W_CALC_FREQ, " | ".join(W_CALC_MG),
                                    "\n".join(ast.unparse(s) for s in body)))
        imp = [n for n in cm.body if isinstance(n, ast.ImportFrom) and any(a.name == "interpolate_modes" for a in n.names)]
        if len(imp) != 1 or ast.unparse(imp[0]) != "from .mode_gamma import interpolate_modes":
            raise TranslateError("%s: interpolate_modes is not imported from .mode_gamma" % SRC_CALC)
        if self.mg_src is not None:
            mm = parse(self.mg_src)
            fs = [n for n in mm.body if isinstance(n, ast.FunctionDef) and n.name == "interpolate_modes"]
            if len(fs) != 1:
                raise TranslateError("%s: expected exactly one interpolate_modes" % SRC_MG)
            rets = [n for n in ast.walk(fs[0]) if isinstance(n, ast.Return)]
            if not rets or any(ast.unparse(r) != W_MG_RETURN for r in rets):
                raise TranslateError("%s:%d: interpolate_modes must `%s` (found %s)"
                                     % (SRC_MG, fs[0].lineno, W_MG_RETURN, [ast.unparse(r) for r in rets]))

    # ---- expressions ---------------------------------------------------------------------------
    def expr(self, e, st):
        """st: dict(cls, env, level, in_avg, grid (name of grid-level property or None))"""
        if isinstance(e, ast.Constant):
            v = e.value
            if type(v) is int:
                return Arr((), ("int", v), fresh=True)
            if type(v) is float and v == v and abs(v) != float("inf"):
                # a float literal is the correctly rounded value of its decimal p/q - the same double that the
                # (already accepted) integer division p / q yields; checked, not assumed
                from decimal import Decimal
                from fractions import Fraction
                fr = Fraction(Decimal(repr(v)))
                p, q = fr.numerator, fr.denominator
                if abs(p) < 2 ** 53 and q <= 10 ** 9 and p / q == v:
                    return Arr((), ("int", p) if q == 1 else ("div", ("int", p), ("int", q)), fresh=True)
            bail(e, "unsupported constant (only integers and short exact decimals)")
        if isinstance(e, ast.Name):
            if e.id in st["env"]:
                st["env"].setdefault("@reads", set()).add(e.id)
                return st["env"][e.id]
            if e.id == "h_div_k":
                return Arr((), ("const", "c_hdk"))
            bail(e, "unknown name")
        if isinstance(e, ast.Attribute):
            return self.attribute(e, st)
        if isinstance(e, ast.Tuple):
            return Tup([self.expr(x, st) for x in e.elts])
        if isinstance(e, ast.Subscript):
            return self.subscript(e, st)
        if isinstance(e, ast.UnaryOp):
            if isinstance(e.op, (ast.USub, ast.UAdd)):
                a = self.arr(e.operand, st)
                return Arr(a.sig, ("neg", a.term) if isinstance(e.op, ast.USub) else a.term, fresh=True)
            bail(e, "unsupported unary operator")
        if isinstance(e, ast.BinOp):
            return self.binop(e, st)
        if isinstance(e, ast.Call):
            return self.call(e, st)
        bail(e, "construct outside the translator's grammar")

    def arr(self, e, st):
        v = self.expr(e, st)
        if not isinstance(v, Arr):
            bail(e, "a tuple is used where an array/scalar is needed")
        return v

    def binop(self, e, st):
        if isinstance(e.op, ast.Pow):
            a = self.arr(e.left, st)
            r = e.right
            if not (isinstance(r, ast.Constant) and type(r.value) is int and 0 <= r.value <= 4):
                bail(e, "** only with a constant integer exponent 0..4")
            n = r.value
            if n == 0:
                return Arr(a.sig, ("int", 1), fresh=True)
            t = a.term
            for _ in range(n - 1):
                t = ("mul", t, a.term)
            return Arr(a.sig, t, fresh=True)
        ops = {ast.Add: "add", ast.Sub: "sub", ast.Mult: "mul", ast.Div: "div"}
        if type(e.op) not in ops:
            bail(e, "unsupported binary operator %s" % type(e.op).__name__)
        a = self.arr(e.left, st)
        b = self.arr(e.right, st)
        return Arr(broadcast(e, a.sig, b.sig), (ops[type(e.op)], a.term, b.term), fresh=True)

    def attribute(self, e, st):
        src = ast.unparse(e)
        if src.startswith("self.") and not st.get("has_self", True):
            bail(e, "`self` inside a module-level function")
        if src in CONST_EXPR:
            return Arr((), ("const", CONST_EXPR[src]))
        if src in ATOMS:
            name, sig = ATOMS[src]
            return Arr(sig, ("atom", name))
        if src in SCALARS:
            return Arr((), ("na",))
        if src == "self.e":
            return Tup([Arr(V_, ("atom", "ei")), Arr(V_, ("atom", "ej"))])
        if src == "self.calculator.mode_gamma":
            g = ("atom", "g")
            return Tup([Arr(VQM, ("atom", "gv")), Arr(VQM, g), Arr(VQM, ("mul", g, g))])
        if isinstance(e.value, ast.Name) and e.value.id == "self":
            return self.self_member(e, e.attr, st)
        bail(e, "unknown attribute chain")

    def callable_of(self, call, st):
        """the FunctionDef a call in the source refers to, if it is one the translator may inline:
        an undecorated module-level function (bound once) or an undecorated method found through the MRO"""
        f = call.func
        if isinstance(f, ast.Name):
            if f.id in st["env"]:
                bail(call, "call of a local name")
            if f.id in ("average_over_modes", "clear_gamma_point") or f.id not in self.top:
                bail(call, "call outside the translator's grammar")
            return self.top[f.id], False, "function %s" % f.id
        if isinstance(f, ast.Attribute) and isinstance(f.value, ast.Name) and f.value.id == "self":
            if not st.get("has_self", True):
                bail(call, "`self` inside a module-level function")
            if f.attr in POINTWISE or f.attr in GRID or f.attr in INSTANCE_ATTRS or f.attr == "average_over_modes":
                bail(call, "call outside the translator's grammar")
            fn, owner = self.resolve(st["cls"], f.attr)
            if fn is None:
                bail(call, "unknown method of self")
            if fn.decorator_list:
                bail(call, "call of a decorated member")
            return fn, True, "%s.%s (defined in %s)" % (PREFIX[st["cls"]], f.attr, owner)
        bail(call, "call outside the translator's grammar")

    def inline(self, call, st, proc):
        """inline a helper function / method whose body is inside the grammar.
        proc=False: expression position; arguments are passed by value (the callee may not assign into them) and
                    the body must end in `return expr`.
        proc=True : statement position `f(a, ...)`; an argument that is a bare local name is passed by REFERENCE:
                    the only side effect the grammar has - the T = 0 guard - then acts on the caller's local,
                    under the same conditions (fresh, not yet used) as if it were written in place.  The body
                    must not return a value."""
        fn, is_method, what = self.callable_of(call, st)
        params = arg_names(fn)
        if is_method:
            if not params or params[0] != "self":
                bail(fn, "method without self")
            params = params[1:]
        if call.keywords or len(call.args) != len(params) or any(isinstance(a, ast.Starred) for a in call.args):
            bail(call, "helper call must pass exactly the positional parameters")
        key = ("inline", st["cls"] if is_method else None, fn.name)
        if key in self.stack:
            bail(call, "recursive helper")
        env2, alias = {}, {}
        for p_, a in zip(params, call.args):
            if p_ in RESERVED or p_ in env2:
                bail(fn, "parameter name %s not supported" % p_)
            if proc and isinstance(a, ast.Name) and a.id in st["env"]:
                if any(al[1] == a.id for al in alias.values()):
                    bail(call, "the same local passed twice")
                env2[p_] = st["env"][a.id]
                alias[p_] = (st["env"], a.id)
            else:
                env2[p_] = unfresh(self.expr(a, st))
        env2["@alias"] = alias
        self.stack.append(key)
        try:
            v = self.body(fn, dict(st, env=env2, helper=True, has_self=is_method), proc=proc)
        finally:
            self.stack.pop()
        self.inlined_helpers.add("%s, line %d" % (what, fn.lineno))
        return None if proc else unfresh(v)

    def self_member(self, e, name, st):
        cls = st["cls"]
        if name in POINTWISE:
            res = self.translate_pointwise(cls, name)
            if isinstance(res, TranslateError):
                bail(e, "depends on %s.%s which could not be translated [%s]" % (cls, name, res))
            spec = POINTWISE[name]
            # (a local may hold a per-mode array that is only used inside average_over_modes later: the level of
            #  every emitted function is checked on its final term, see check_level)

            def mk(names, shape):
                if isinstance(names, tuple):
                    return Tup([mk(n, s) for n, s in zip(names, shape)])
                return Arr(shape, ("call", "%s_%s" % (PREFIX[cls], names), spec["level"]))
            return mk(spec["names"], spec["shape"])
        if name in GRID:
            allowed = dict(GRID[st["grid"]]["refs"]) if st.get("grid") else {}
            if name not in allowed or st["in_avg"] or st.get("helper"):
                bail(e, "reference to the grid-level property %s is not supported here" % name)
            return Arr(GRID[name]["sig"], ("opaque", allowed[name]))
        fn, owner = self.resolve(cls, name)
        if fn is None:
            bail(e, "unknown member of self")
        if deco_names(fn) not in (["LazyProperty"], ["property"]):
            bail(e, "member %s is not a @LazyProperty/@property (methods cannot be translated)" % name)
        if arg_names(fn) != ["self"]:
            bail(fn, "helper property with parameters")
        key = (cls, name)
        if key in self.stack:
            bail(e, "cyclic property definition")
        self.stack.append(key)
        try:
            st2 = dict(st, env={}, helper=True)
            v = self.body(fn, st2)
        finally:
            self.stack.pop()
        self.inlined_helpers.add("%s.%s (defined in %s, line %d)" % (PREFIX[cls], name, owner, fn.lineno))
        return unfresh(v)

    def subscript(self, e, st):
        v = self.expr(e.value, st)
        sl = e.slice
        if isinstance(v, Tup):
            if isinstance(sl, ast.Constant) and type(sl.value) is int and 0 <= sl.value < len(v.items):
                return v.items[sl.value]
            bail(e, "a tuple can only be indexed by a constant in range")
        elts = sl.elts if isinstance(sl, ast.Tuple) else [sl]
        sig, src = [], list(v.sig)
        for x in elts:
            if isinstance(x, ast.Name) and x.id == "nax":
                sig.append("1")
            elif isinstance(x, ast.Slice) and x.lower is None and x.upper is None and x.step is None:
                if not src:
                    bail(e, "too many `:` for an array of axes %s" % fmt_sig(v.sig))
                sig.append(src.pop(0))
            else:
                bail(e, "array subscript other than `nax` / `:` (integer, mask or range index)")
        if src:
            bail(e, "subscript must spell out one `:` per axis of %s" % fmt_sig(v.sig))
        return Arr(sig, v.term, fresh=False)

    def call(self, e, st):
        f = ast.unparse(e.func)
        if f == "numpy.exp":
            if len(e.args) != 1 or e.keywords:
                bail(e, "numpy.exp takes one positional argument")
            a = self.arr(e.args[0], st)
            return Arr(a.sig, ("exp", a.term), fresh=True)
        if f in ("numpy.square", "numpy.negative"):
            if len(e.args) != 1 or e.keywords:
                bail(e, "%s takes one positional argument (no out=/where=)" % f)
            a = self.arr(e.args[0], st)
            return Arr(a.sig, ("mul", a.term, a.term) if f == "numpy.square" else ("neg", a.term), fresh=True)
        if f in ("numpy.add", "numpy.subtract", "numpy.multiply", "numpy.divide", "numpy.true_divide"):
            if len(e.args) != 2 or e.keywords:
                bail(e, "%s takes two positional arguments (no out=/where=)" % f)
            a, b = self.arr(e.args[0], st), self.arr(e.args[1], st)
            op = {"add": "add", "subtract": "sub", "multiply": "mul", "divide": "div", "true_divide": "div"}[f[6:]]
            return Arr(broadcast(e, a.sig, b.sig), (op, a.term, b.term), fresh=True)
        if f == "numpy.prod":
            if len(e.args) != 1 or len(e.keywords) != 1 or e.keywords[0].arg != "axis" or \
                    ast.unparse(e.keywords[0].value) != "0":
                bail(e, "numpy.prod only as numpy.prod(<tuple of arrays>, axis=0)")
            v = self.expr(e.args[0], st)
            if not isinstance(v, Tup) or not v.items or not all(isinstance(x, Arr) for x in v.items) or \
                    len({x.sig for x in v.items}) != 1:
                bail(e, "numpy.prod(..., axis=0) only over a tuple of arrays with equal axes")
            t = v.items[0].term
            for x in v.items[1:]:
                t = ("mul", t, x.term)
            return Arr(v.items[0].sig, t, fresh=True)
        if f == "self.average_over_modes":
            if len(e.args) != 1 or e.keywords:
                bail(e, "average_over_modes takes one positional argument")
            if st["in_avg"]:
                bail(e, "nested average_over_modes")
            if not st.get("grid"):
                bail(e, "average_over_modes outside a grid-level property")
            fn, _ = self.resolve(st["cls"], "average_over_modes")
            if fn is None or alpha_body(fn) not in W_ALPHA["average_over_modes (method)"] or fn.decorator_list:
                bail(e, "self.average_over_modes is not the accepted wrapper")
            a = self.arr(e.args[0], dict(st, level="M", in_avg=True))
            if a.sig[-2:] != ("q", "m"):
                bail(e, "argument of average_over_modes has axes %s, the last two must be (q,m)" % fmt_sig(a.sig))
            if contains(a.term, ("guard", "opaque")):
                bail(e, "unsupported term inside average_over_modes")
            return Arr(a.sig[:-2], ("avg", a.term), fresh=True)
        if f.startswith("numpy.") or f.startswith("units."):
            bail(e, "call outside the translator's grammar")
        return self.inline(e, st, proc=False)

    # ---- statements ----------------------------------------------------------------------------
    def body(self, fn, st, proc=False):
        stmts = [s for s in fn.body if not is_doc(s)]
        env = st["env"]
        for i, s in enumerate(stmts):
            if isinstance(s, ast.Return):
                if proc:
                    bail(s, "a helper called as a statement must not return a value")
                if i != len(stmts) - 1:
                    bail(s, "return is not the last statement")
                if s.value is None:
                    bail(s, "return without value")
                return self.expr(s.value, st)
            if isinstance(s, ast.Assign):
                if len(s.targets) != 1:
                    bail(s, "chained assignment")
                tg = s.targets[0]
                if isinstance(tg, ast.Name):
                    if tg.id in env:
                        bail(s, "local name assigned twice")
                    if tg.id in RESERVED:
                        bail(s, "local name shadows a name the translation relies on")
                    if isinstance(s.value, ast.Name):
                        bail(s, "aliasing assignment of a bare name")
                    env[tg.id] = self.expr(s.value, st)
                    continue
                if isinstance(tg, ast.Tuple):
                    # a, b = x, y : the right-hand side is evaluated completely before any name is bound
                    names = [x.id if isinstance(x, ast.Name) else None for x in tg.elts]
                    if None in names or len(set(names)) != len(names):
                        bail(s, "tuple assignment to something other than distinct names")
                    for n in names:
                        if n in env:
                            bail(s, "local name assigned twice")
                        if n in RESERVED:
                            bail(s, "local name shadows a name the translation relies on")
                    if isinstance(s.value, ast.Tuple) and any(isinstance(x, ast.Name) for x in s.value.elts):
                        bail(s, "aliasing assignment of a bare name")
                    v = self.expr(s.value, st)
                    if not isinstance(v, Tup) or len(v.items) != len(names):
                        bail(s, "tuple assignment needs a tuple of %d components on the right" % len(names))
                    for n, x in zip(names, v.items):
                        env[n] = x
                    continue
                if isinstance(tg, ast.Subscript):
                    self.guard(s, tg, st)
                    continue
                bail(s, "unsupported assignment target")
            if isinstance(s, ast.Expr) and isinstance(s.value, ast.Call):
                self.inline(s.value, st, proc=True)
                continue
            bail(s, "unsupported statement form")
        if proc:
            return None
        bail(fn, "no return statement in")

    def guard(self, s, tg, st):
        """NAME[numpy.where(self.t_array == 0), :] = 0"""
        env = st["env"]
        if not (isinstance(tg.value, ast.Name) and tg.value.id in env):
            bail(s, "in-place assignment to something that is not a local array")
        a = env[tg.value.id]
        if not (isinstance(a, Arr) and a.fresh):
            bail(s, "in-place assignment to an array that is not a fresh local (it may alias a cached property)")
        if was_read(env, tg.value.id):
            bail(s, "in-place assignment to a local that was already used (a view or alias of it may exist)")
        if a.sig != TV:
            bail(s, "the T = 0 guard is only understood on an array of axes (T,V), not %s" % fmt_sig(a.sig))
        sl = tg.slice
        ok = isinstance(sl, ast.Tuple) and len(sl.elts) == 2 and isinstance(sl.elts[1], ast.Slice) and \
            sl.elts[1].lower is None and sl.elts[1].upper is None and sl.elts[1].step is None
        # row selector: numpy.where(mask) (integer row indices) or the boolean mask itself - both select exactly
        # the rows of axis 0 (T) where the mask holds
        ok = ok and self.is_t0_mask(sl.elts[0], st, 0)
        ok = ok and isinstance(s.value, ast.Constant) and type(s.value.value) in (int, float) and s.value.value == 0
        if not ok:
            bail(s, "in-place assignment other than `NAME[numpy.where(self.t_array == 0), :] = 0` / "
                    "`NAME[self.t_array == 0, :] = 0` (or a property returning that mask)")
        set_local(env, tg.value.id, Arr(a.sig, ("guard", a.term), fresh=True))

    def is_t0_mask(self, w, st, depth):
        """does w denote the boolean array (self.t_array == 0) of axes (T), or numpy.where of it?
        Accepted: the comparison itself; numpy.where(<mask>) ; self.<property> whose whole body is `return <mask>`
        (a pure boolean expression of t_array: cached or not, nothing in the grammar can modify it)"""
        if depth > 4:
            return False
        if isinstance(w, ast.Call) and ast.unparse(w.func) == "numpy.where" and len(w.args) == 1 and not w.keywords:
            return depth == 0 and self.is_t0_mask(w.args[0], st, depth + 1)
        if isinstance(w, ast.Compare) and len(w.ops) == 1 and isinstance(w.ops[0], ast.Eq):
            lhs = self.arr(w.left, st)
            r = w.comparators[0]
            return lhs.sig == ("T",) and lhs.term == ("atom", "t") and isinstance(r, ast.Constant) and \
                type(r.value) in (int, float) and r.value == 0
        if isinstance(w, ast.Attribute) and isinstance(w.value, ast.Name) and w.value.id == "self" and \
                st.get("has_self", True) and w.attr not in POINTWISE and w.attr not in GRID and \
                w.attr not in INSTANCE_ATTRS:
            fn, owner = self.resolve(st["cls"], w.attr)
            if fn is None or deco_names(fn) not in (["LazyProperty"], ["property"]) or arg_names(fn) != ["self"]:
                return False
            stmts = [x for x in fn.body if not is_doc(x)]
            if len(stmts) == 1 and isinstance(stmts[0], ast.Return) and stmts[0].value is not None and \
                    self.is_t0_mask(stmts[0].value, dict(st, env={}), depth + 1):
                self.inlined_helpers.add("%s.%s (mask property, defined in %s), line %d"
                                         % (PREFIX[st["cls"]], w.attr, owner, fn.lineno))
                return True
        return False

    # ---- properties ----------------------------------------------------------------------------
    def member_fn(self, cls, name):
        fn, owner = self.resolve(cls, name)
        if fn is None:
            raise TranslateError("%s: %s has no member %s" % (SRC, cls, name))
        if deco_names(fn) not in (["LazyProperty"], ["property"]):
            bail(fn, "%s must be a @LazyProperty/@property" % name)
        if arg_names(fn) != ["self"]:
            bail(fn, "%s must take only self" % name)
        return fn, owner

    def translate_pointwise(self, cls, name):
        key = (cls, name)
        if key in self.memo:
            return self.memo[key]
        if key in self.stack:
            raise TranslateError("%s: cyclic definition of %s" % (SRC, name))
        self.stack.append(key)
        try:
            spec = POINTWISE[name]
            fn, owner = self.member_fn(cls, name)
            st = dict(cls=cls, env={}, level=spec["level"], in_avg=False, grid=None)
            v = self.body(fn, st)
            defs = []

            def walk(v, names, shape, path):
                if isinstance(names, tuple):
                    if not isinstance(v, Tup) or len(v.items) != len(names):
                        bail(fn, "%s%s must be a tuple of %d components" % (name, path, len(names)))
                    for i, (n, s) in enumerate(zip(names, shape)):
                        walk(v.items[i], n, s, path + "[%d]" % i)
                    return
                if not isinstance(v, Arr):
                    bail(fn, "%s%s must be an array" % (name, path))
                if v.sig != shape:
                    bail(fn, "%s%s has axes %s, expected %s" % (name, path, fmt_sig(v.sig), fmt_sig(shape)))
                if contains(v.term, ("avg", "guard", "opaque")):
                    bail(fn, "%s%s: mode average / guard in a per-mode quantity" % (name, path))
                check_level(fn, name + path, v.term, spec["level"])
                defs.append(("%s_%s" % (PREFIX[cls], names), spec["level"], [], v.term))
            walk(v, spec["names"], spec["shape"], "")
            res = dict(defs=defs, owner=owner, line=fn.lineno)
        except TranslateError as ex:
            res = ex
        finally:
            self.stack.pop()
        self.memo[key] = res
        return res

    def translate_grid(self, cls, name):
        key = (cls, name)
        if key in self.memo:
            return self.memo[key]
        try:
            spec = GRID[name]
            fn, owner = self.member_fn(cls, name)
            st = dict(cls=cls, env={}, level=spec["level"], in_avg=False, grid=name)
            v = self.body(fn, st)
            if not isinstance(v, Arr):
                bail(fn, "%s must be an array" % name)
            if v.sig != spec["sig"]:
                bail(fn, "%s has axes %s, expected %s" % (name, fmt_sig(v.sig), fmt_sig(spec["sig"])))
            avgs = []
            collect_avgs(v.term, avgs)
            if len(avgs) != spec["navg"]:
                bail(fn, "%s: the tie expects %d distinct mode average(s), the code has %d"
                     % (name, spec["navg"], len(avgs)))
            check_level(fn, name, v.term, spec["level"])
            p = "%s_%s" % (PREFIX[cls], spec["name"])
            defs = []
            avg_names = {}
            for i, a in enumerate(avgs):
                defs.append(("%s_inner%d" % (p, i + 1), "M", [], a))
                avg_names[a] = "a%d" % (i + 1)
            extra = [r[1] for r in spec["refs"]] + ["a%d" % (i + 1) for i in range(len(avgs))]
            defs.append(("%s_outer" % p, spec["level"], extra, v.term, avg_names))
            res = dict(defs=defs, owner=owner, line=fn.lineno)
        except TranslateError as ex:
            res = ex
        self.memo[key] = res
        return res


def was_read(env, name):
    if name in env.get("@reads", ()):
        return True
    al = env.get("@alias", {}).get(name)
    return bool(al) and was_read(al[0], al[1])


def set_local(env, name, val):
    env[name] = val
    al = env.get("@alias", {}).get(name)
    if al:
        set_local(al[0], al[1], val)


def unfresh(v):
    if isinstance(v, Tup):
        return Tup([unfresh(x) for x in v.items])
    return Arr(v.sig, v.term, fresh=False)


def emit_def(d):
    name, level, extra, term = d[0], d[1], d[2], d[3]
    avg_names = d[4] if len(d) > 4 else {}
    ps = "(K : @consts F) (na : Z) (%s : F)" % " ".join(PARAMS[level])
    if extra:
        ps += " (%s : F)" % " ".join(extra)
    return "  Definition %s %s : F :=\n    %s." % (name, ps, show(term, avg_names))


GROUP_OF = {"prefactors": "prefactors", "mode_gamma": "mode_gamma", "Q": "Q", "Q1": "Q1", "Q2": "Q2",
            "zero_point_contribution": "zero_point", "thermal_contribution": "thermal",
            "value_isothermal": "isothermal", "isothermal_to_adiabatic": "gap", "value_adiabatic": "adiabatic"}
GROUPS = ["wiring", "prefactors", "mode_gamma", "Q", "Q1", "Q2", "zero_point", "thermal", "isothermal", "gap",
          "adiabatic"]


def translate(src, calc_src=None, mg_src=None):
    """returns dict(gen=<text of Gen_nonshear.v>, errors={group: [messages]}, defined=[names],
    helpers=[...]).  A structural problem of the module (unknown module-level statement, class layout)
    raises TranslateError: nothing can be trusted then."""
    tr = Translator(src, calc_src, mg_src)
    tr.check_module()
    errors = {}
    try:
        tr.check_wiring()
    except TranslateError as ex:
        errors.setdefault("wiring", []).append(str(ex))
    out = ["(* GENERATED from %s by tools/translate_nonshear.py - do not edit.\n"
           "   Pointwise scalar reading of the two contribution classes: L_* = an instance of the Longitudinal\n"
           "   class, O_* = an instance of the OffDiagonal class (members it does not override are inherited).\n"
           "   *_inner<k> = per-mode argument of the k-th distinct average_over_modes(...) of a property,\n"
           "   *_outer = the property as a function of the grid point and of these mode averages a<k>. *)" % SRC,
           "From Coq Require Import ZArith.", "From Cij Require Import Ops NonShearModel.", "",
           "Section Gen.", "  Context {F : Type} {OF : Ops F}.", "  Local Open Scope ops_scope.", ""]
    defined = []
    for cls in (LONG, OFFD):
        out.append("  (* ---- instance of %s ---- *)" % cls)
        for name in ("prefactors", "mode_gamma", "Q", "Q1", "Q2", "zero_point_contribution", "thermal_contribution",
                     "value_isothermal", "isothermal_to_adiabatic", "value_adiabatic"):
            res = tr.translate_pointwise(cls, name) if name in POINTWISE else tr.translate_grid(cls, name)
            if isinstance(res, TranslateError):
                errors.setdefault(GROUP_OF[name], []).append("[%s instance] %s" % (PREFIX[cls], res))
                out.append("  (* %s: NOT TRANSLATED *)" % name)
                continue
            out.append("  (* %s  (source: class %s, line %d) *)" % (name, res["owner"], res["line"]))
            for d in res["defs"]:
                out.append(emit_def(d))
                defined.append(d[0])
        out.append("")
    out.append("End Gen.")
    if defined:
        out.append("\n(* the tie proofs unfold the generated functions with [autounfold with gen_nonshear] *)")
        out.append("Create HintDb gen_nonshear.")
        out.append("#[export] Hint Unfold\n  %s : gen_nonshear." % "\n  ".join(
            " ".join(defined[i:i + 8]) for i in range(0, len(defined), 8)))
    return dict(gen="\n".join(out) + "\n", errors=errors, defined=defined, helpers=sorted(tr.inlined_helpers))


def translate_repo(repo):
    from pathlib import Path
    repo = Path(repo)
    return translate((repo / SRC).read_text(), (repo / SRC_CALC).read_text(), (repo / SRC_MG).read_text())


if __name__ == "__main__":
    import sys
    r = translate_repo(sys.argv[1] if len(sys.argv) > 1 else "/repo")
    print(r["gen"])
    for g, msgs in r["errors"].items():
        for m in msgs:
            print("ERROR[%s] %s" % (g, m), file=sys.stderr)
    if r["helpers"]:
        print("inlined helpers: %s" % r["helpers"], file=sys.stderr)
