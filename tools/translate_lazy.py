"""Fail-closed AST analysis of cij's lazily evaluated properties  ->  Gen_lazy.v  (C14 static tie).

Python `ast` only: nothing under <repo>/cij is imported or executed.

PRODUCERS  every method decorated @LazyProperty / @lazy_property.LazyProperty / @functools.cached_property ("lazy")
  or @property ("property").  One graph node per (instance class, producer name): inherited producers are
  re-instantiated for every subclass and `self.x` is resolved along the MRO of the instance class.

DEPENDENCIES of a producer = the producers it reads
  * `self.<name>` directly, and through everything it calls: helper methods, package functions, classmethods,
    constructors, lambdas / nested functions (inlined transitively), `__getattr__` fallbacks (analysed once per
    attribute name, `getattr(obj, name)` with the name substituted);
  * through other objects (`self.calculator.x`, `self.qha_calculator.volume_base.x`): the class of an attribute is
    INFERRED from the constructors (`self.a = Cls(...)`, `self.a = <annotated parameter>`, `self.a = self.b.c`),
    parameter / return annotations and NamedTuple field annotations; FIELD_TYPES asserts what cannot be inferred and
    every entry is compared with the text of its assignment.  A field assigned from a producer (`self.modulus_adiabatic
    = self._full_modulus.modulus_adiabatic`) carries that producer as dependency;
  * fail closed: an attribute whose name is a producer name somewhere, read on an object of unknown class, becomes a
    "by-name" edge to EVERY producer of that name; operator.attrgetter("a") / methodcaller("m") are such reads too.
    By-name edges are kept unless they lie on a cycle; those on a cycle are given up one cycle at a time and listed
    (report["by_name_reads_dropped"], named in the obligation).  What leaves the package (qha's calculator, attributes
    assigned from outside the class) is a leaf `external:...` in the report.

PURITY  (class Fn) of every producer body and of everything it calls ("producer phase"); flow-insensitive.
  value kinds   FRESH    exclusively owned, deep: constants, BinOp/UnaryOp/Compare results (numpy arithmetic), numpy
                         constructors and ufuncs, numpy.copy/array, .astype()/.flatten()/..., displays and comprehensions of
                         fresh elements, .copy() of a value annotated as array/number, subscripts/attributes of FRESH
                SHALLOW  owned container whose elements may be shared: displays / comprehensions / list() / sorted() /
                         dict() of non-fresh elements, .copy() of anything else, copy.copy, new package objects
                NONFRESH everything else: attribute reads, LazyProperty values (cached, shared), parameters, globals,
                         views of those (numpy view functions, .T, .reshape(), [..]), results of unknown calls,
                         pint Quantity(x) (wraps x), values of plain properties unless their body returns FRESH
  statements    Return Expr Assign AnnAssign AugAssign For While If With Try Raise Assert Pass Break Continue Delete
                Import ImportFrom, nested FunctionDef;  Global / Nonlocal: impure;  others: undecided
  mutation      `x[..] = v`, `del x[..]`, `x += v`, x.<mutating method>(), numpy in-place functions (put, copyto,
                fill_diagonal, ndarray.sort, ufunc.at ...), `out=x`: x must be FRESH or SHALLOW;
                `x[..] += v` (mutates the element): x must be FRESH (SHALLOW: undecided);
                passing x to a callee parameter that the callee mutates (summaries: parameter -> depth, computed to a
                fixpoint over the whole package): same requirement;  mutation of a function's own parameter is recorded
                in its summary and charged to the callers;  anything reachable from `self`: impure
  generators    a generator function is analysed like a function: reads, calls and findings of its body are charged to the
                function that creates the iterator (findings do not depend on when the body runs); the result is an owned
                iterator whose elements have the kinds of the yielded values; a generator that mutates its PARAMETER
                is undecided (the argument may have lost its freshness when the body runs)
  one-shot      generators, generator expressions, zip/map/filter/enumerate/reversed/iter, itertools.*: consuming them
                is harmless while they are local, but a LazyProperty / lru_cache that RETURNS one is impure
  functions as  a package function or method that mutates its parameter and is used as a value (map(f, ..), partial(f),
  values        key=f) is undecided: its later calls are not tracked
  impure        assignment to `self.<attr>` outside __init__ (constructors called from a producer may initialise THEIR
                object), attribute assignment on any non-local object, setattr, global / nonlocal
  undecided     external callee not in the tables, nondeterministic callee (random, time, os ...), input/output builtins,
                method of unknown name on a value of unknown class, dynamic getattr, generators, unknown decorators,
                escaping closures that mutate their argument, syntax outside the grammar, classifier errors,
                producers the scan could not place (nested classes, property setters, duplicate class names)
  An undecided finding is a failed obligation unless (function, statement text) is in ALLOW with a justification.
  An impure finding cannot be allow-listed.

`analyse(repo)` returns the report (dict); `gen_coq(report, lib)` the text of Gen_lazy.v: the graph as one association
list per class, names, and a rank found by topological sorting.  For a cyclic graph the rank is the identity, which
Coq rejects (rank_ok = false), and the cycle is in report["cycle"].
"""
import ast
import builtins as _builtins
import json
import sys
import warnings
from pathlib import Path

FRESH, SHALLOW, NONFRESH = 2, 1, 0
KIND = {2: "fresh", 1: "shallow", 0: "non-fresh"}

# ---------------------------------------------------------------------------------------------
# tables (the trusted part of the classifier)
# ---------------------------------------------------------------------------------------------

# undecided findings accepted with a justification: (function/producer qualname, normalised source of the statement)
ALLOW = {
}

# what cannot be inferred from constructors / annotations: (class, attribute) -> class names.  Every entry is
# checked against the text of its assignment (fail closed: a changed constructor voids the entry).
FIELD_TYPES = {
    ("QHAPressureBaseInterface", "calculator"): (["QHACalculator"], "self.calculator = calculator",
                                                 "constructed only by QHACalculatorAdapter.__init__ with its QHACalculator"),
    ("ElasticModulusWorker", "calculator"): (["Calculator"], "self.calculator = calculator",
                                             "dead code (its import in calculator.py is commented out, never instantiated); the "
                                             "constructor mirrors FullThermalElasticModulus.__init__, which is annotated"),
}

LAZY_DECOS = {"lazy_property.LazyProperty": "LazyProperty", "functools.cached_property": "cached_property",
              "functools.lru_cache": "lru_cache", "functools.cache": "cache"}
PLAIN_DECOS = {"builtin.property": "property"}
OTHER_DECOS = {"builtin.staticmethod": "staticmethod", "builtin.classmethod": "classmethod"}

NUMPY_INPLACE = {"put", "place", "putmask", "copyto", "fill_diagonal", "put_along_axis", "ndarray.sort", "ndarray.fill",
                 "ndarray.put", "ndarray.resize", "ndarray.partition", "ndarray.itemset", "ndarray.setflags",
                 "ndarray.byteswap", "ndarray.__setitem__", "ndarray.__iadd__", "ndarray.__isub__", "ndarray.__imul__",
                 "ndarray.__itruediv__", "ndarray.setfield"}
NUMPY_VIEW = {"asarray", "asanyarray", "ascontiguousarray", "asfortranarray", "atleast_1d", "atleast_2d", "atleast_3d",
              "broadcast_to", "broadcast_arrays", "diag", "diagonal", "einsum", "expand_dims", "flip", "fliplr", "flipud",
              "moveaxis", "ravel", "real", "imag", "reshape", "rollaxis", "rot90", "squeeze", "swapaxes", "transpose",
              "split", "array_split", "hsplit", "vsplit", "dsplit", "require", "nan_to_num", "trim_zeros",
              "lib.stride_tricks.as_strided", "lib.stride_tricks.sliding_window_view", "ndarray.view", "ndarray.reshape",
              "ndarray.ravel", "ndarray.transpose", "ndarray.squeeze", "ndarray.swapaxes", "ndarray.diagonal"}
# external callees assumed deterministic and not to mutate their arguments (prefix match on the dotted name)
EXT_PURE_PREFIX = ("numpy.", "scipy.", "itertools.", "math.", "re.", "operator.", "collections.", "fractions.",
                   "qha.v2p.v2p", "qha.grid_interpolation.calculate_eulerian_strain", "qha.tools.",
                   "qha.fitting.polynomial_least_square_fitting", "copy.copy", "copy.deepcopy", "json.dumps", "pint:",
                   "typing.", "functools.partial", "functools.reduce", "enum.", "pathlib.Path", "networkx.")
EXT_NONDET_PREFIX = ("numpy.random.", "random.", "time.", "os.", "uuid.", "datetime.")
EXT_LOG_PREFIX = ("logging.",)
LOG_METHODS = {"debug", "info", "warning", "warn", "error", "critical", "exception", "log"}

# methods on values of unknown class
MUT_METHODS = {"sort", "append", "extend", "insert", "remove", "pop", "popitem", "clear", "update", "setdefault", "add",
               "discard", "reverse", "fill", "resize", "put", "itemset", "setflags", "partition", "byteswap", "ito",
               "ito_base_units", "ito_reduced_units", "ito_root_units", "setfield", "intersection_update",
               "difference_update", "symmetric_difference_update", "move_to_end", "appendleft", "popleft", "rotate",
               "__setitem__", "__delitem__", "__iadd__", "__isub__", "__imul__", "__itruediv__", "write", "writelines",
               "seek", "truncate", "close", "flush", "set_xlim", "set_xlabel"}
VIEW_METHODS = {"reshape", "ravel", "view", "squeeze", "swapaxes", "transpose", "diagonal", "keys", "values", "items",
                "get", "to", "to_base_units", "m_as", "__getitem__"}
VIEW_ATTRS = {"T", "flat", "real", "imag", "magnitude", "m", "data", "base"}
FRESH_METHODS = {"astype", "flatten", "tolist", "sum", "mean", "max", "min", "argmin", "argmax", "any", "all", "dot",
                 "conj", "round", "cumsum", "cumprod", "std", "var", "prod", "nonzero", "format", "join", "split",
                 "strip", "lstrip", "rstrip", "startswith", "endswith", "index", "count", "group", "groups", "lower",
                 "upper", "replace", "encode", "decode", "item", "is_integer", "total", "most_common", "clip", "repeat",
                 "trace", "argsort", "searchsorted", "tobytes", "isdigit", "zfill", "title", "find", "splitlines",
                 "is_file", "exists", "resolve", "bit_length", "union", "intersection", "difference", "issubset"}
SHALLOW_METHODS = {"copy"}

PURE_BUILTINS = {"abs", "all", "any", "bool", "float", "int", "len", "sum", "round", "str", "repr", "hash", "isinstance",
                 "issubclass", "type", "range", "id", "callable", "slice", "complex", "divmod", "pow", "ord", "chr",
                 "format", "bytes", "frozenset", "hasattr", "object"}
CONTAINER_BUILTINS = {"list", "tuple", "set", "sorted", "dict", "enumerate", "zip", "map", "filter", "reversed", "iter"}
ELEMENT_BUILTINS = {"max", "min", "next"}
IMPURE_BUILTINS = {"setattr", "delattr", "exec", "eval", "globals", "vars", "locals", "__import__", "input", "open",
                   "print", "compile", "breakpoint"}
DATA_ANN = {"int", "float", "str", "bool", "complex", "bytes", "numpy.ndarray", "ndarray", "Path", "pathlib.Path"}
CONT_ANN = {"dict", "tuple", "list", "set", "Tuple", "Dict", "OrderedDict", "callable", "Callable", "tuple[...]"}
LIST_ANN = {"List", "Iterable", "Sequence", "Iterator", "list", "Set", "FrozenSet"}

DATA = "<data>"
CONT = "<container>"


class Ty:
    """classes: frozenset of class keys (package classes, DATA, CONT); elem: Ty of the elements or None"""
    __slots__ = ("classes", "elem")

    def __init__(self, classes, elem=None):
        self.classes = frozenset(classes)
        self.elem = elem

    def __eq__(self, o):
        return isinstance(o, Ty) and self.classes == o.classes and self.elem == o.elem

    def __hash__(self):
        return hash((self.classes, self.elem))

    def __repr__(self):
        return "Ty(%s%s)" % (",".join(sorted(self.classes)), "" if self.elem is None else " of %r" % (self.elem,))


BOT = "BOT"     # no binding seen yet;  None = unknown
TDATA = Ty([DATA])


def ty_join(a, b, depth=0):
    if a is BOT:
        return b
    if b is BOT:
        return a
    if a is None or b is None:
        return None
    e = None
    if a.elem is not None and b.elem is not None and depth < 3:
        e = ty_join(a.elem, b.elem, depth + 1)
    return Ty(a.classes | b.classes, e)


class Val:
    __slots__ = ("kind", "ty", "ent", "why", "oneshot")

    def __init__(self, kind=NONFRESH, ty=None, ent=None, why="", oneshot=False):
        self.kind, self.ty, self.ent, self.why = kind, ty, ent, why
        self.oneshot = oneshot        # a one-shot iterator (generator, zip, map, ...): reading it consumes it


# ---------------------------------------------------------------------------------------------
# package model
# ---------------------------------------------------------------------------------------------

class Mod:
    def __init__(self, name, path, is_pkg, src):
        self.name, self.path, self.is_pkg, self.src = name, path, is_pkg, src
        with warnings.catch_warnings():
            warnings.simplefilter("ignore")
            self.tree = ast.parse(src)
        self.top = {}           # name -> (kind, payload), last definition wins
        for st in self.tree.body:
            if isinstance(st, (ast.FunctionDef, ast.AsyncFunctionDef)):
                self.top[st.name] = ("func", st)
            elif isinstance(st, ast.ClassDef):
                self.top[st.name] = ("class", st)
            elif isinstance(st, ast.Import):
                for a in st.names:
                    if a.asname:
                        self.top[a.asname] = ("import", ("mod", a.name))
                    else:
                        self.top[a.name.split(".")[0]] = ("import", ("mod", a.name.split(".")[0]))
            elif isinstance(st, ast.ImportFrom):
                base = self.name.split(".")
                if st.level:
                    base = base if is_pkg else base[:-1]
                    base = base[:len(base) - (st.level - 1)]
                    modname = ".".join(base + ([st.module] if st.module else []))
                else:
                    modname = st.module
                for a in st.names:
                    self.top[a.asname or a.name] = ("import", ("from", modname, a.name))
            elif isinstance(st, ast.Assign):
                for t in st.targets:
                    if isinstance(t, ast.Name):
                        self.top[t.id] = ("assign", st.value)
            elif isinstance(st, ast.AnnAssign) and isinstance(st.target, ast.Name) and st.value is not None:
                self.top[st.target.id] = ("assign", st.value)


class Cls:
    def __init__(self, mod, node):
        self.mod, self.node, self.name = mod, node, node.name
        self.key = node.name
        self.methods = {}      # name -> FunctionDef
        self.attrs = {}        # class-level attributes: name -> (annotation, value, lineno)
        self.bases = []        # resolved entities
        self.accessors = []    # @x.setter / @x.deleter definitions (never replace the getter)
        for st in node.body:
            if isinstance(st, (ast.FunctionDef, ast.AsyncFunctionDef)):
                if any(isinstance(d, ast.Attribute) and d.attr in ("setter", "deleter") for d in st.decorator_list):
                    self.accessors.append(st)
                    continue
                self.methods[st.name] = st
            elif isinstance(st, ast.Assign):
                for t in st.targets:
                    if isinstance(t, ast.Name):
                        self.attrs[t.id] = (None, st.value, st.lineno)
            elif isinstance(st, ast.AnnAssign) and isinstance(st.target, ast.Name):
                self.attrs[st.target.id] = (st.annotation, st.value, st.lineno)


class Package:
    def __init__(self, repo):
        self.repo = Path(repo)
        self.root = self.repo / "cij"
        self.mods = {}
        for p in sorted(self.root.rglob("*.py")):
            rel = p.relative_to(self.repo).with_suffix("")
            parts = list(rel.parts)
            is_pkg = parts[-1] == "__init__"
            if is_pkg:
                parts = parts[:-1]
            self.mods[".".join(parts)] = Mod(".".join(parts), p, is_pkg, p.read_text())
        self.classes = {}
        self.dup_classes = set()
        for m in self.mods.values():
            for n, (k, node) in m.top.items():
                if k == "class":
                    if n in self.classes:
                        self.dup_classes.add(n)
                    self.classes[n] = Cls(m, node)
        for c in self.classes.values():
            for b in c.node.bases:
                c.bases.append(self.static_entity(c.mod, b))
        self.deco_cache = {}

    def rel(self, path):
        return str(Path(path).relative_to(self.repo))

    # -- static name resolution -------------------------------------------------------------
    def resolve_name(self, mod, name, seen=()):
        if (mod.name, name) in seen:
            return ("unknown", name)
        seen = seen + ((mod.name, name),)
        if name in mod.top:
            k, p = mod.top[name]
            if k == "func":
                return ("func", mod.name, name)
            if k == "class":
                return ("class", name) if self.classes.get(name) and self.classes[name].mod is mod else ("unknown", name)
            if k == "import":
                if p[0] == "mod":
                    return ("mod", p[1])
                if p[1] == mod.name and p[2] == name and (p[1] + "." + p[2]) in self.mods:
                    return ("mod", p[1] + "." + p[2])          # from . import submodule
                return self.member(("mod", p[1]), p[2], seen)
            if k == "assign":
                e = self.static_entity(mod, p, seen) if isinstance(p, (ast.Name, ast.Attribute)) else None
                if e and e[0] in ("func", "class", "classmember", "mod", "ext"):
                    return e
                return ("global", mod.name, name)
        if hasattr(_builtins, name):
            return ("builtin", name)
        return ("unknown", name)

    def member(self, ent, attr, seen=()):
        if ent[0] == "mod":
            d = ent[1]
            if d in self.mods:
                m = self.mods[d]
                if attr in m.top:
                    return self.resolve_name(m, attr, seen)
                if d + "." + attr in self.mods:
                    return ("mod", d + "." + attr)
                return ("unknown", d + "." + attr)
            if d == "cij" or d.startswith("cij."):
                return ("unknown", d + "." + attr)
            return ("ext", d + "." + attr)
        if ent[0] == "ext":
            return ("ext", ent[1] + "." + attr)
        if ent[0] == "class":
            return ("classmember", ent[1], attr)
        if ent[0] == "global":
            g = self.global_value(ent)
            if g is not None:
                return ("ext", g + "." + attr)
        return ("unknown", "%s.%s" % (ent[-1], attr))

    def global_value(self, ent):
        """the shared pint registry: module global assigned from pint.UnitRegistry()"""
        m = self.mods.get(ent[1])
        if m and ent[2] in m.top and m.top[ent[2]][0] == "assign":
            v = m.top[ent[2]][1]
            if isinstance(v, ast.Call):
                f = self.static_entity(m, v.func)
                if f == ("ext", "pint.UnitRegistry"):
                    return "pint:units"
                if f == ("ext", "logging.getLogger"):
                    return "logging.Logger"
        return None

    def static_entity(self, mod, expr, seen=()):
        if isinstance(expr, ast.Name):
            return self.resolve_name(mod, expr.id, seen)
        if isinstance(expr, ast.Attribute):
            b = self.static_entity(mod, expr.value, seen)
            if b and b[0] in ("mod", "ext", "class", "global"):
                return self.member(b, expr.attr, seen)
        return None

    # -- classes ----------------------------------------------------------------------------
    def mro(self, cname):
        out = []

        def go(n):
            if n in out or n not in self.classes:
                return
            out.append(n)
            for b in self.classes[n].bases:
                if b and b[0] == "class":
                    go(b[1])
        go(cname)
        return out

    def ext_bases(self, cname):
        out = []
        for n in self.mro(cname):
            for b, node in zip(self.classes[n].bases, self.classes[n].node.bases):
                if not (b and b[0] == "class"):
                    out.append(b[1] if b and b[0] == "ext" else ast.unparse(node))
        return out

    def deco_kinds(self, cls, fn):
        """-> list of decorator names (canonical); unknown ones as 'unknown:<src>'"""
        out = []
        for d in fn.decorator_list:
            tgt = d.func if isinstance(d, ast.Call) else d
            e = self.static_entity(cls.mod if isinstance(cls, Cls) else cls, tgt)
            name = None
            if e and e[0] == "ext":
                name = LAZY_DECOS.get(e[1])
            elif e and e[0] == "builtin":
                name = PLAIN_DECOS.get("builtin." + e[1]) or OTHER_DECOS.get("builtin." + e[1])
            if name is None and isinstance(tgt, ast.Attribute) and tgt.attr in ("setter", "deleter", "getter"):
                name = "property." + tgt.attr
            out.append(name or "unknown:" + ast.unparse(d))
        return out

    def producer_kind(self, cls, fn):
        ks = self.deco_kinds(cls, fn)
        for k in ks:
            if k in ("LazyProperty", "cached_property"):
                return "lazy"
        if "property" in ks:
            return "property"
        return None

    def find_member(self, cname, attr):
        """first class of the MRO defining attr as method or class attribute"""
        for n in self.mro(cname):
            c = self.classes[n]
            if attr in c.methods:
                return ("method", n)
            if attr in c.attrs:
                return ("classattr", n)
        return None

    def producers_of(self, cname):
        """MRO-resolved producers of an instance of cname: name -> (defining class, kind)"""
        out = {}
        for n in reversed(self.mro(cname)):
            c = self.classes[n]
            for mname, fn in c.methods.items():
                k = self.producer_kind(c, fn)
                if k:
                    out[mname] = (n, k)
                elif mname in out:
                    del out[mname]
        return out


# ---------------------------------------------------------------------------------------------
# analysis state
# ---------------------------------------------------------------------------------------------

class Summary:
    def __init__(self):
        self.param_mut = {}        # parameter index -> mutation depth (1: the object itself, 2: its elements)
        self.ret_kind = FRESH
        self.ret_ty = BOT
        self.ret_oneshot = False   # the result is a one-shot iterator
        self.deps = set()          # producer nodes (class, name) read directly
        self.soft = set()          # (reader site, node): by-name edges, reads on objects of unknown class
        self.calls = set()         # (instance key, through a constructor)
        self.leaves = set()
        self.issues = []
        self.done = False

    def sig(self):
        return (tuple(sorted(self.param_mut.items())), self.ret_kind, self.ret_ty, self.ret_oneshot)


class Analysis:
    def __init__(self, pkg):
        self.pkg = pkg
        self.summ = {}
        self.order = []
        self.field_sites = {}      # (class, attr) -> [(method, lineno, rhs source)]
        self.field_fact = {}       # (class, attr) -> [kind, ty, alias deps]
        self.new_fact = {}
        self.outside_stores = {}   # attr -> [site]
        self.changed = False
        self.producer_names = {}   # name -> [instance classes]
        self.method_names = {}     # name -> [classes defining it]
        for cn, c in pkg.classes.items():
            for pn in pkg.producers_of(cn):
                self.producer_names.setdefault(pn, []).append(cn)
            for mn, fn in c.methods.items():
                if not pkg.producer_kind(c, fn):
                    self.method_names.setdefault(mn, []).append(cn)
        self.prescan()

    def prescan(self):
        pkg = self.pkg
        for cn, c in pkg.classes.items():
            for mn, fn in c.methods.items():
                flav = pkg.deco_kinds(c, fn)
                if "staticmethod" in flav or "classmethod" in flav or not fn.args.args:
                    continue
                me = fn.args.args[0].arg
                for n in ast.walk(fn):
                    tgts = []
                    if isinstance(n, ast.Assign):
                        tgts = [(t, n.value) for t in n.targets]
                    elif isinstance(n, ast.AnnAssign) and n.value is not None:
                        tgts = [(n.target, n.value)]
                    flat = []
                    for t, v in tgts:
                        if isinstance(t, (ast.Tuple, ast.List)):
                            flat += [(e, None) for e in t.elts]
                        else:
                            flat.append((t, v))
                    for t, v in flat:
                        if isinstance(t, ast.Attribute) and isinstance(t.value, ast.Name) and t.value.id == me:
                            self.field_sites.setdefault((cn, t.attr), []).append(
                                (mn, t.lineno, ast.unparse(v) if v is not None else "?"))
        for m in pkg.mods.values():
            for n in ast.walk(m.tree):
                if isinstance(n, ast.Attribute) and isinstance(n.ctx, ast.Store) and \
                        not (isinstance(n.value, ast.Name) and n.value.id in ("self", "cls")):
                    self.outside_stores.setdefault(n.attr, []).append("%s:%d" % (pkg.rel(m.path), n.lineno))

    def has_field(self, cname, attr):
        for n in self.pkg.mro(cname):
            if (n, attr) in self.field_sites:
                return n
        return None

    def field_store(self, cname, attr, val, deps):
        f = self.new_fact.setdefault((cname, attr), [FRESH, BOT, frozenset()])
        self.new_fact[(cname, attr)] = [min(f[0], val.kind), ty_join(f[1], val.ty), f[2] | frozenset(deps)]

    def field_info(self, cname, attr):
        """-> (ty, alias deps) joined over the classes of the MRO that store the field"""
        ty, deps = BOT, frozenset()
        for n in self.pkg.mro(cname):
            if (n, attr) in FIELD_TYPES and (n, attr) in self.field_sites:
                names, text, _ = FIELD_TYPES[(n, attr)]
                srcs = ["self.%s = %s" % (attr, s[2]) for s in self.field_sites[(n, attr)]]
                if srcs == [text]:
                    ty = ty_join(ty, Ty(names))
                    continue
            if (n, attr) in self.field_fact:
                f = self.field_fact[(n, attr)]
                ty = ty_join(ty, f[1])
                deps |= f[2]
            elif (n, attr) in self.field_sites:
                ty = None if ty is BOT else ty_join(ty, None)
        return (None if ty is BOT else ty), deps

    # -- instances ----------------------------------------------------------------------
    def need(self, key):
        if key not in self.summ:
            self.summ[key] = Summary()
            self.order.append(key)
            self.changed = True
        return self.summ[key]

    def node_of(self, key):
        """-> (FunctionDef, module, class or None)"""
        if key[0] == "func":
            m = self.pkg.mods[key[1]]
            return m.top[key[2]][1], m, None
        c = self.pkg.classes[key[1]]
        return c.methods[key[2]], c.mod, c

    def analyse_all(self, roots):
        for k in roots:
            self.need(k)
        for it in range(40):
            self.changed = False
            self.new_fact = {}
            i = 0
            while i < len(self.order):
                key = self.order[i]
                i += 1
                node, mod, cls = self.node_of(key)
                f = Fn(self, key, node, mod, cls)
                new = f.run()
                old = self.summ[key]
                if new.sig() != old.sig() or not old.done:
                    self.changed = True
                new.done = True
                self.summ[key] = new
            if self.new_fact != self.field_fact:
                self.changed = True
            self.field_fact = self.new_fact
            if not self.changed:
                return it + 1
        raise RuntimeError("summaries do not stabilise")


def key_name(key):
    if key[0] == "func":
        return "%s.%s" % (key[1], key[2])
    s = "%s.%s" % (key[1], key[2])
    if key[3] != key[1]:
        s += "[self:%s]" % key[3]
    if key[4]:
        s += "(%r)" % key[4]
    return s

# ---------------------------------------------------------------------------------------------
# one function instance
# ---------------------------------------------------------------------------------------------

class Fn:
    """Flow-insensitive abstract interpretation of one function body.

    accepted statements: Return Expr Assign AnnAssign AugAssign For While If With Try Raise Assert Pass Break
    Continue Delete Import ImportFrom FunctionDef(nested) ; Global/Nonlocal are impure; anything else undecided."""

    def __init__(self, an, key, node, mod, cls, parent=None):
        self.an, self.pkg, self.key, self.node, self.mod, self.cls, self.parent = an, an.pkg, key, node, mod, cls, parent
        self.selfcls = key[3] if key and key[0] == "meth" else (parent.selfcls if parent else None)
        self.gname = key[4] if key and key[0] == "meth" else None
        a = node.args
        self.params = [x.arg for x in list(a.posonlyargs) + list(a.args)]
        self.extra_params = [x.arg for x in a.kwonlyargs] + ([a.vararg.arg] if a.vararg else []) + ([a.kwarg.arg] if a.kwarg else [])
        self.flavour = "plain"
        self.memo = False
        if cls is not None and parent is None:
            ks = self.pkg.deco_kinds(cls, node)
            if "staticmethod" in ks:
                self.flavour = "static"
            elif "classmethod" in ks:
                self.flavour = "class"
            self.memo = any(k in ("lru_cache", "cache") for k in ks)
            self.bad_decos = [k for k in ks if k.startswith("unknown:") or k.startswith("property.")]
        elif parent is None and isinstance(node, ast.FunctionDef):
            ks = self.pkg.deco_kinds(mod, node)
            self.memo = any(k in ("lru_cache", "cache") for k in ks)
            self.bad_decos = [k for k in ks if k.startswith("unknown:") and not k.startswith("unknown:@click")
                              and "click." not in k]
        else:
            self.bad_decos = []
        self.me = self.params[0] if (cls is not None and parent is None and self.flavour != "static" and self.params) else None
        self.ann = {}
        for x in list(a.posonlyargs) + list(a.args) + list(a.kwonlyargs):
            self.ann[x.arg] = self.ann_ty(x.annotation)
        self.file = self.pkg.rel(mod.path)

    # -- bookkeeping --------------------------------------------------------------------
    def qual(self):
        if self.parent:
            return self.parent.qual()
        return key_name(self.key)

    def issue(self, sev, node, msg, stmt=None):
        if not self.record:
            return
        line = getattr(node, "lineno", getattr(self.node, "lineno", 0))
        st = stmt if stmt is not None else self.cur_stmt
        self.out.issues.append(dict(sev=sev, file=self.file, line=line, fn=self.qual(), msg=msg,
                                    stmt=" ".join(ast.unparse(st).split())[:300] if st is not None else ""))

    def run(self):
        self.out = Summary()
        body = self.node.body if isinstance(self.node.body, list) else None
        names = set()
        for n in ast.walk(self.node):
            if isinstance(n, ast.Name) and isinstance(n.ctx, (ast.Store, ast.Del)):
                names.add(n.id)
            elif isinstance(n, (ast.FunctionDef, ast.ClassDef)) and n is not self.node:
                names.add(n.name)
            elif isinstance(n, (ast.Import, ast.ImportFrom)):
                for al in n.names:
                    names.add((al.asname or al.name).split(".")[0])
        self.pk = {n: FRESH for n in names}
        self.pt = {n: BOT for n in names}
        self.p1 = {n: False for n in names}
        self.ents = {}
        self.why = {}
        self.record = False
        stable = False
        for it in range(14):
            self.pass_once(body)
            if (self.nk, self.nt, self.n1) == (self.pk, self.pt, self.p1):
                stable = True
                break
            self.pk, self.pt, self.p1 = self.nk, self.nt, self.n1
        self.record = True
        self.pass_once(body)
        if not stable:
            self.issue("undecided", self.node, "kinds of the local names do not stabilise", stmt=self.node)
        if self.memo:
            self.out.ret_kind = NONFRESH
        if self.out.ret_oneshot and self.parent is None and (self.memo or (
                self.cls is not None and self.pkg.producer_kind(self.cls, self.node) == "lazy")):
            self.issue("impure", self.node, "a one-shot iterator (generator, zip, map, itertools ...) is cached: the second "
                       "reader finds it consumed", stmt=self.node)
        if self.parent is None:
            for k in self.bad_decos:
                self.issue("undecided", self.node, "decorator %s is not understood" % k, stmt=None)
            rt = self.ann_ty(self.node.returns) if isinstance(self.node, ast.FunctionDef) else None
            if rt is not None and any(c in self.pkg.classes for c in rt.classes | (rt.elem.classes if rt.elem else frozenset())):
                if self.out.ret_ty is BOT or self.out.ret_ty is None:
                    self.out.ret_ty = rt
            elif rt == TDATA and self.out.ret_ty is None:
                self.out.ret_ty = rt               # annotated -> numpy.ndarray / float / int ...
        if self.out.ret_ty is BOT:
            self.out.ret_ty = None if self.saw_return_value else TDATA
        return self.out

    def pass_once(self, body):
        self.nk = {n: FRESH for n in self.pk}
        self.nt = {n: BOT for n in self.pt}
        self.n1 = {n: False for n in self.pk}
        self.yields = []
        self.out = Summary()
        self.last_deps, self.rhs_deps = set(), set()
        self.saw_return_value = False
        self.cur_stmt = None
        self.localfns = {}
        if body is None:                     # lambda
            self.cur_stmt = self.node.body
            v = self.ev(self.node.body)
            self.out.ret_kind, self.out.ret_ty, self.saw_return_value = v.kind, v.ty, True
            self.out.ret_oneshot = v.oneshot
        else:
            self.block(body)
        if self.yields:
            # a generator function: the call only creates the iterator; its body runs while the iterator is consumed.
            # Reads, calls and findings of the body are charged to the creator (sound: purity findings do not depend on
            # WHEN the body runs, and whoever consumes the iterator obtained it from the creator).  A generator that
            # mutates its parameter is not decided: the argument may have lost its freshness when the body runs.
            k, t = FRESH, BOT
            for v in self.yields:
                k, t = min(k, v.kind), ty_join(t, v.ty)
            self.out.ret_kind = FRESH if k == FRESH else SHALLOW
            self.out.ret_ty = Ty([CONT], None if t is BOT else t)
            self.out.ret_oneshot = True
            self.saw_return_value = True
            if self.out.param_mut:
                self.issue("undecided", self.node, "generator that mutates its parameter %s" % sorted(
                    self.params[i] for i in self.out.param_mut if i < len(self.params)), stmt=self.node)
        if self.record:
            self.escape_check()

    def escape_check(self):
        for name, (node, summ) in self.localfns.items():
            if not summ.param_mut:
                continue
            esc = not isinstance(name, str)
            if isinstance(name, str):
                callpos = set()
                for n in ast.walk(self.node):
                    if isinstance(n, ast.Call) and isinstance(n.func, ast.Name) and n.func.id == name:
                        callpos.add(id(n.func))
                for n in ast.walk(self.node):
                    if isinstance(n, ast.Name) and n.id == name and isinstance(n.ctx, ast.Load) and id(n) not in callpos:
                        esc = True
            if esc:
                self.issue("undecided", node, "a callable that mutates its argument is created here and escapes "
                           "(its callers are not tracked)", stmt=node)

    # -- types from annotations ---------------------------------------------------------
    def ann_ty(self, e, depth=0):
        if e is None or depth > 4:
            return None
        if isinstance(e, ast.Constant) and isinstance(e.value, str):
            try:
                return self.ann_ty(ast.parse(e.value, mode="eval").body, depth + 1)
            except SyntaxError:
                return None
        if isinstance(e, ast.Subscript):
            head = ast.unparse(e.value).split(".")[-1]
            sl = e.slice
            first = sl.elts[0] if isinstance(sl, ast.Tuple) and sl.elts else sl
            if head in LIST_ANN:
                return Ty([CONT], self.ann_ty(first, depth + 1))
            if head == "Optional":
                return self.ann_ty(first, depth + 1)
            if head in CONT_ANN:
                return Ty([CONT])
            return None
        if isinstance(e, (ast.Name, ast.Attribute)):
            src = ast.unparse(e)
            last = src.split(".")[-1]
            ent = self.pkg.static_entity(self.mod, e)
            if ent and ent[0] == "class":
                return Ty([ent[1]])
            if src in DATA_ANN or last in DATA_ANN:
                return TDATA
            if last in CONT_ANN:
                return Ty([CONT])
            if last in self.pkg.classes and last not in self.pkg.dup_classes and (ent is None or ent[0] == "unknown"):
                return Ty([last])
        return None

    # -- environment --------------------------------------------------------------------
    def bind(self, name, val, node=None):
        if name not in self.nk:
            self.nk[name], self.nt[name], self.n1[name] = FRESH, BOT, False
        self.n1[name] = self.n1[name] or val.oneshot
        if val.kind < self.nk[name] and name not in self.why and val.why:
            self.why[name] = val.why
        self.nk[name] = min(self.nk[name], val.kind)
        self.nt[name] = ty_join(self.nt[name], val.ty)
        if val.ent is not None:
            self.ents[name] = val.ent

    def demote(self, expr, kind):
        r = expr
        while isinstance(r, (ast.Subscript, ast.Attribute, ast.Starred)):
            r = r.value
        if isinstance(r, ast.Name) and r.id in self.nk:
            self.nk[r.id] = min(self.nk[r.id], kind)

    def lookup(self, name):
        if name in self.params or name in self.extra_params:
            if name == self.me:
                if self.flavour == "class":
                    return Val(NONFRESH, None, ("class", self.selfcls))
                return Val(NONFRESH, Ty([self.selfcls]), None, "self")
            if self.gname is not None and len(self.params) > 1 and name == self.params[1] and name not in self.pk:
                return Val(FRESH, TDATA)
            k = NONFRESH
            t = self.ann.get(name)
            if name in self.pk:
                k, t = min(k, self.pk[name]), ty_join(t, self.pt[name]) if self.pt[name] is not BOT else t
            return Val(k, t, None, "parameter %s" % name)
        if name in self.pk:
            t = self.pt[name]
            return Val(self.pk[name], None if t is BOT else t, self.ents.get(name), self.why.get(name, ""),
                       self.p1.get(name, False))
        if self.parent is not None:
            v = self.parent.lookup(name)
            return Val(NONFRESH if v.ent is None else v.kind, v.ty, v.ent, v.why or "variable of the enclosing function")
        ent = self.pkg.resolve_name(self.mod, name)
        if ent[0] == "global":
            if self.record:
                self.out.leaves.add("global:%s.%s" % (ent[1], ent[2]))
            gv = self.pkg.global_value(ent)
            if gv:
                return Val(NONFRESH, None, ("ext", gv), "module global")
            return Val(NONFRESH, None, None, "module global %s.%s" % (ent[1], ent[2]))
        if ent[0] == "unknown":
            self.issue("undecided", self.cur_stmt, "name %s cannot be resolved" % name)
            return Val(NONFRESH, None)
        if ent[0] == "func":
            self.call_edge(("func", ent[1], ent[2]), value_use=True)
        return Val(NONFRESH, None, ent, "module-level object")

    as_callee = False

    def call_edge(self, key, ctor=False, value_use=False):
        self.an.need(key)
        self.out.calls.add((key, ctor))
        s = self.an.summ[key]
        if value_use and not self.as_callee:
            # a package function used as a VALUE (map(f, ..), partial(f), key=f): its later calls are not tracked, so it
            # must not mutate its arguments
            off = 1 if key[0] == "meth" else 0
            muts = sorted(i for i in s.param_mut if i >= off)
            if muts:
                self.issue("undecided", self.cur_stmt, "%s mutates its parameter and is used as a value here (its calls "
                           "are not tracked)" % key_name(key))
        return s

    # -- statements ---------------------------------------------------------------------
    def block(self, stmts):
        for s in stmts:
            self.cur_stmt = s
            try:
                self.stmt(s)
            except RecursionError:
                raise
            except Exception as ex:           # fail closed, never crash the check
                self.issue("undecided", s, "classifier error %s: %s" % (type(ex).__name__, ex))

    def stmt(self, s):
        if isinstance(s, ast.Return):
            if s.value is not None:
                v = self.ev(s.value)
                self.saw_return_value = True
                self.out.ret_kind = min(self.out.ret_kind, v.kind)
                self.out.ret_ty = ty_join(self.out.ret_ty, v.ty)
                self.out.ret_oneshot = self.out.ret_oneshot or v.oneshot
        elif isinstance(s, ast.Expr):
            if isinstance(s.value, ast.Constant):
                return
            self.ev(s.value)
        elif isinstance(s, ast.Assign):
            v = self.ev(s.value)
            self.rhs_deps = set(self.last_deps) if isinstance(s.value, ast.Attribute) else set()
            for t in s.targets:
                self.assign(t, v, s.value)
            self.rhs_deps = set()
        elif isinstance(s, ast.AnnAssign):
            if s.value is not None:
                v = self.ev(s.value)
                t = self.ann_ty(s.annotation)
                if t is not None and v.ty is None:
                    v = Val(v.kind, t, v.ent, v.why)
                self.assign(s.target, v, s.value)
        elif isinstance(s, ast.AugAssign):
            v = self.ev(s.value)
            t = s.target
            if isinstance(t, ast.Name):
                self.mutate(t, 1, s, "augmented assignment `%s`" % " ".join(ast.unparse(s).split())[:80])
            elif isinstance(t, ast.Subscript):
                self.ev_slice(t.slice)
                self.mutate(t.value, 2, s, "augmented assignment through a subscript `%s`" % ast.unparse(t)[:60])
            elif isinstance(t, ast.Attribute):
                self.attr_store(t, v, s)
            else:
                self.issue("undecided", s, "augmented assignment target not understood")
        elif isinstance(s, ast.For):
            it = self.ev(s.iter)
            self.assign(s.target, self.elem_of(it), None)
            self.block(s.body)
            self.block(s.orelse)
        elif isinstance(s, ast.While):
            self.ev(s.test)
            self.block(s.body)
            self.block(s.orelse)
        elif isinstance(s, ast.If):
            self.ev(s.test)
            self.block(s.body)
            self.block(s.orelse)
        elif isinstance(s, ast.With):
            for it in s.items:
                v = self.ev(it.context_expr)
                if it.optional_vars is not None:
                    self.assign(it.optional_vars, Val(NONFRESH, v.ty, None, "context manager"), None)
            self.block(s.body)
        elif isinstance(s, ast.Try):
            self.block(s.body)
            for h in s.handlers:
                if h.type is not None:
                    self.ev(h.type)
                if h.name:
                    self.bind(h.name, Val(FRESH, TDATA))
                self.block(h.body)
            self.block(s.orelse)
            self.block(s.finalbody)
        elif isinstance(s, ast.Raise):
            if s.exc is not None:
                self.ev(s.exc)
            if s.cause is not None:
                self.ev(s.cause)
        elif isinstance(s, ast.Assert):
            self.ev(s.test)
            if s.msg is not None:
                self.ev(s.msg)
        elif isinstance(s, (ast.Pass, ast.Break, ast.Continue)):
            pass
        elif isinstance(s, ast.Delete):
            for t in s.targets:
                if isinstance(t, ast.Subscript):
                    self.ev_slice(t.slice)
                    self.mutate(t.value, 1, s, "del of an item")
                elif isinstance(t, ast.Attribute):
                    self.attr_store(t, Val(FRESH, TDATA), s)
        elif isinstance(s, (ast.Global, ast.Nonlocal)):
            self.issue("impure", s, "%s statement" % type(s).__name__.lower())
        elif isinstance(s, ast.Import):
            for al in s.names:
                nm = (al.asname or al.name).split(".")[0]
                self.bind(nm, Val(NONFRESH, None, ("mod", al.name if al.asname else al.name.split(".")[0])))
        elif isinstance(s, ast.ImportFrom):
            for al in s.names:
                if s.level:
                    base = self.mod.name.split(".")
                    base = base if self.mod.is_pkg else base[:-1]
                    base = base[:len(base) - (s.level - 1)]
                    mn = ".".join(base + ([s.module] if s.module else []))
                else:
                    mn = s.module
                self.bind(al.asname or al.name, Val(NONFRESH, None, self.pkg.member(("mod", mn), al.name)))
        elif isinstance(s, ast.FunctionDef):
            if s.decorator_list:
                self.issue("undecided", s, "decorated nested function")
            sub = Fn(self.an, None, s, self.mod, None, parent=self)
            summ = self.run_nested(sub)
            self.localfns[s.name] = (s, summ)
            self.bind(s.name, Val(NONFRESH, None, ("localfn", summ, sub.params)))
        else:
            self.issue("undecided", s, "statement %s is outside the accepted grammar" % type(s).__name__)

    def run_nested(self, sub):
        summ = sub.run()
        if self.record:
            self.out.deps |= summ.deps
            self.out.soft |= summ.soft
            self.out.calls |= summ.calls
            self.out.leaves |= summ.leaves
            self.out.issues += summ.issues
        return summ

    def assign(self, t, v, rhs):
        if isinstance(t, ast.Name):
            self.bind(t.id, v)
        elif isinstance(t, (ast.Tuple, ast.List)):
            e = self.elem_of(v)
            for x in t.elts:
                self.assign(x.value if isinstance(x, ast.Starred) else x, e, None)
        elif isinstance(t, ast.Subscript):
            self.ev_slice(t.slice)
            self.mutate(t.value, 1, t, "item assignment `%s = ...`" % ast.unparse(t)[:60])
            if v.kind < FRESH:
                self.demote(t.value, SHALLOW)
        elif isinstance(t, ast.Attribute):
            self.attr_store(t, v, t)
        elif isinstance(t, ast.Starred):
            self.assign(t.value, v, rhs)
        else:
            self.issue("undecided", t, "assignment target not understood")

    def attr_store(self, t, v, node):
        base = t.value
        if isinstance(base, ast.Name) and self.me and base.id == self.me and self.flavour == "plain" and self.parent is None:
            self.an.field_store(self.selfcls, t.attr, v, self.rhs_deps)
            if self.key[2] != "__init__":
                self.issue("selfstore", node, "assignment to self.%s outside __init__" % t.attr)
            return
        b = self.ev(base)
        if b.kind == FRESH:
            return
        self.issue("impure", node, "attribute assignment `%s = ...` on an object that is not local" % ast.unparse(t)[:60])

    def elem_of(self, v):
        t = None
        if v.ty is not None:
            if v.ty.elem is not None:
                t = v.ty.elem
            elif v.ty.classes == frozenset([DATA]):
                t = TDATA
        return Val(FRESH if v.kind == FRESH else NONFRESH, t, None, v.why and "element of " + v.why)

    # -- mutation -----------------------------------------------------------------------
    def mutate(self, expr, depth, node, what):
        """`expr` denotes an object mutated at `depth` (1 itself, 2 its elements)"""
        v = self.ev(expr)
        if v.kind >= (SHALLOW if depth == 1 else FRESH):
            return
        root, hops = expr, 0
        while isinstance(root, (ast.Subscript, ast.Attribute, ast.Starred)):
            root = root.value
            hops += 1
        if isinstance(root, ast.Name) and root.id in self.params and root.id != self.me:
            idx = self.params.index(root.id)
            self.out.param_mut[idx] = max(self.out.param_mut.get(idx, 0), min(2, depth + hops))
            return
        if v.kind == SHALLOW:
            self.issue("undecided", node, "%s: elements of the shallow copy / owned container `%s` may be shared"
                       % (what, ast.unparse(expr)[:60]))
            return
        src = ast.unparse(expr)[:60]
        why = v.why
        if isinstance(root, ast.Name) and not why:
            why = self.why.get(root.id, "")
        self.issue("impure", node, "%s mutates `%s`, which is not a fresh local object%s"
                   % (what, src, " (%s)" % why if why else ""))

    # -- expressions --------------------------------------------------------------------
    def ev_slice(self, sl):
        if isinstance(sl, ast.Slice):
            for x in (sl.lower, sl.upper, sl.step):
                if x is not None:
                    self.ev(x)
        elif isinstance(sl, ast.Tuple):
            for x in sl.elts:
                self.ev_slice(x)
        else:
            self.ev(sl)

    def join_vals(self, vals, container=False):
        k = FRESH
        for v in vals:
            k = min(k, v.kind)
        if container and k < FRESH:
            k = SHALLOW
        return k

    def ev(self, e):
        if isinstance(e, ast.Constant):
            return Val(FRESH, TDATA)
        if isinstance(e, ast.Name):
            return self.lookup(e.id)
        if isinstance(e, ast.Attribute):
            return self.attr_read(self.ev(e.value), e.attr, e)
        if isinstance(e, ast.Subscript):
            b = self.ev(e.value)
            self.ev_slice(e.slice)
            return self.subscript(b, e)
        if isinstance(e, ast.BinOp):
            l, r = self.ev(e.left), self.ev(e.right)
            disp = (ast.List, ast.Tuple, ast.ListComp, ast.Set, ast.Dict)
            if isinstance(e.op, (ast.Add, ast.Mult)) and (isinstance(e.left, disp) or isinstance(e.right, disp)):
                return Val(self.join_vals([l, r], container=True), Ty([CONT]))
            return Val(FRESH, TDATA)
        if isinstance(e, ast.UnaryOp):
            self.ev(e.operand)
            return Val(FRESH, TDATA)
        if isinstance(e, ast.Compare):
            self.ev(e.left)
            for c in e.comparators:
                self.ev(c)
            return Val(FRESH, TDATA)
        if isinstance(e, ast.BoolOp):
            vs = [self.ev(x) for x in e.values]
            t = BOT
            for v in vs:
                t = ty_join(t, v.ty)
            return Val(self.join_vals(vs), None if t is BOT else t, None, next((v.why for v in vs if v.kind == NONFRESH), ""))
        if isinstance(e, ast.IfExp):
            self.ev(e.test)
            a, b = self.ev(e.body), self.ev(e.orelse)
            return Val(min(a.kind, b.kind), ty_join(a.ty, b.ty), None, a.why or b.why)
        if isinstance(e, (ast.Tuple, ast.List, ast.Set)):
            vs = [self.ev(x.value if isinstance(x, ast.Starred) else x) for x in e.elts]
            t = BOT
            for v in vs:
                t = ty_join(t, v.ty)
            return Val(self.join_vals(vs, container=True), Ty([CONT], None if t is BOT else t))
        if isinstance(e, ast.Dict):
            vs = [self.ev(x) for x in list(e.keys) + list(e.values) if x is not None]
            return Val(self.join_vals(vs, container=True), Ty([CONT]))
        if isinstance(e, (ast.ListComp, ast.SetComp, ast.GeneratorExp, ast.DictComp)):
            for g in e.generators:
                it = self.ev(g.iter)
                self.assign(g.target, self.elem_of(it), None)
                for c in g.ifs:
                    self.ev(c)
            if isinstance(e, ast.DictComp):
                vs = [self.ev(e.key), self.ev(e.value)]
                return Val(self.join_vals(vs, container=True), Ty([CONT]))
            v = self.ev(e.elt)
            return Val(self.join_vals([v], container=True), Ty([CONT], v.ty), None, "", isinstance(e, ast.GeneratorExp))
        if isinstance(e, ast.JoinedStr):
            for x in e.values:
                if isinstance(x, ast.FormattedValue):
                    self.ev(x.value)
            return Val(FRESH, TDATA)
        if isinstance(e, ast.FormattedValue):
            self.ev(e.value)
            return Val(FRESH, TDATA)
        if isinstance(e, ast.Starred):
            return self.ev(e.value)
        if isinstance(e, ast.NamedExpr):
            v = self.ev(e.value)
            self.assign(e.target, v, e.value)
            return v
        if isinstance(e, ast.Lambda):
            sub = Fn(self.an, None, e, self.mod, None, parent=self)
            summ = self.run_nested(sub)
            self.localfns[id(e)] = (e, summ)
            return Val(NONFRESH, None, ("localfn", summ, sub.params))
        if isinstance(e, ast.Call):
            return self.ev_call(e)
        if isinstance(e, ast.Slice):
            self.ev_slice(e)
            return Val(FRESH, TDATA)
        if isinstance(e, ast.Yield):
            if self.parent is not None and not isinstance(self.node, ast.FunctionDef):
                self.issue("undecided", e, "yield inside a lambda")
            self.yields.append(self.ev(e.value) if e.value is not None else Val(FRESH, TDATA))
            return Val(NONFRESH, None, None, "value sent into the generator")
        if isinstance(e, ast.YieldFrom):
            self.yields.append(self.elem_of(self.ev(e.value)))
            return Val(NONFRESH, None)
        if isinstance(e, ast.Await):
            self.issue("undecided", e, "coroutine body")
            return Val(NONFRESH, None)
        self.issue("undecided", e, "expression %s is outside the accepted grammar" % type(e).__name__)
        return Val(NONFRESH, None)

    def subscript(self, b, e):
        k = FRESH if b.kind == FRESH else NONFRESH
        t = None
        if b.ty is not None:
            pc = [c for c in b.ty.classes if c in self.pkg.classes]
            if pc:
                ts = BOT
                for c in pc:
                    fm = self.pkg.find_member(c, "__getitem__")
                    if fm and fm[0] == "method":
                        s = self.call_edge(("meth", fm[1], "__getitem__", c, None))
                        k = min(k, s.ret_kind)
                        ts = ty_join(ts, s.ret_ty if s.ret_ty is not BOT else None)
                    else:
                        ts = ty_join(ts, b.ty.elem)       # NamedTuple of ...
                t = None if ts is BOT else ts
            elif b.ty.elem is not None:
                t = b.ty.elem
            elif b.ty.classes == frozenset([DATA]):
                t = TDATA
        return Val(k, t, None, b.why and "part of " + b.why)

    # -- attribute reads ----------------------------------------------------------------
    def attr_read(self, b, attr, node):
        self.last_deps = set()
        if b.ent is not None:
            ent = b.ent
            if ent[0] in ("mod", "ext", "class", "global"):
                m = self.pkg.member(ent, attr)
                if m[0] == "func":
                    self.call_edge(("func", m[1], m[2]), value_use=True)
                if m[0] == "unknown":
                    self.issue("undecided", node, "%s cannot be resolved" % m[1])
                    return Val(NONFRESH, None)
                if m[0] == "classmember":
                    return self.class_member(m[1], attr, node)
                return Val(NONFRESH, None, m, "module-level object")
            if ent[0] == "super":
                return Val(NONFRESH, None, ("superm", attr))
            if ent[0] in ("localfn", "bound", "func", "builtin", "superm"):
                return Val(NONFRESH, None)
        if b.ty is None:
            if attr in self.an.producer_names:
                for c in self.an.producer_names[attr]:
                    self.an.need(("meth", self.pkg.producers_of(c)[attr][0], attr, c, None))
                    self.out.soft.add(("%s:%d .%s" % (self.file, getattr(node, "lineno", 0), attr), (c, attr)))
                self.out.leaves.add("byname:.%s read on an object of unknown class (%s:%d) -> every producer of that name"
                                    % (attr, self.file, getattr(node, "lineno", 0)))
                return Val(NONFRESH, None, None, "producer value (by name)")
            return Val(FRESH if b.kind == FRESH else NONFRESH, None, None, b.why)
        kinds, ts, why, ent = [], BOT, "", None
        for c in sorted(b.ty.classes):
            if c in self.pkg.classes:
                v = self.inst_attr(c, attr, node, b)
            elif c == DATA:
                v = Val(FRESH if b.kind == FRESH else NONFRESH, TDATA, None, b.why)
            else:
                v = Val(FRESH if b.kind == FRESH else NONFRESH, None, None, b.why)
            kinds.append(v.kind)
            ts = ty_join(ts, v.ty)
            why = why or v.why
            ent = v.ent
        if len(b.ty.classes) == 1:
            return Val(kinds[0], None if ts is BOT else ts, ent, why)
        return Val(min(kinds), None if ts is BOT else ts, None, why)

    def dep(self, c, name):
        self.out.deps.add((c, name))
        self.last_deps.add((c, name))
        d, kind = self.pkg.producers_of(c)[name]
        return self.an.need(("meth", d, name, c, None)), kind

    def class_member(self, cname, attr, node):
        """attribute of a class object: Cls.method / Cls.CONST"""
        fm = self.pkg.find_member(cname, attr)
        if fm is None:
            ext = self.pkg.ext_bases(cname)
            self.out.leaves.add("external:%s.%s (class attribute; external bases %s)" % (cname, attr, ext))
            return Val(NONFRESH, Ty([cname]) if "Enum" in " ".join(map(str, ext)) else None)
        if fm[0] == "method":
            fn = self.pkg.classes[fm[1]].methods[attr]
            if self.pkg.producer_kind(self.pkg.classes[fm[1]], fn):
                return Val(NONFRESH, None)
            self.call_edge(("meth", fm[1], attr, cname, None), value_use=True)
            return Val(NONFRESH, None, ("bound", fm[1], attr, cname, "viaclass"))
        ann, val, _ = self.pkg.classes[fm[1]].attrs[attr]
        self.out.leaves.add("classattr:%s.%s" % (fm[1], attr))
        return Val(NONFRESH, self.cls_ann_ty(fm[1], ann), None, "class attribute %s.%s" % (fm[1], attr))

    def cls_ann_ty(self, cname, ann):
        if ann is None:
            return None
        c = self.pkg.classes[cname]
        helper = Fn(self.an, None, ast.parse("lambda: 0", mode="eval").body, c.mod, None, parent=None)
        return helper.ann_ty(ann)

    def inst_attr(self, c, attr, node, b):
        pk = self.pkg.producers_of(c)
        if attr in pk:
            s, kind = self.dep(c, attr)
            k = NONFRESH if kind == "lazy" else s.ret_kind
            t = s.ret_ty
            return Val(k, None if t is BOT else t, None, "%s value of %s.%s" % ("cached" if kind == "lazy" else "property", c, attr))
        fm = self.pkg.find_member(c, attr)
        fld = self.an.has_field(c, attr)
        if fm and fm[0] == "method":
            self.call_edge(("meth", fm[1], attr, c, None), value_use=True)
            return Val(NONFRESH, None, ("bound", fm[1], attr, c, "inst"))
        if fld:
            ty, deps = self.an.field_info(c, attr)
            self.out.leaves.add("field:%s.%s" % (fld, attr))
            for (dc, dn) in deps:
                if dn in self.pkg.producers_of(dc):
                    self.dep(dc, dn)
            return Val(NONFRESH, ty, None, "instance attribute %s.%s" % (c, attr))
        if fm and fm[0] == "classattr":
            ann, val, _ = self.pkg.classes[fm[1]].attrs[attr]
            self.out.leaves.add("classattr:%s.%s" % (fm[1], attr))
            return Val(NONFRESH, self.cls_ann_ty(fm[1], ann), None, "class attribute %s.%s" % (fm[1], attr))
        ga = self.pkg.find_member(c, "__getattr__")
        if ga and ga[0] == "method":
            s = self.call_edge(("meth", ga[1], "__getattr__", c, attr))
            t = s.ret_ty
            return Val(NONFRESH, None if t is BOT else t, None, "%s.__getattr__(%r)" % (c, attr))
        ext = self.pkg.ext_bases(c)
        ext = [x for x in ext if x not in ("typing.NamedTuple", "NamedTuple")]
        if ext:
            self.out.leaves.add("external:%s.%s (inherited from %s)" % (c, attr, ", ".join(map(str, ext))))
        else:
            sites = self.an.outside_stores.get(attr, [])
            self.out.leaves.add("external:%s.%s (not defined by the class%s)" % (
                c, attr, "; assigned from outside at " + ", ".join(sites) if sites else ""))
        return Val(NONFRESH, None, None, "attribute %s.%s" % (c, attr))

    # -- calls --------------------------------------------------------------------------
    def ev_call(self, e):
        f = e.func
        # builtins with special meaning
        if isinstance(f, ast.Name) and f.id not in self.pk and f.id not in self.params:
            if f.id == "getattr" and len(e.args) >= 2:
                obj = self.ev(e.args[0])
                n = e.args[1]
                for x in e.args[2:]:
                    self.ev(x)
                if isinstance(n, ast.Constant) and isinstance(n.value, str):
                    return self.attr_read(obj, n.value, e)
                if isinstance(n, ast.Name) and self.gname is not None and len(self.params) > 1 and n.id == self.params[1]:
                    return self.attr_read(obj, self.gname, e)
                self.issue("undecided", e, "getattr with a computed attribute name")
                return Val(NONFRESH, None)
            if f.id == "super" and self.cls is not None:
                return Val(NONFRESH, None, ("super",))
        args = []
        for a in e.args:
            star = isinstance(a, ast.Starred)
            x = a.value if star else a
            args.append((self.ev(x), x, star))
        kws = []
        for k in e.keywords:
            kws.append((k.arg, self.ev(k.value), k.value))
        if isinstance(f, ast.Attribute):
            recv = self.ev(f.value)
            self.as_callee = True
            try:
                callee = self.attr_read(recv, f.attr, f)
            finally:
                self.as_callee = False
        else:
            recv = None
            self.as_callee = isinstance(f, ast.Name)
            try:
                callee = self.ev(f)
            finally:
                self.as_callee = False
        ent = callee.ent
        if ent is not None and ent[0] == "classmember":
            self.as_callee = True
            try:
                ent = self.class_member(ent[1], ent[2], f).ent
            finally:
                self.as_callee = False
        if ent is not None:
            if ent[0] == "func":
                return self.apply(("func", ent[1], ent[2]), args, kws, 0, e)
            if ent[0] == "class":
                return self.construct(ent[1], args, kws, e)
            if ent[0] == "bound":
                d, name, c, how = ent[1], ent[2], ent[3], ent[4]
                fn = self.pkg.classes[d].methods[name]
                ks = self.pkg.deco_kinds(self.pkg.classes[d], fn)
                if "staticmethod" in ks:
                    off = 0
                elif "classmethod" in ks:
                    off = 1
                else:
                    off = 1 if how == "inst" else 0
                return self.apply(("meth", d, name, c, None), args, kws, off, e)
            if ent[0] == "superm":
                mro = self.pkg.mro(self.selfcls)
                d0 = self.key[1] if self.key and self.key[0] == "meth" else None
                rest = mro[mro.index(d0) + 1:] if d0 in mro else []
                for n in rest:
                    if ent[1] in self.pkg.classes[n].methods:
                        return self.apply(("meth", n, ent[1], self.selfcls, None), args, kws, 1, e)
                if ent[1] == "__init__" and self.key and self.key[2] == "__init__":
                    self.out.leaves.add("external:super().__init__ of %s (%s)" % (self.key[1], ", ".join(map(str, self.pkg.ext_bases(self.key[1])))))
                    return Val(FRESH, TDATA)
                self.issue("undecided", e, "super().%s resolves outside the package" % ent[1])
                return Val(NONFRESH, None)
            if ent[0] == "ext":
                return self.ext_call(ent[1], args, kws, e)
            if ent[0] == "builtin":
                return self.builtin_call(ent[1], args, kws, e)
            if ent[0] == "localfn":
                summ, params = ent[1], ent[2]
                self.check_args(summ, params, args, kws, 0, e, "local function")
                return Val(summ.ret_kind, None if summ.ret_ty is BOT else summ.ret_ty, None, "", summ.ret_oneshot)
            if ent[0] == "mod":
                self.issue("undecided", e, "call of a module object")
                return Val(NONFRESH, None)
        # a value is called
        if isinstance(f, ast.Attribute):
            return self.method_on_value(recv, f, args, kws, e)
        # callable parameter / field / local: its body is analysed where it is created
        self.out.leaves.add("callable:%s called at %s:%d" % (ast.unparse(f)[:40], self.file, e.lineno))
        return Val(NONFRESH, None, None, "result of a callable value")

    def param_names(self, key):
        node, _, _ = self.an.node_of(key)
        a = node.args
        return [x.arg for x in list(a.posonlyargs) + list(a.args)], [x.arg for x in a.kwonlyargs], a.vararg

    def check_args(self, summ, params, args, kws, off, e, what):
        if not summ.param_mut:
            return
        starred = any(s for _, _, s in args)
        for idx, depth in sorted(summ.param_mut.items()):
            j = idx - off
            pname = params[idx] if idx < len(params) else "?"
            targets = []
            if j < 0:
                continue
            if starred:
                targets = [x for _, x, _ in args]
            elif j < len(args):
                targets = [args[j][1]]
            targets += [x for k, _, x in kws if k == pname or k is None]
            for x in targets:
                self.mutate(x, depth, e, "argument `%s` of %s %s, which mutates its parameter `%s`"
                            % (ast.unparse(x)[:40], what, ast.unparse(e.func)[:50], pname))
                if isinstance(x, ast.Name):
                    pass

    def apply(self, key, args, kws, off, e, ctor=False):
        s = self.call_edge(key, ctor)
        params, kwonly, vararg = self.param_names(key)
        self.check_args(s, params, args, kws, off, e, "method" if key[0] == "meth" else "function")
        if ctor:
            return None
        k, t = s.ret_kind, s.ret_ty
        return Val(k, None if t is BOT else t, None, "result of %s" % key_name(key), s.ret_oneshot)

    def construct(self, cname, args, kws, e):
        fm = self.pkg.find_member(cname, "__init__")
        vals = [v for v, _, _ in args] + [v for _, v, _ in kws]
        if fm and fm[0] == "method":
            self.apply(("meth", fm[1], "__init__", cname, None), args, kws, 1, e, ctor=True)
        k = self.join_vals(vals, container=True)
        return Val(k, Ty([cname]), None, "new %s holding its arguments" % cname)

    def ext_call(self, dotted, args, kws, e):
        vals = [v for v, _, _ in args] + [v for _, v, _ in kws]
        if dotted.startswith(EXT_NONDET_PREFIX):
            self.issue("undecided", e, "call of %s (not a function of the values read)" % dotted)
            return Val(NONFRESH, None)
        if dotted.startswith(EXT_LOG_PREFIX):
            return Val(FRESH, TDATA)
        if dotted.startswith("numpy."):
            tail = dotted[6:]
            last = tail.split(".")[-1]
            if tail in NUMPY_INPLACE or tail.endswith(".at") or (tail.startswith("ndarray.") and last in MUT_METHODS):
                if args:
                    self.mutate(args[0][1], 1, e, "in-place function %s" % dotted)
                return Val(NONFRESH, TDATA)
            for k, v, x in kws:
                if k == "out":
                    self.mutate(x, 1, e, "out= argument of %s" % dotted)
            if tail in NUMPY_VIEW or (tail == "array" and any(k == "copy" for k, _, _ in kws)):
                return Val(min([v.kind for v in vals] + [FRESH]), TDATA, None, next((v.why for v in vals if v.why), ""))
            return Val(FRESH, TDATA)
        if dotted.startswith("pint:"):
            return Val(min([v.kind for v in vals] + [FRESH]) if vals else NONFRESH, None, None, "pint object wrapping its argument")
        if dotted.startswith(EXT_PURE_PREFIX):
            if dotted == "copy.copy":
                return Val(SHALLOW, vals[0].ty if vals else None)
            if dotted == "copy.deepcopy":
                return Val(FRESH, vals[0].ty if vals else None)
            if dotted in ("operator.attrgetter", "operator.methodcaller"):
                return self.by_name_callable(dotted, args, e)
            return Val(NONFRESH, None, None, "result of %s" % dotted, dotted.startswith("itertools."))
        self.issue("undecided", e, "call of external function %s, which is not in the table of non-mutating callees" % dotted)
        return Val(NONFRESH, None)

    def by_name_callable(self, dotted, args, e):
        """operator.attrgetter("a.b") / methodcaller("m"): an attribute read / method call on an unknown object"""
        for v, x, star in args[:1] if dotted.endswith("methodcaller") else args:
            if star or not (isinstance(x, ast.Constant) and isinstance(x.value, str)):
                self.issue("undecided", e, "%s with a computed name" % dotted)
                continue
            for attr in x.value.split("."):
                if dotted.endswith("attrgetter"):
                    self.attr_read(Val(NONFRESH, None), attr, e)
                elif attr in self.an.method_names:
                    self.method_on_value(Val(NONFRESH, None), ast.Attribute(value=ast.Name(id="_", ctx=ast.Load()), attr=attr,
                                                                        ctx=ast.Load(), lineno=e.lineno), [], [], e)
                elif attr in MUT_METHODS:
                    self.issue("undecided", e, "methodcaller of the mutating method .%s()" % attr)
                elif attr in self.an.producer_names:
                    self.attr_read(Val(NONFRESH, None), attr, e)
        return Val(NONFRESH, None, None, "callable made by %s" % dotted)

    def builtin_call(self, name, args, kws, e):
        vals = [v for v, _, _ in args] + [v for _, v, _ in kws]
        if name in PURE_BUILTINS or name.endswith(("Error", "Exception", "Warning")) or name in ("StopIteration", "KeyboardInterrupt"):
            return Val(FRESH, TDATA)
        if name in CONTAINER_BUILTINS:
            t = None
            if vals and vals[0].ty is not None and vals[0].ty.elem is not None and name in ("list", "tuple", "set", "sorted", "reversed", "iter"):
                t = Ty([CONT], vals[0].ty.elem)
            return Val(FRESH if all(v.kind == FRESH for v in vals) else SHALLOW, t or Ty([CONT]), None, "",
                       name in ("enumerate", "zip", "map", "filter", "reversed", "iter"))
        if name in ELEMENT_BUILTINS:
            v0 = vals[0] if vals else Val(FRESH, TDATA)
            ev_ = self.elem_of(v0)
            return Val(ev_.kind, ev_.ty, None, v0.why)
        if name == "setattr":
            self.issue("impure", e, "setattr")
            return Val(FRESH, TDATA)
        if name in IMPURE_BUILTINS:
            self.issue("undecided", e, "call of builtin %s (input/output or dynamic code)" % name)
            return Val(NONFRESH, None)
        self.issue("undecided", e, "call of builtin %s is not in the tables" % name)
        return Val(NONFRESH, None)

    def method_on_value(self, recv, f, args, kws, e):
        m = f.attr
        vals = [v for v, _, _ in args] + [v for _, v, _ in kws]
        if m in LOG_METHODS and isinstance(f.value, ast.Name) and "log" in f.value.id.lower():
            return Val(FRESH, TDATA)
        if m in MUT_METHODS:
            self.mutate(f.value, 1, e, "mutating method .%s()" % m)
            if any(v.kind < FRESH for v in vals):
                self.demote(f.value, SHALLOW)
            return Val(NONFRESH, None)
        if m in SHALLOW_METHODS:        # .copy(): deep for a numeric array, shallow for containers
            return Val(FRESH if recv.ty == TDATA else SHALLOW, recv.ty, None, "shallow copy")
        if m in FRESH_METHODS:
            return Val(FRESH, TDATA)
        if m in VIEW_METHODS:
            t = None
            if recv.ty is not None and recv.ty.classes == frozenset([DATA]):
                t = TDATA
            return Val(FRESH if recv.kind == FRESH else NONFRESH, t, None, recv.why and "view of " + recv.why)
        if recv.ty is None and m in self.an.method_names:
            k, t = FRESH, BOT
            for c in self.an.method_names[m]:
                fn = self.pkg.classes[c].methods[m]
                ks = self.pkg.deco_kinds(self.pkg.classes[c], fn)
                off = 0 if "staticmethod" in ks else 1
                v = self.apply(("meth", c, m, c, None), args, kws, off, e)
                k, t = min(k, v.kind), ty_join(t, v.ty)
            self.out.leaves.add("byname:.%s() called on an object of unknown class (%s:%d) -> every method of that name"
                                % (m, self.file, e.lineno))
            return Val(k, None if t is BOT else t)
        self.issue("undecided", e, "method .%s() on a value of unknown class is in neither the mutating nor the "
                   "non-mutating table" % m)
        return Val(NONFRESH, None)

# ---------------------------------------------------------------------------------------------
# driver
# ---------------------------------------------------------------------------------------------

def inventory(pkg):
    """decorators on class methods, counted per module"""
    inv = {}
    for cn, c in sorted(pkg.classes.items()):
        m = pkg.rel(c.mod.path)
        for mn, fn in c.methods.items():
            for k in pkg.deco_kinds(c, fn):
                k = "other:" + k[8:].split("(")[0] if k.startswith("unknown:") else k
                inv.setdefault(m, {}).setdefault(k, 0)
                inv[m][k] += 1
    return inv


def shared_class_state(pkg):
    """class-level attributes bound to a mutable object and mutated through an instance or the class"""
    bad = []
    for cn, c in sorted(pkg.classes.items()):
        mut = {}
        for a, (ann, val, line) in c.attrs.items():
            if isinstance(val, (ast.Dict, ast.List, ast.Set, ast.ListComp, ast.DictComp, ast.SetComp)) or \
                    (isinstance(val, ast.Call) and isinstance(val.func, ast.Name) and val.func.id in ("dict", "list", "set", "OrderedDict", "defaultdict")):
                mut[a] = line
        if not mut:
            continue
        for sub in pkg.classes.values():
            if cn not in pkg.mro(sub.key):
                continue
            for mn, fn in sub.methods.items():
                me = fn.args.args[0].arg if fn.args.args else None
                rebinding = {t.attr for n in ast.walk(fn) if isinstance(n, ast.Assign) for t in n.targets
                             if isinstance(t, ast.Attribute) and isinstance(t.value, ast.Name) and t.value.id == me}
                for n in ast.walk(fn):
                    tgt = None
                    if isinstance(n, (ast.Assign, ast.AugAssign, ast.Delete)):
                        ts = n.targets if not isinstance(n, ast.AugAssign) else [n.target]
                        for t in ts:
                            if isinstance(t, ast.Subscript):
                                tgt = t.value
                    elif isinstance(n, ast.Call) and isinstance(n.func, ast.Attribute) and n.func.attr in MUT_METHODS:
                        tgt = n.func.value
                    while isinstance(tgt, ast.Subscript):
                        tgt = tgt.value
                    if isinstance(tgt, ast.Attribute) and isinstance(tgt.value, ast.Name) and tgt.attr in mut and \
                            tgt.value.id in (me, cn, "cls"):
                        own = pkg.rel(sub.mod.path)
                        # an instance attribute of the same name assigned in the class hides the class attribute
                        if tgt.attr in rebinding or any((k, tgt.attr) in ANALYSIS_FIELD_SITES for k in pkg.mro(sub.key)):
                            continue
                        bad.append(dict(file=own, line=n.lineno, cls=sub.key, attr=tgt.attr,
                                        msg="%s.%s (class-level mutable object, %s:%d) is mutated through `%s` in %s.%s: shared by all instances"
                                        % (cn, tgt.attr, pkg.rel(c.mod.path), mut[tgt.attr], ast.unparse(tgt), sub.key, mn)))
    return bad


ANALYSIS_FIELD_SITES = {}


def find_cycle(edges):
    color, stack = {}, []

    def dfs(u):
        color[u] = 1
        stack.append(u)
        for v in edges.get(u, ()):
            if color.get(v, 0) == 1:
                return stack[stack.index(v):] + [v]
            if color.get(v, 0) == 0:
                c = dfs(v)
                if c:
                    return c
        stack.pop()
        color[u] = 2
        return None
    for u in sorted(edges):
        if color.get(u, 0) == 0:
            c = dfs(u)
            if c:
                return c
    return None


def analyse(repo):
    global ANALYSIS_FIELD_SITES
    sys.setrecursionlimit(10000)
    pkg = Package(repo)
    an = Analysis(pkg)
    ANALYSIS_FIELD_SITES = an.field_sites
    order_cls = sorted(pkg.classes.values(), key=lambda c: (pkg.rel(c.mod.path), c.node.lineno))
    roots, nodes = [], []
    for c in order_cls:
        pk = pkg.producers_of(c.key)
        for name, (d, kind) in sorted(pk.items(), key=lambda kv: (pkg.mro(c.key)[::-1].index(kv[1][0]),
                                                                    pkg.classes[kv[1][0]].methods[kv[0]].lineno)):
            nodes.append((c.key, name))
            roots.append(("meth", d, name, c.key, None))
        for mn in c.methods:
            if (mn not in pk or pk[mn][0] != c.key) and mn != "__getattr__":
                roots.append(("meth", c.key, mn, c.key, None))
        fm = pkg.find_member(c.key, "__init__")
        if fm and fm[0] == "method":
            roots.append(("meth", fm[1], "__init__", c.key, None))
    rounds = an.analyse_all(roots)
    ids = {n: i for i, n in enumerate(nodes)}

    def closure(key):
        seen, todo = {}, [(key, False)]
        while todo:
            k, inc = todo.pop()
            if k in seen and (seen[k] is False or inc):
                continue
            seen[k] = inc if k not in seen else (seen[k] and inc)
            for (k2, ctor) in an.summ[k].calls:
                todo.append((k2, inc or ctor))
        return seen

    allowed_hits, all_issues, per_node, phase = {}, {}, [], {}
    edges, leaves_all, soft_edges = {}, {}, {}
    for (c, name) in nodes:
        d, kind = pkg.producers_of(c)[name]
        key = ("meth", d, name, c, None)
        cl = closure(key)
        deps, leaves, issues, soft = set(), set(), [], set()
        for k, inc in cl.items():
            s = an.summ[k]
            deps |= s.deps
            soft |= s.soft
            leaves |= s.leaves
            phase[k] = phase.get(k, True) and inc
            for i in s.issues:
                if i["sev"] == "selfstore" and inc:
                    continue
                issues.append(i)
        status, why = "pure", []
        for i in issues:
            tag = (i["fn"], i["stmt"])
            ident = "%s:%d %s" % (i["file"], i["line"], i["msg"])
            if i["sev"] == "undecided" and tag in ALLOW:
                allowed_hits[ident] = ALLOW[tag]
                if status == "pure":
                    status = "allow-listed"
                continue
            sev = "impure" if i["sev"] in ("impure", "selfstore") else "undecided"
            all_issues[ident] = dict(i, sev=sev)
            why.append(ident)
            if sev == "impure" or status != "impure":
                status = sev if not (status == "impure") else status
        edges[ids[(c, name)]] = sorted(ids[x] for x in deps if x in ids)
        soft_edges[ids[(c, name)]] = sorted((site, ids[x]) for site, x in soft if x in ids and x not in deps)
        missing = sorted("%s.%s" % x for x in deps if x not in ids)
        for l in leaves:
            leaves_all.setdefault(l, []).append("%s.%s" % (c, name))
        fn = pkg.classes[d].methods[name]
        per_node.append(dict(id=ids[(c, name)], cls=c, name=name, defined_in=d, kind=kind,
                             file=pkg.rel(pkg.classes[d].mod.path), line=fn.lineno, deps=edges[ids[(c, name)]],
                             status=status, why=sorted(set(why)), helpers=sorted(key_name(k) for k in cl if k != key),
                             unresolved_deps=missing))
    # by-name edges (reads on objects whose class could not be inferred) are kept when the graph stays acyclic with
    # them (the certificate then covers them); otherwise they are dropped and reported as external leaves
    n_soft = sum(len(v) for v in soft_edges.values())
    soft_left = {u: {x for _, x in v} - set(edges[u]) for u, v in soft_edges.items()}
    dropped = []
    while True:
        full = {u: sorted(set(v) | soft_left[u]) for u, v in edges.items()}
        cy = find_cycle(full)
        if cy is None:
            break
        removed = False
        for a, b in zip(cy, cy[1:]):
            if b in soft_left[a]:            # only the by-name edges that lie on the cycle are given up
                soft_left[a].discard(b)
                removed = True
                for site, x in soft_edges[a]:
                    if x == b:
                        dropped.append("%s (read in %s.%s, edge to %s.%s)" % ((site,) + nodes[a] + nodes[b]))
        if not removed:
            break                            # a cycle of resolved reads: no rank exists
    edges = {u: sorted(set(v) | soft_left[u]) for u, v in edges.items()}
    dropped = sorted(set(dropped))
    for p in per_node:
        p["deps"] = edges[p["id"]]
    # package-level fail-closed checks: nothing decorated like a producer may be outside the graph
    raw = 0
    for m in pkg.mods.values():
        for n in ast.walk(m.tree):
            if isinstance(n, (ast.FunctionDef, ast.AsyncFunctionDef)):
                for d in n.decorator_list:
                    t = ast.unparse(d.func if isinstance(d, ast.Call) else d).split(".")[-1]
                    if t in ("LazyProperty", "property", "cached_property"):
                        raw += 1
                        break
    defined = sum(1 for p in per_node if p["defined_in"] == p["cls"])
    pkg_issues = []
    if raw != defined:
        pkg_issues.append("%d functions are decorated like producers but %d are in the graph (nested / conditional class, "
                          "or a decorator that does not resolve to lazy_property / builtins / functools)" % (raw, defined))
    if pkg.dup_classes:
        pkg_issues.append("class names defined twice in the package: %s" % sorted(pkg.dup_classes))
    for c in pkg.classes.values():
        for st in c.accessors:
            pkg_issues.append("%s:%d property setter/deleter %s.%s: a produced value can be replaced from outside"
                              % (pkg.rel(c.mod.path), st.lineno, c.key, st.name))
    for msg in pkg_issues:
        all_issues["package: " + msg] = dict(sev="undecided", file="cij", line=0, fn="package", msg=msg, stmt="")
    cyc = find_cycle(edges)
    # rank: position in a topological order (dependencies first)
    rank = {}
    if cyc is None:
        indeg_done, order = set(), []

        def visit(u):
            if u in indeg_done:
                return
            indeg_done.add(u)
            for v in edges[u]:
                visit(v)
            order.append(u)
        for u in sorted(edges):
            visit(u)
        rank = {u: i for i, u in enumerate(order)}
    else:
        rank = {u: u for u in edges}
    mods = {}
    for p in per_node:
        if p["defined_in"] == p["cls"]:
            m = mods.setdefault(p["file"], dict(lazy=0, property=0))
            m[p["kind"]] += 1
    ext = {k: sorted(set(v))[:6] for k, v in sorted(leaves_all.items()) if k.startswith(("external:", "byname:", "callable:"))}
    rep = dict(
        repo=str(repo), modules=len(pkg.mods), classes=len(pkg.classes), fixpoint_rounds=rounds, functions_analysed=len(an.summ),
        decorators=inventory(pkg), defined_producers_per_module=mods,
        producers=per_node, n_nodes=len(nodes), n_edges=sum(len(v) for v in edges.values()),
        cycle=[("%s.%s" % nodes[i]) for i in cyc] if cyc else None, rank=rank,
        by_name_edges=n_soft, by_name_edges_kept=sum(len(v) for v in soft_left.values()), by_name_reads_dropped=dropped,
        issues=sorted(all_issues.values(), key=lambda i: (i["file"], i["line"], i["msg"])),
        allow_listed=allowed_hits, allow_list_unused=[list(k) for k in ALLOW if ALLOW[k] not in allowed_hits.values()],
        externals=ext, fields_read=sorted(k for k in leaves_all if k.startswith(("field:", "classattr:"))),
        globals_read=sorted(k for k in leaves_all if k.startswith("global:")),
        shared_class_state=shared_class_state(pkg),
        asserted_field_types={"%s.%s" % k: dict(classes=v[0], text=v[1], why=v[2]) for k, v in FIELD_TYPES.items()},
        counts=dict(pure=sum(p["status"] == "pure" for p in per_node), allow_listed=sum(p["status"] == "allow-listed" for p in per_node),
                    undecided=sum(p["status"] == "undecided" for p in per_node), impure=sum(p["status"] == "impure" for p in per_node),
                    lazy=sum(p["kind"] == "lazy" for p in per_node), plain=sum(p["kind"] == "property" for p in per_node)),
    )
    return rep


def gen_coq(rep, lib="Cij"):
    out = ["(* GENERATED by tools/translate_lazy.py from the sources under %s/cij - do not edit." % rep["repo"],
           "   One node per (instance class, producer); edges: the producers a producer reads, directly, through",
           "   helper methods/functions or through other objects.  lazy_rank is a certificate searched in Python",
           "   and checked here. *)",
           "From Coq Require Import List Arith String.", "From %s Require Import DepsRank." % lib,
           "Import ListNotations.", ""]
    by_cls = {}
    for p in rep["producers"]:
        by_cls.setdefault(p["cls"], []).append(p)
    for c, ps in by_cls.items():
        out.append("Definition graph_%s : graph := [" % c)
        rows = []
        for p in ps:
            rows.append("  (%d, [%s])" % (p["id"], "; ".join(map(str, p["deps"]))) + "%s   (* %s.%s%s, %s, %s:%d *)")
        body = []
        for i, (row, p) in enumerate(zip(rows, ps)):
            body.append(row % (";" if i + 1 < len(ps) else " ", c, p["name"],
                               "" if p["defined_in"] == c else " (defined in %s)" % p["defined_in"],
                               "LazyProperty" if p["kind"] == "lazy" else "property", p["file"], p["line"]))
        out += body + ["]."]
    out.append("Definition lazy_graph : graph :=\n  %s." % (" ++\n  ".join("graph_%s" % c for c in by_cls) or "[]"))
    out.append("Definition lazy_names : list (nat * string) := [\n  %s]." % ";\n  ".join(
        '(%d, "%s.%s"%%string)' % (p["id"], p["cls"], p["name"]) for p in rep["producers"]))
    out.append("Definition lazy_rank_table : list (nat * nat) := [\n  %s]." % "; ".join(
        "(%d, %d)" % (p["id"], rep["rank"][p["id"]]) for p in rep["producers"]))
    out.append("Definition lazy_rank (n : nat) : nat :=\n  match find (fun p : nat * nat => fst p =? n) lazy_rank_table with "
               "Some p => snd p | None => 0 end.")
    out.append("Definition lazy_counts := (%d, %d).   (* producers, edges *)" % (rep["n_nodes"], rep["n_edges"]))
    return "\n".join(out) + "\n"


if __name__ == "__main__":
    r = analyse(sys.argv[1] if len(sys.argv) > 1 else "/repo")
    if "--coq" in sys.argv:
        print(gen_coq(r))
    elif "--json" in sys.argv:
        print(json.dumps(r, indent=1, default=str))
    else:
        print("modules %d classes %d functions analysed %d (rounds %d)" % (r["modules"], r["classes"], r["functions_analysed"], r["fixpoint_rounds"]))
        print("producers %d edges %d  counts %s" % (r["n_nodes"], r["n_edges"], r["counts"]))
        print("cycle:", r["cycle"])
        for i in r["issues"]:
            print("  [%s] %s:%d %s  {%s}  << %s >>" % (i["sev"], i["file"], i["line"], i["msg"], i["fn"], i["stmt"][:100]))
        for k, v in r["externals"].items():
            print("  leaf", k, "<-", v[:3])
        for b in r["shared_class_state"]:
            print("  shared:", b["msg"])
