"""Fail-closed translator for the pressure range check of cij/core/qha_adapter.py (static tie of C06).

    QHACalculator.desired_pressure_status
        -> g_raise_cond (p_tv : matrix as list of rows [T][V]) (desired : vector) : option bool
           the condition under which the method raises (None: numpy/python itself raises, e.g. reduction of
           an empty array, index out of range), with ARRAY semantics made explicit:
               A[:, j]  column j over all rows (negative j counts from the end)     A[i, :] / A[i]  row i
               A[i, j] / v[i] single elements      .min() / .max() / numpy.min / numpy.amax ... reductions over all
               elements      min(v) / max(v) Python builtins (first extremal element kept)
        -> g_raise_exc : the exception class raised

Anything outside the grammar raises TranslateError(file, line, construct).

GRAMMAR  (method `desired_pressure_status(self)`, no decorators)
    body   ::= ( DIAG | LOCAL )*  IF  DIAG*
    LOCAL  ::= name = E | name, name, ... = E, E, ...          (each name assigned once in the whole method)
    IF     ::= if COND: ( DIAG | name = <any diagnostic expression> )* raise Exc(...)          (no else)
    DIAG   ::= logger.<level>(...)        arguments may only call str.format / .min() / .max() / int / float / round
    COND   ::= S < S | S > S | S <= S | S >= S | not COND
    S      ::= V.min() | V.max() | M.min() | M.max() | numpy.{min,max,amin,amax}(V|M) | min(V) | max(V)
             | M[i, j] | V[i] | local
    V      ::= self.desired_pressures_gpa | M[:, j] | M[i, :] | M[i] | list(V) | V.tolist() | V.flatten() | V.ravel()
             | numpy.asarray(V) | numpy.array(V) | local
    M      ::= self.p_tv_gpa | local
  i, j integer literals.  No statement of the method may store into an attribute or a subscript, no `return <value>`.

ONLY PATTERN-CHECKED (glue): `self.p_tv_gpa` / `self.desired_pressures_gpa` are not redefined by class QHACalculator
(they are qha.calculator.Calculator's properties), the class derives from qha.calculator.Calculator only,
QHACalculatorAdapter._load_qha_calculator calls `calculator.desired_pressure_status()` unconditionally after
`calculator.refine_grid()` and before `return calculator`; the diagnostic statements of the raising branch are not
given a semantics (they can only replace the exception by another one).
"""
import ast

from tie_common import (TranslateError, parse, src_of, body_no_doc, module_class, class_method, arg_names, no_reflection,
                        is_full_slice, int_const, coq_str, zlit)

FILE = "cij/core/qha_adapter.py"
MATRIX = "self.p_tv_gpa"
VECTOR = "self.desired_pressures_gpa"
DIAG_CALLS_OK = ("int", "float", "round", "len", "str", "repr")


def bail(node, what):
    raise TranslateError(FILE, node, what)


class Tr:
    def __init__(self, fn):
        self.fn = fn
        self.locals = {}        # name -> (kind, coq ident)
        self.lets = []          # (ident, term)
        self.pending = {}       # name -> ast expr (assigned, translated on first use or at once)

    # ---- typed expressions: returns (kind, term) with kind in 'M', 'V', 'S' ------------------------
    def expr(self, e):
        s = src_of(e)
        if s == MATRIX:
            return "M", "(Some p_tv)"
        if s == VECTOR:
            return "V", "(Some desired)"
        if isinstance(e, ast.Name):
            if e.id in self.locals:
                return self.locals[e.id]
            bail(e, "name `%s` (not a local assigned once before its use)" % e.id)
        if isinstance(e, ast.Subscript):
            k, t = self.expr(e.value)
            sl = e.slice
            if k == "M":
                if isinstance(sl, ast.Tuple) and len(sl.elts) == 2:
                    a, b = sl.elts
                    ia, ib = int_const(a), int_const(b)
                    if is_full_slice(a) and ib is not None:
                        return "V", "(o_col %s %s)" % (zlit(ib), t)
                    if ia is not None and is_full_slice(b):
                        return "V", "(o_row %s %s)" % (zlit(ia), t)
                    if ia is not None and ib is not None:
                        return "S", "(o_get2 %s %s %s)" % (zlit(ia), zlit(ib), t)
                elif int_const(sl) is not None:
                    return "V", "(o_row %s %s)" % (zlit(int_const(sl)), t)
                bail(e, "subscript `%s` of a matrix (accepted: [:, j], [i, :], [i], [i, j] with integer literals)" % s[:80])
            if k == "V":
                if int_const(sl) is not None:
                    return "S", "(o_get1 %s %s)" % (zlit(int_const(sl)), t)
                bail(e, "subscript `%s` of a vector (accepted: [i] with an integer literal)" % s[:80])
            bail(e, "subscript of a scalar `%s`" % s[:80])
        if isinstance(e, ast.Call):
            f = e.func
            if e.keywords:
                bail(e, "keyword arguments in `%s`" % s[:80])
            # method reductions / views
            if isinstance(f, ast.Attribute) and not e.args:
                if f.attr in ("min", "max"):
                    k, t = self.expr(f.value)
                    if k == "M":
                        t = "(o_flat %s)" % t
                    elif k != "V":
                        bail(e, "`.%s()` of a scalar" % f.attr)
                    return "S", "(o_%s %s)" % (f.attr, t)
                if f.attr in ("tolist", "flatten", "ravel", "copy"):
                    k, t = self.expr(f.value)
                    if k == "V":
                        return "V", t
                    if k == "M" and f.attr in ("flatten", "ravel"):
                        return "V", "(o_flat %s)" % t
                    bail(e, "`.%s()` of a %s" % (f.attr, {"M": "matrix", "S": "scalar"}[k]))
            fs = src_of(f)
            if fs in ("numpy.min", "numpy.max", "numpy.amin", "numpy.amax") and len(e.args) == 1:
                k, t = self.expr(e.args[0])
                if k == "M":
                    t = "(o_flat %s)" % t
                elif k != "V":
                    bail(e, "`%s` of a scalar" % fs)
                return "S", "(o_%s %s)" % ("min" if fs.endswith("min") else "max", t)
            if fs in ("min", "max") and len(e.args) == 1:
                k, t = self.expr(e.args[0])
                if k != "V":
                    bail(e, "builtin `%s` of a %s (iterating a matrix compares rows)" % (fs, {"M": "matrix", "S": "scalar"}[k]))
                return "S", "(o_b%s %s)" % (fs, t)
            if fs in ("list", "tuple", "numpy.asarray", "numpy.array") and len(e.args) == 1:
                k, t = self.expr(e.args[0])
                if k == "V":
                    return "V", t
                bail(e, "`%s` of a %s" % (fs, {"M": "matrix", "S": "scalar"}[k]))
            bail(e, "call `%s`" % s[:100])
        bail(e, "expression `%s`" % s[:100])

    def cond(self, t):
        if isinstance(t, ast.UnaryOp) and isinstance(t.op, ast.Not):
            return "(o_not %s)" % self.cond(t.operand)
        if isinstance(t, ast.Compare) and len(t.ops) == 1:
            ops = {ast.Lt: "o_lt", ast.Gt: "o_gt", ast.LtE: "o_le", ast.GtE: "o_ge"}
            if type(t.ops[0]) in ops:
                ka, a = self.expr(t.left)
                kb, b = self.expr(t.comparators[0])
                if ka != "S" or kb != "S":
                    bail(t, "comparison `%s` of non-scalars (truth value of an array)" % src_of(t)[:100])
                return "(%s %s %s)" % (ops[type(t.ops[0])], a, b)
        bail(t, "condition `%s` (accepted: S < S, S > S, S <= S, S >= S, not ...)" % src_of(t)[:100])

    def bind(self, name, e, node):
        if name in self.locals or name in ("self", "logger", "numpy", "min", "max", "list", "tuple", "p_tv", "desired"):
            bail(node, "local `%s` is assigned twice / shadows a reserved name" % name)
        if not name.isidentifier() or not name.isascii():
            bail(node, "local name `%s`" % name)
        k, t = self.expr(e)
        ident = "l_" + name
        self.lets.append((ident, t))
        self.locals[name] = (k, ident)


def check_diag(s, branch=False):
    """a logging statement (or, inside the raising branch, an assignment to a plain name) that cannot change any state"""
    if isinstance(s, ast.Expr) and isinstance(s.value, ast.Call) and isinstance(s.value.func, ast.Attribute) \
            and src_of(s.value.func.value) in ("logger", "logging") \
            and s.value.func.attr in ("debug", "info", "warning", "error", "critical"):
        root = s.value
    elif branch and isinstance(s, ast.Assign) and all(isinstance(t, ast.Name) for t in s.targets):
        root = s.value
    else:
        return False
    for n in ast.walk(root):
        if isinstance(n, ast.Call) and not (isinstance(s, ast.Expr) and n is s.value):
            f = n.func
            ok = (isinstance(f, ast.Attribute) and f.attr == "format" and isinstance(f.value, ast.Constant)) \
                or (isinstance(f, ast.Attribute) and f.attr in ("min", "max") and not n.args and not n.keywords) \
                or (isinstance(f, ast.Name) and f.id in DIAG_CALLS_OK)
            if not ok:
                raise TranslateError(FILE, n, "call `%s` inside a diagnostic statement (accepted: str.format, .min(), .max(), %s)"
                                     % (src_of(n)[:80], ", ".join(DIAG_CALLS_OK)))
        if isinstance(n, (ast.Lambda, ast.NamedExpr, ast.Await, ast.Yield, ast.YieldFrom, ast.ListComp, ast.GeneratorExp,
                          ast.SetComp, ast.DictComp)):
            raise TranslateError(FILE, n, "%s inside a diagnostic statement" % type(n).__name__)
    return True


def translate(source):
    """-> dict(cond=term, lets=[...], exc=name)"""
    mod = parse(source)
    cls = module_class(mod, FILE, "QHACalculator")
    if [src_of(b) for b in cls.bases] != ["qha.calculator.Calculator"]:
        bail(cls, "QHACalculator bases %s (expected qha.calculator.Calculator only)" % [src_of(b) for b in cls.bases])
    for n in cls.body:
        for x in ast.walk(n):
            nm = x.name if isinstance(x, (ast.FunctionDef, ast.ClassDef)) else (x.id if isinstance(x, ast.Name) and isinstance(x.ctx, ast.Store) else None)
            if n is x and nm in ("p_tv_gpa", "desired_pressures_gpa", "__getattribute__", "__getattr__"):
                bail(n, "class QHACalculator redefines `%s`" % nm)
    for x in ast.walk(cls):
        if isinstance(x, ast.Attribute) and isinstance(x.ctx, (ast.Store, ast.Del)) and x.attr in ("p_tv_gpa", "desired_pressures_gpa"):
            bail(x, "assignment to `.%s`" % x.attr)
    fn = class_method(cls, FILE, "desired_pressure_status")
    arg_names(fn, FILE, ["self"])
    no_reflection(fn, FILE)
    for n in ast.walk(fn):
        if isinstance(n, (ast.Attribute, ast.Subscript)) and isinstance(n.ctx, (ast.Store, ast.Del)):
            bail(n, "store into `%s` inside desired_pressure_status" % src_of(n)[:60])
        if isinstance(n, (ast.For, ast.While, ast.Try, ast.With, ast.Break, ast.Continue, ast.AugAssign, ast.Delete, ast.Global,
                          ast.Nonlocal, ast.FunctionDef, ast.ClassDef, ast.Import, ast.ImportFrom, ast.Assert)) and n is not fn:
            bail(n, "%s inside desired_pressure_status" % type(n).__name__)
        if isinstance(n, ast.Return) and n.value is not None:
            bail(n, "`%s`" % src_of(n)[:60])
        if isinstance(n, ast.Return):
            bail(n, "early `return` (the check could be skipped)")
    tr = Tr(fn)
    body = body_no_doc(fn)
    the_if = None
    for s in body:
        if isinstance(s, ast.If):
            if the_if is not None:
                bail(s, "a second `if` statement")
            the_if = s
            continue
        if isinstance(s, ast.Raise):
            bail(s, "unconditional raise")
        if check_diag(s):
            continue
        if the_if is not None:
            bail(s, "statement `%s` after the range check (only logging is accepted there)" % src_of(s)[:80])
        if isinstance(s, ast.Assign) and len(s.targets) == 1:
            t = s.targets[0]
            if isinstance(t, ast.Name):
                tr.bind(t.id, s.value, s)
                continue
            if isinstance(t, ast.Tuple) and isinstance(s.value, ast.Tuple) and len(t.elts) == len(s.value.elts) \
                    and all(isinstance(x, ast.Name) for x in t.elts):
                # right-hand sides are evaluated before any name is bound
                for x in s.value.elts:
                    for nm in ast.walk(x):
                        if isinstance(nm, ast.Name) and nm.id in [y.id for y in t.elts]:
                            bail(s, "tuple assignment whose right-hand side mentions its own targets")
                for x, v in zip(t.elts, s.value.elts):
                    tr.bind(x.id, v, s)
                continue
        bail(s, "statement `%s` (accepted: logger calls, `name = E`, `a, b = E, E`, the raising `if`)"
             % src_of(s)[:80].split("\n")[0])
    if the_if is None:
        bail(fn, "no `if <condition>: ... raise ...` in desired_pressure_status (the range is never checked)")
    if the_if.orelse:
        bail(the_if.orelse[0], "the range check has an else branch")
    if not the_if.body or not isinstance(the_if.body[-1], ast.Raise):
        bail(the_if, "the branch of the range check does not end in `raise`")
    r = the_if.body[-1]
    if r.cause is not None or r.exc is None:
        bail(r, "`%s`" % src_of(r)[:60])
    nm = r.exc.func if isinstance(r.exc, ast.Call) else r.exc
    if not isinstance(nm, ast.Name):
        bail(r, "raised object `%s` is not a plain exception class" % src_of(r.exc)[:60])
    for s in the_if.body[:-1]:
        if isinstance(s, ast.Raise) or not check_diag(s, branch=True):
            bail(s, "statement `%s` inside the raising branch (accepted: logger calls, assignments to plain names)"
                 % src_of(s)[:80].split("\n")[0])
    cond = tr.cond(the_if.test)

    # glue: the check is called
    ad = module_class(mod, FILE, "QHACalculatorAdapter")
    lq = class_method(ad, FILE, "_load_qha_calculator", ["staticmethod"])
    top = [src_of(s) for s in lq.body]
    want = ["calculator = QHACalculator(user_settings)", "calculator.read_input(qha_input)", "calculator.refine_grid()",
            "calculator.desired_pressure_status()", "return calculator"]
    pos = []
    for w in want:
        if top.count(w) != 1:
            raise TranslateError(FILE, lq, "_load_qha_calculator: top-level statement `%s` occurs %d times (expected once)" % (w, top.count(w)))
        pos.append(top.index(w))
    if pos != sorted(pos):
        raise TranslateError(FILE, lq, "_load_qha_calculator: order of %s" % want)
    for n in ast.walk(lq):
        if isinstance(n, ast.Return) and src_of(n) != "return calculator":
            raise TranslateError(FILE, n, "_load_qha_calculator: `%s`" % src_of(n)[:60])
        if isinstance(n, (ast.Try, ast.With)):
            raise TranslateError(FILE, n, "_load_qha_calculator: %s (could swallow the ValueError)" % type(n).__name__)
        if isinstance(n, ast.Name) and n.id == "calculator" and isinstance(n.ctx, ast.Store) and \
                not any(n in ast.walk(s) for s in lq.body if src_of(s) == want[0]):
            raise TranslateError(FILE, n, "_load_qha_calculator: `calculator` is rebound")
    init = class_method(ad, FILE, "__init__")
    if "self.calculator = self._load_qha_calculator(settings, qha_input)" not in [src_of(s) for s in init.body]:
        raise TranslateError(FILE, init, "QHACalculatorAdapter.__init__ does not bind self.calculator = self._load_qha_calculator(settings, qha_input)")
    return dict(cond=cond, lets=tr.lets, exc=nm.id)


HEADER = """(* GENERATED by tools/translate_prange.py from %s of the current source tree - do not edit *)
From Coq Require Import ZArith List Bool String.
From Cij Require Import Ops V2PModel.
From CijGen Require Import PRangeTieBase.
Import ListNotations.
Local Open Scope Z_scope.

"""


def emit(res) -> str:
    lets = "".join("    let %s := %s in\n" % (i, t) for i, t in res["lets"])
    return (HEADER % FILE +
            "Section GenPRange.\n  Context {F : Type} {OF : Ops F}.\n\n"
            "  (* QHACalculator.desired_pressure_status raises iff this is Some true;  p_tv = self.p_tv_gpa as a list of rows\n"
            "     (one per temperature), desired = self.desired_pressures_gpa *)\n"
            "  Definition g_raise_cond (p_tv : list (list F)) (desired : list F) : option bool :=\n%s    %s.\n"
            "End GenPRange.\n\n"
            "Definition g_raise_exc : string := %s.\n" % (lets, res["cond"], coq_str(res["exc"])))


if __name__ == "__main__":
    import sys
    root = sys.argv[1] if len(sys.argv) > 1 else "/repo"
    try:
        print(emit(translate(open(root + "/" + FILE).read())))
    except TranslateError as e:
        print("(* ERROR: %s *)" % e)
