"""Fail-closed translator for the task identity of cij/core/tasks.py (static tie of C04).

    PhononContributionTaskParams._make_param_by_strain_key
        -> g_param_shear     what the shear branch returns, in order             (PStrain, PKey)
        -> g_param_row n     the n-th returned array of the non-shear branch as a per-row (per volume) function of
                             the four indices (i, j, k, l) = key.s and the row r of `strain`
                             (strain[:, e] -> element e of r;  numpy.sum(strain, axis=1) -> suml r; pointwise + - * /)
    PhononContributionTaskParams.__eq__
        -> g_eq              decision function over the observable facts
                               same_type   self.calc_type == other.calc_type
                               is_shear    self.calc_type == ElasticModulusCalculationType.SHEAR
                               key_eq      self.params[1] == other.params[1]              (meaningful for shear tasks)
                               strain_eq   numpy.array_equal(params[0], params[0])        (shear tasks: the strain arrays)
                               c0_eq,c1_eq numpy.array_equal of the two normalised columns (non-shear tasks)
                             with Python's evaluation order; an atom evaluated where it is not meaningful (key comparison
                             of arrays, array comparison across calc types) is `None`
    PhononContributionTaskParams.__hash__
        -> g_hash            the hash expression per branch over abstract component hashes

Anything outside the grammar raises TranslateError(file, line, construct).

GRAMMAR
  _make_param_by_strain_key(strain, key)   [@staticmethod]
        if key.is_shear: return strain, key
        else: i, j, k, l = key.s ; return (VEC, VEC)          (or the two branches swapped under `if not key.is_shear`;
                                                               the else may be dropped after a branch ending in return)
    VEC ::= VEC + VEC | VEC - VEC | VEC * VEC | VEC / VEC | strain[:, IDX] | numpy.sum(strain, axis=1|-1)
          | strain.sum(axis=1|-1) | local                     (all of shape (ntv,); anything else is a broadcasting error)
          locals: `name = VEC` or `a, b = VEC, VEC`, each name assigned once
    IDX ::= name | name - int | name + int | int              name one of the four unpacked indices
  __eq__(self, other)
    S ::= if C: S+ [else: S+] | return C                      (falling off the end is refused)
    C ::= True | False | not C | C and C | C or C | ATOM
    ATOM ::= self.calc_type ==|!= other.calc_type | self.calc_type ==|!= ElasticModulusCalculationType.SHEAR
           | self.params[1] ==|!= other.params[1] | numpy.array_equal(X.params[n], Y.params[n]) | numpy.array_equal(X.params, Y.params)
           (X, Y = self, other in either order)
  __hash__(self)
    (name = H)*  then  if self.calc_type ==|!= ElasticModulusCalculationType.SHEAR: return H  [else:] return H   | return H
    (locals are pure hash expressions, substituted; each must be read by every return)
    H ::= H ^ H | H + H | H * int | int | hash(X) | hash((X, ...)) | local
    X ::= self.calc_type | self.params[n] | tuple(self.params[n].flatten().tolist()) | tuple(self.params[n].tolist())
        | self.params[n].tobytes()

ONLY PATTERN-CHECKED (glue): the NamedTuple fields are (calc_type, params) in this order; `create` is
`return cls(key.calc_type, cls._make_param_by_strain_key(strain, key))`; numpy / ElasticModulusCalculationType are the
module-level imports; key.is_shear / key.s / key.calc_type are those of cij/util/voigt.py (C10).
"""
import ast

from tie_common import (TranslateError, parse, src_of, body_no_doc, module_class, class_method, arg_names, no_reflection,
                        module_binding_checks, is_full_slice, int_const, zlit, bindings_of)

FILE = "cij/core/tasks.py"
CLS = "PhononContributionTaskParams"
SHEAR = "ElasticModulusCalculationType.SHEAR"


def bail(node, what):
    raise TranslateError(FILE, node, what)


# ---------------------------------------------------------------------------------------------------
# _make_param_by_strain_key
# ---------------------------------------------------------------------------------------------------

class ParamTr:
    def __init__(self):
        self.idx = {}        # python name -> coq name (i j k l)
        self.locals = {}

    def index(self, e):
        c = int_const(e)
        if c is not None:
            return zlit(c)
        if isinstance(e, ast.Name) and e.id in self.idx:
            return self.idx[e.id]
        if isinstance(e, ast.BinOp) and isinstance(e.op, (ast.Add, ast.Sub)):
            return "(%s %s %s)" % (self.index(e.left), "+" if isinstance(e.op, ast.Add) else "-", self.index(e.right))
        bail(e, "column index `%s` (accepted: one of the unpacked indices, +/- integer literals)" % src_of(e)[:60])

    def vec(self, e):
        if isinstance(e, ast.BinOp):
            ops = {ast.Add: "add", ast.Sub: "sub", ast.Mult: "mul", ast.Div: "div"}
            if type(e.op) not in ops:
                bail(e, "operator %s in `%s`" % (type(e.op).__name__, src_of(e)[:80]))
            return "(%s %s %s)" % (ops[type(e.op)], self.vec(e.left), self.vec(e.right))
        if isinstance(e, ast.Name) and e.id in self.locals:
            return self.locals[e.id]
        if isinstance(e, ast.Subscript) and src_of(e.value) == "strain":
            sl = e.slice
            if isinstance(sl, ast.Tuple) and len(sl.elts) == 2 and is_full_slice(sl.elts[0]):
                return "(row_at %s r)" % self.index(sl.elts[1])
            bail(e, "`%s` (accepted: strain[:, <index>] - one column over all volumes)" % src_of(e)[:80])
        if isinstance(e, ast.Call):
            f = src_of(e.func)
            args = [src_of(a) for a in e.args]
            kw = {k.arg: src_of(k.value) for k in e.keywords}
            if (f == "numpy.sum" and args == ["strain"] or f == "strain.sum" and args == []) and set(kw) == {"axis"}:
                if kw["axis"] in ("1", "-1"):
                    return "(suml r)"
                bail(e, "`%s`: sum over axis %s has shape (3,), not (ntv,) (broadcasting error or a different quantity)"
                     % (src_of(e)[:80], kw["axis"]))
        bail(e, "expression `%s` in the non-shear parameters" % src_of(e)[:100])


def translate_param(cls):
    fn = class_method(cls, FILE, "_make_param_by_strain_key", ["staticmethod"])
    arg_names(fn, FILE, ["strain", "key"])
    no_reflection(fn, FILE)
    b = body_no_doc(fn)
    if not b or not isinstance(b[0], ast.If):
        bail(b[0] if b else fn, "_make_param_by_strain_key does not start with `if key.is_shear:` / `if not key.is_shear:`")
    if b[0].orelse and len(b) == 1:
        first, second = b[0].body, b[0].orelse
    elif not b[0].orelse and len(b) > 1 and b[0].body and isinstance(b[0].body[-1], ast.Return):
        # dropped else after return: the statements after the `if` are the other branch
        first, second = b[0].body, b[1:]
    else:
        bail(b[0], "_make_param_by_strain_key is not `if key.is_shear: ... else: ...` (or the same with the else dropped "
                   "after a branch that ends in return)")
    t = src_of(b[0].test)
    if t == "key.is_shear":
        sh, ns = first, second
    elif t == "not key.is_shear":
        ns, sh = first, second
    else:
        bail(b[0].test, "branch condition `%s` (accepted: key.is_shear / not key.is_shear)" % t[:60])
    if len(sh) != 1 or not isinstance(sh[0], ast.Return) or not isinstance(sh[0].value, ast.Tuple) \
            or [src_of(x) for x in sh[0].value.elts] not in (["strain", "key"], ["key", "strain"]):
        bail(sh[0], "shear branch `%s` (accepted: return strain, key)" % src_of(sh[0])[:80])
    shear_ret = ["PStrain" if src_of(x) == "strain" else "PKey" for x in sh[0].value.elts]
    tr = ParamTr()
    if not ns or not isinstance(ns[-1], ast.Return) or not isinstance(ns[-1].value, ast.Tuple) or len(ns[-1].value.elts) != 2:
        bail(ns[-1] if ns else b[0], "non-shear branch does not end in `return (<array>, <array>)`")
    lets = []
    for s in ns[:-1]:
        if isinstance(s, ast.Assign) and len(s.targets) == 1 and isinstance(s.targets[0], ast.Tuple) \
                and src_of(s.value) == "key.s" and not tr.idx:
            names = s.targets[0].elts
            if len(names) != 4 or not all(isinstance(n, ast.Name) for n in names) or len({n.id for n in names}) != 4:
                bail(s, "`%s` (accepted: four distinct names = key.s)" % src_of(s)[:80])
            for n, c in zip(names, ("i", "j", "k", "l")):
                if n.id in ("strain", "key", "numpy", "r"):
                    bail(s, "index name `%s`" % n.id)
                tr.idx[n.id] = c
            continue
        pairs = None
        if isinstance(s, ast.Assign) and len(s.targets) == 1 and isinstance(s.targets[0], ast.Name):
            pairs = [(s.targets[0], s.value)]
        elif isinstance(s, ast.Assign) and len(s.targets) == 1 and isinstance(s.targets[0], ast.Tuple) \
                and isinstance(s.value, ast.Tuple) and len(s.targets[0].elts) == len(s.value.elts) \
                and all(isinstance(t, ast.Name) for t in s.targets[0].elts) and tr.idx:
            # a, b = E1, E2 of array expressions: locals are single-assignment, so the right-hand sides cannot read the targets
            pairs = list(zip(s.targets[0].elts, s.value.elts))
        if pairs is not None:
            terms = [tr.vec(v) for _, v in pairs]          # all right-hand sides first
            for (t, _), term in zip(pairs, terms):
                nm = t.id
                if nm in tr.locals or nm in tr.idx or nm in ("strain", "key", "numpy", "r"):
                    bail(s, "local `%s` assigned twice / shadows a name" % nm)
                lets.append(("l_" + nm, term))
                tr.locals[nm] = "l_" + nm
            continue
        bail(s, "statement `%s` in the non-shear branch (accepted: `i, j, k, l = key.s`, `name = <array expression>`, `a, b = <array expression>, <array expression>`)" % src_of(s)[:80])
    for nm in list(tr.idx) + list(tr.locals) + ["strain", "key"]:
        if len(bindings_of(fn, nm)) != 1:
            bail(fn, "name `%s` is bound more than once in _make_param_by_strain_key" % nm)
    rows = []
    for x in ns[-1].value.elts:
        rows.append("".join("let %s := %s in " % lt for lt in lets) + tr.vec(x))
    return dict(shear=shear_ret, rows=rows)


# ---------------------------------------------------------------------------------------------------
# __eq__
# ---------------------------------------------------------------------------------------------------

class EqTr:
    def __init__(self, me, other):
        self.me, self.other = me, other

    def pair(self, a, b, suffix):
        """a, b are `self<suffix>` and `other<suffix>` in either order"""
        return {src_of(a), src_of(b)} == {self.me + suffix, self.other + suffix}

    def atom(self, t):
        if isinstance(t, ast.Compare) and len(t.ops) == 1 and isinstance(t.ops[0], (ast.Eq, ast.NotEq)):
            a, b = t.left, t.comparators[0]
            neg = isinstance(t.ops[0], ast.NotEq)
            term = None
            if self.pair(a, b, ".calc_type"):
                term = "(a_fact same_type)"
            elif {src_of(a), src_of(b)} == {self.me + ".calc_type", SHEAR}:
                term = "(a_fact is_shear)"
            elif self.pair(a, b, ".params[1]"):
                term = "(a_key same_type is_shear key_eq)"
            if term is not None:
                return "(c_not %s)" % term if neg else term
        if isinstance(t, ast.Call) and src_of(t.func) == "numpy.array_equal" and len(t.args) == 2 and not t.keywords:
            a, b = t.args
            if self.pair(a, b, ".params[0]"):
                return "(a_arr0 same_type is_shear strain_eq c0_eq)"
            if self.pair(a, b, ".params[1]"):
                return "(a_arr1 same_type is_shear c1_eq)"
            if self.pair(a, b, ".params"):
                return "(a_params same_type is_shear c0_eq c1_eq)"
        return None

    def cond(self, t):
        if isinstance(t, ast.Constant) and t.value is True:
            return "(a_fact true)"
        if isinstance(t, ast.Constant) and t.value is False:
            return "(a_fact false)"
        if isinstance(t, ast.UnaryOp) and isinstance(t.op, ast.Not):
            return "(c_not %s)" % self.cond(t.operand)
        if isinstance(t, ast.BoolOp):
            f = "c_and" if isinstance(t.op, ast.And) else "c_or"
            parts = [self.cond(v) for v in t.values]
            out = parts[-1]
            for p in reversed(parts[:-1]):
                out = "(%s %s %s)" % (f, p, out)
            return out
        a = self.atom(t)
        if a is not None:
            return a
        bail(t, "condition `%s` in __eq__ (accepted: calc_type comparisons, `X.params[1] ==|!= Y.params[1]`, "
                "numpy.array_equal(X.params[n], Y.params[n]), numpy.array_equal(X.params, Y.params), not/and/or, True/False)"
             % src_of(t)[:100])

    def stmts(self, ss, k, ind="    "):
        """k: continuation term (None = falls off the end)"""
        if not ss:
            return k
        s, rest = ss[0], ss[1:]
        if isinstance(s, ast.Return):
            if s.value is None:
                bail(s, "bare `return` in __eq__")
            return self.cond(s.value)
        if isinstance(s, ast.If):
            after = self.stmts(rest, k, ind)
            th = self.stmts(s.body, after, ind + "  ")
            el = self.stmts(s.orelse, after, ind + "  ") if s.orelse else after
            if th is None or el is None:
                bail(s, "a path through __eq__ falls off the end (returns None)")
            return "(c_if %s\n%s %s\n%s %s)" % (self.cond(s.test), ind, th, ind, el)
        if isinstance(s, ast.Pass):
            return self.stmts(rest, k, ind)
        bail(s, "statement `%s` in __eq__ (accepted: if / return)" % src_of(s)[:80].split("\n")[0])


def translate_eq(cls):
    fn = class_method(cls, FILE, "__eq__")
    if len(fn.args.args) != 2:
        bail(fn, "__eq__ does not take (self, other)")
    arg_names(fn, FILE, [a.arg for a in fn.args.args])
    no_reflection(fn, FILE)
    me, other = [a.arg for a in fn.args.args]
    for nm in (me, other, "numpy", "ElasticModulusCalculationType"):
        if len(bindings_of(fn, nm)) != (1 if nm in (me, other) else 0):
            bail(fn, "name `%s` is rebound inside __eq__" % nm)
    term = EqTr(me, other).stmts(body_no_doc(fn), None)
    if term is None:
        bail(fn, "__eq__ falls off the end (returns None)")
    return term


# ---------------------------------------------------------------------------------------------------
# __hash__
# ---------------------------------------------------------------------------------------------------

def hash_obj(me, x):
    s = src_of(x)
    if s == me + ".calc_type":
        return "HType"
    for n in (0, 1):
        p = "%s.params[%d]" % (me, n)
        if s == p:
            return "(HObj %d%%nat)" % n
        if s in ("tuple(%s.flatten().tolist())" % p, "tuple(%s.tolist())" % p, "%s.tobytes()" % p,
                 "tuple(%s.ravel().tolist())" % p):
            return "(HArr %d%%nat)" % n
    return None


def hash_expr(me, e, env=None):
    env = env or {}
    if isinstance(e, ast.Name) and e.id in env:
        return env[e.id]
    if isinstance(e, ast.BinOp) and isinstance(e.op, (ast.BitXor, ast.Add)):
        return "(HBin %s %s)" % (hash_expr(me, e.left, env), hash_expr(me, e.right, env))
    if isinstance(e, ast.BinOp) and isinstance(e.op, ast.Mult) and int_const(e.right) is not None:
        return "(HBin %s HConst)" % hash_expr(me, e.left, env)
    if int_const(e) is not None:
        return "HConst"
    if isinstance(e, ast.Call) and src_of(e.func) == "hash" and len(e.args) == 1 and not e.keywords:
        a = e.args[0]
        if isinstance(a, ast.Tuple):
            parts = [hash_obj(me, x) for x in a.elts]
            if parts and all(p is not None for p in parts):
                out = "(HLeaf %s)" % parts[-1]
                for p in reversed(parts[:-1]):
                    out = "(HBin (HLeaf %s) %s)" % (p, out)
                return out
        o = hash_obj(me, a)
        if o is not None:
            return "(HLeaf %s)" % o
    bail(e, "hash expression `%s` (accepted: ^ / + of hash(self.calc_type), hash(self.params[n]), "
            "hash(tuple(self.params[n].flatten().tolist())), hash((...)))" % src_of(e)[:100])


def translate_hash(cls):
    fn = class_method(cls, FILE, "__hash__")
    arg_names(fn, FILE, [a.arg for a in fn.args.args])
    if len(fn.args.args) != 1:
        bail(fn, "__hash__ does not take (self)")
    no_reflection(fn, FILE)
    me = fn.args.args[0].arg
    b = body_no_doc(fn)
    # leading single-assignment locals `name = H`: pure hash expressions, substituted where they are read.  A local
    # must be read by EVERY return expression (otherwise an error raised while computing it would be lost).
    env, reads = {}, {}
    while b and isinstance(b[0], ast.Assign) and len(b[0].targets) == 1 and isinstance(b[0].targets[0], ast.Name):
        nm = b[0].targets[0].id
        if nm in env or nm == me or nm in ("hash", "tuple", "numpy", "ElasticModulusCalculationType"):
            bail(b[0], "local `%s` assigned twice / shadows a name" % nm)
        env[nm] = hash_expr(me, b[0].value, env)
        direct = {n.id for n in ast.walk(b[0].value) if isinstance(n, ast.Name) and n.id in reads}
        reads[nm] = direct.union(*[reads[d] for d in direct]) if direct else set()
        b = b[1:]
    for nm in env:
        if len(bindings_of(fn, nm)) != 1:
            bail(fn, "name `%s` is bound more than once in __hash__" % nm)

    def ret(ss):
        if len(ss) != 1 or not isinstance(ss[0], ast.Return) or ss[0].value is None:
            bail(ss[0] if ss else fn, "a branch of __hash__ is not a single `return <hash expression>`")
        direct = {n.id for n in ast.walk(ss[0].value) if isinstance(n, ast.Name) and n.id in env}
        seen = direct.union(*[reads[d] for d in direct]) if direct else set()
        for nm in env:
            if nm not in seen:
                bail(ss[0], "local `%s` is computed but not used by this return (its exceptions would be lost)" % nm)
        return hash_expr(me, ss[0].value, env)
    if len(b) == 1 and isinstance(b[0], ast.Return):
        h = ret(b)
        return h, h
    if b and isinstance(b[0], ast.If):
        # `if C: return H else: return H`   or   `if C: return H` followed by `return H` (dropped else after return)
        if b[0].orelse and len(b) == 1:
            th_s, el_s = b[0].body, b[0].orelse
        elif not b[0].orelse and len(b) == 2:
            th_s, el_s = b[0].body, b[1:]
        else:
            bail(b[0], "__hash__ shape (accepted: `if C: return H else: return H` / `if C: return H` + `return H`)")
        t = b[0].test
        if isinstance(t, ast.Compare) and len(t.ops) == 1 and isinstance(t.ops[0], (ast.Eq, ast.NotEq)) and \
                {src_of(t.left), src_of(t.comparators[0])} == {me + ".calc_type", SHEAR}:
            th, el = ret(th_s), ret(el_s)
            return (th, el) if isinstance(t.ops[0], ast.Eq) else (el, th)      # (shear, non-shear)
        bail(t, "branch condition `%s` of __hash__" % src_of(t)[:80])
    bail(b[0] if b else fn, "__hash__ is not `[locals] return H` or `[locals] if self.calc_type ==|!= %s: return H [else:] return H`" % SHEAR)


# ---------------------------------------------------------------------------------------------------

class Result:
    def __init__(self):
        self.errors = {}
        self.param = self.eq = self.hash = None


def translate(source):
    res = Result()
    mod = parse(source)
    try:
        module_binding_checks(mod, FILE, {"numpy": ("import", "import numpy"),
                                          "ElasticModulusCalculationType": ("from", "cij.util")})
        cls = module_class(mod, FILE, CLS)
        if [src_of(b) for b in cls.bases] != ["NamedTuple"]:
            bail(cls, "%s bases %s (expected NamedTuple)" % (CLS, [src_of(b) for b in cls.bases]))
        fields = [n.target.id for n in cls.body if isinstance(n, ast.AnnAssign) and isinstance(n.target, ast.Name)]
        if fields != ["calc_type", "params"] or any(n.value is not None for n in cls.body if isinstance(n, ast.AnnAssign)):
            bail(cls, "%s fields %s (expected calc_type, params without defaults)" % (CLS, fields))
        for n in cls.body:
            if isinstance(n, ast.FunctionDef) and n.name in ("__new__", "__getattribute__", "__getattr__", "__ne__"):
                bail(n, "%s defines %s" % (CLS, n.name))
        cr = class_method(cls, FILE, "create", ["classmethod"])
        arg_names(cr, FILE, ["cls", "strain", "key"])
        if [src_of(s) for s in body_no_doc(cr)] != ["return cls(key.calc_type, cls._make_param_by_strain_key(strain, key))"]:
            bail(cr, "create is not `return cls(key.calc_type, cls._make_param_by_strain_key(strain, key))`")
    except TranslateError as e:
        res.errors["module"] = e
        return res
    for name, f in (("param", translate_param), ("eq", translate_eq), ("hash", translate_hash)):
        try:
            setattr(res, name, f(cls))
        except TranslateError as e:
            res.errors[name] = e
    return res


HEADER = """(* GENERATED by tools/translate_taskid.py from %s of the current source tree - do not edit *)
From Coq Require Import ZArith List Bool.
From Cij Require Import Ops TasksModel.
From CijGen Require Import TaskIdTieBase.
Import ListNotations.
Local Open Scope Z_scope.

"""


def emit(res: Result) -> str:
    out = [HEADER % FILE]
    for k, e in res.errors.items():
        out.append("(* %s: NOT TRANSLATED - %s *)\n" % (k, str(e).replace("*)", "* )")))
    if res.param is not None:
        out.append("(* _make_param_by_strain_key: the shear branch returns *)")
        out.append("Definition g_param_shear : pret * pret := (%s, %s).\n" % tuple(res.param["shear"]))
        out.append("Section GenParam.\n  Context {F : Type} {OF : Ops F}.")
        for n, row in enumerate(res.param["rows"]):
            out.append("  (* non-shear branch, returned array %d, one volume: (i, j, k, l) = key.s, r = strain[v, :] *)" % n)
            out.append("  Definition g_param%d_row (i j k l : Z) (r : list F) : F :=\n    %s." % (n, row))
        out.append("End GenParam.\n")
    if res.eq is not None:
        out.append("(* __eq__ *)")
        out.append("Definition g_eq (same_type is_shear key_eq strain_eq c0_eq c1_eq : bool) : option bool :=\n  %s.\n" % res.eq)
    if res.hash is not None:
        out.append("(* __hash__: (shear branch, non-shear branch) *)")
        out.append("Definition g_hash (is_shear : bool) : hexpr :=\n  if is_shear then %s\n  else %s.\n" % res.hash)
    return "\n".join(out)


if __name__ == "__main__":
    import sys
    root = sys.argv[1] if len(sys.argv) > 1 else "/repo"
    r = translate(open(root + "/" + FILE).read())
    for k, e in r.errors.items():
        print("(* ERROR %s: %s *)" % (k, e))
    print(emit(r))
