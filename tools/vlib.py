"""Shared machinery for the cij verification checks.

Every property module (tools/props/cNN.py) exposes  run(ctx) -> None  and records
into ctx:
  * obligations  - named proof obligations / correspondence shards with ok flag
  * failures     - concrete failing inputs (dicts with a stable 'key')
  * coverage     - evaluations, distinct cases, samples, distribution
The driver (check.py) turns that into evidence, replay files and the
VIOLATION / KNOWN-FINDING protocol.
"""
import fcntl
import hashlib
import json
import math
import os
import random
import re
import subprocess
import time
from fractions import Fraction
from pathlib import Path

VERIF = Path("/verif")
REPO = Path(os.environ.get("VERIF_REPO") or "/repo")   # checks always run against /repo; the override exists for mutant testing in scratch copies
COQ = VERIF / "coq"
THEORIES = COQ / "theories"
PROPS = COQ / "props"
RUN = COQ / "run"

COQ_FLAGS = ["-Q", str(THEORIES), "Cij", "-Q", str(PROPS), "CijProps", "-w", "-all"]

TRUSTED_BASE_COMMON = [
    "Coq 8.16.1 kernel (coqc, full .vo builds); vm_compute used for certificates and case shards; native_compute not used",
    "no Axiom/Parameter/Admitted in /verif/coq (grep gate in every run)",
    "correspondence harness /verif/tools (Python 3.12, exact float.hex export; comparison happens inside Coq)",
]


# ----------------------------------------------------------------------------------------
# literals
# ----------------------------------------------------------------------------------------

def fhex(x) -> str:
    """Python float -> exact Coq primitive-float literal."""
    x = float(x)
    if math.isnan(x):
        return "nan"
    if math.isinf(x):
        return "infinity" if x > 0 else "neg_infinity"
    h = x.hex()
    if h.startswith("-"):
        return "(-%s)" % h[1:]
    return h


def flist(xs) -> str:
    return "[" + "; ".join(fhex(x) for x in xs) + "]"


def flist2(xss) -> str:
    return "[" + ";\n ".join(flist(xs) for xs in xss) + "]"


def flist3(xsss) -> str:
    return "[" + ";\n ".join(flist2(xss) for xss in xsss) + "]"


def flist4(x4) -> str:
    return "[" + ";\n ".join(flist3(x3) for x3 in x4) + "]"


def qlit(x) -> str:
    """Exact rational literal (n # d) of a float / Fraction / int."""
    fr = Fraction(x)
    n, d = fr.numerator, fr.denominator
    if n < 0:
        return "((%d) # %d)" % (n, d)
    return "(%d # %d)" % (n, d)


def zlit(n) -> str:
    n = int(n)
    return "(%d)" % n if n < 0 else "%d" % n


def zlist(xs) -> str:
    return "[" + "; ".join(zlit(x) for x in xs) + "]"


def blit(b) -> str:
    return "true" if b else "false"


def coq_string(s: str) -> str:
    """Coq string literal (ASCII only; '"' doubled)."""
    assert all(32 <= ord(c) < 127 or c in "\n\t" for c in s), repr(s)
    return '"' + s.replace('"', '""') + '"'


# ----------------------------------------------------------------------------------------
# Coq driving
# ----------------------------------------------------------------------------------------

FORBIDDEN = re.compile(
    r"\b(Admitted|admit|Axiom|Axioms|Parameter|Parameters|Conjecture|Abort All|"
    r"Unset Guard Checking|Unset Positivity Checking|Unset Universe Checking|bypass_check|"
    r"Admit Obligations|type-in-type|impredicative-set)\b")


def forbidden_gate():
    """grep gate over the hand-written development."""
    bad = []
    for d in (THEORIES, PROPS):
        for f in sorted(d.glob("*.v")):
            txt = strip_comments(f.read_text())
            for m in FORBIDDEN.finditer(txt):
                bad.append("%s: %s" % (f.name, m.group(0)))
    return bad


def strip_comments(txt: str) -> str:
    out, depth, i = [], 0, 0
    while i < len(txt):
        if txt.startswith("(*", i):
            depth += 1
            i += 2
        elif txt.startswith("*)", i) and depth:
            depth -= 1
            i += 2
        else:
            if depth == 0:
                out.append(txt[i])
            i += 1
    return "".join(out)


def ensure_theories(log=None):
    """Build the static theories if their .vo files are missing or stale.
    Serialised by a lock so that parallel checks do not race in make."""
    COQ.mkdir(exist_ok=True)
    with open(COQ / ".build.lock", "w") as lk:
        fcntl.flock(lk, fcntl.LOCK_EX)
        if not (COQ / "Makefile").exists() or \
                (COQ / "Makefile").stat().st_mtime < (COQ / "_CoqProject").stat().st_mtime:
            subprocess.run(["coq_makefile", "-f", "_CoqProject", "-o", "Makefile"], cwd=COQ,
                           stdout=subprocess.DEVNULL, stderr=subprocess.DEVNULL, check=True)
        p = subprocess.run(["timeout", "3000", "make", "-j16"], cwd=COQ, stdout=subprocess.PIPE,
                           stderr=subprocess.STDOUT, text=True)
        if p.returncode != 0:
            tail = "\n".join(p.stdout.splitlines()[-30:])
            raise RuntimeError("static Coq theories do not build:\n" + tail)


def coqc(path: Path, extra_Q=(), timeout=600):
    """Compile one file. Returns (ok, output)."""
    cmd = ["timeout", str(timeout), "coqc"] + COQ_FLAGS
    for d, name in extra_Q:
        cmd += ["-Q", str(d), name]
    cmd.append(str(path))
    env = dict(os.environ)
    p = subprocess.run(cmd, stdout=subprocess.PIPE, stderr=subprocess.STDOUT, text=True,
                       cwd=str(path.parent), env=env)
    return p.returncode == 0, p.stdout


def coqc_many(paths, extra_Q=(), timeout=600, jobs=16):
    """Compile independent files in parallel. Returns {path: (ok, output)}."""
    from concurrent.futures import ThreadPoolExecutor
    with ThreadPoolExecutor(max_workers=jobs) as ex:
        res = list(ex.map(lambda p: coqc(p, extra_Q, timeout), paths))
    return dict(zip(paths, res))


AXIOM_HDR = re.compile(r"^Axioms:\s*$")


def parse_assumptions(output: str):
    """Parse the output of `Print Assumptions` commands in a compiled file.
    Returns list of (closed: bool, axioms: [names]).  An axiom entry starts in column 0
    (`Name : type` or, when the type wraps, `Name` alone); continuation lines are indented."""
    blocks = []
    lines = output.splitlines()
    i = 0
    while i < len(lines):
        ln = lines[i]
        if ln.startswith("Closed under the global context"):
            blocks.append((True, []))
        elif AXIOM_HDR.match(ln):
            names = []
            i += 1
            while i < len(lines):
                l2 = lines[i]
                if AXIOM_HDR.match(l2) or l2.startswith("Closed under the global context"):
                    i -= 1
                    break
                m = re.match(r"^([A-Za-z_][\w.']*)\s*(:.*)?$", l2)
                if m and m.group(1) != "Axioms":
                    names.append(m.group(1))
                elif l2 and not l2[0].isspace():
                    i -= 1
                    break
                i += 1
            blocks.append((False, names))
        i += 1
    return blocks


STDLIB_AXIOMS_OK = {
    "ClassicalDedekindReals.sig_forall_dec",
    "ClassicalDedekindReals.sig_not_dec",
    "FunctionalExtensionality.functional_extensionality_dep",
    "Classical_Prop.classic",
    "ClassicalEpsilon.constructive_indefinite_description",
    "Eqdep.Eq_rect_eq.eq_rect_eq",
    "JMeq.JMeq_eq",
    "ProofIrrelevance.proof_irrelevance",
    "PropExtensionality.propositional_extensionality",
}


def parse_failing(output: str):
    """Parse `Eval vm_compute in (failing ...)` printed lists of nats: returns list of lists.
    Fail-closed: a token that is not a number (after stripping a %nat scope suffix) is
    reported as index -1, so an unparsable list can never be read as 'no failures'."""
    res = []
    for m in re.finditer(r"=\s*\[([^\]]*)\]\s*:\s*list nat", output.replace("\n", " ")):
        body = m.group(1).strip()
        lst = []
        if body:
            for t in re.split(r"[;\s]+", body):
                t = t.strip()
                if not t:
                    continue
                t = re.sub(r"%nat$", "", t).strip("()")
                lst.append(int(t) if t.isdigit() else -1)
        res.append(lst)
    return res


# ----------------------------------------------------------------------------------------
# context
# ----------------------------------------------------------------------------------------

class Ctx:
    def __init__(self, pid, tier, seed):
        self.pid = pid
        self.tier = tier
        self.seed = seed
        self.rng = random.Random("%s-%d" % (pid, seed))
        # VERIF_TAG: side runs (seed soaks) get their own run directory and evidence location so that they can run next
        # to a registered check of the same property
        # the thorough tier has its own directory so that a quick and a thorough run of one property may overlap
        self.run_dir = RUN / (pid + ("_thorough" if tier == "thorough" else "")
                              + ("_" + os.environ["VERIF_TAG"] if os.environ.get("VERIF_TAG") else ""))
        self.obligations = []      # dict(name, kind, ok, detail)
        self.failures = []         # dict(key, what, input, expected, observed)
        self.samples = []
        self.evaluations = 0
        self.distinct = set()
        self.nontrivial = 0
        self.rule = ""
        self.dist = {}
        self.assumptions = []
        self.axioms = {}
        self.extra = {}
        self.trusted = list(TRUSTED_BASE_COMMON)
        self.partial = []
        self.t0 = time.time()

    # -- bookkeeping -------------------------------------------------------------------
    def fresh_run_dir(self):
        import shutil
        if self.run_dir.exists():
            shutil.rmtree(self.run_dir)
        self.run_dir.mkdir(parents=True)
        return self.run_dir

    def obligation(self, name, kind, ok, detail=""):
        self.obligations.append(dict(name=name, kind=kind, ok=bool(ok), detail=detail[-2000:]))

    def failure(self, key, what, **kw):
        self.failures.append(dict(key=key, what=what, **kw))

    def case(self, canon, nontrivial=True):
        """count one evaluated case; canon = canonical JSON-able description for distinctness"""
        self.evaluations += 1
        h = hashlib.sha1(json.dumps(clean(canon), sort_keys=True, default=str).encode()).hexdigest()
        if h not in self.distinct:
            self.distinct.add(h)
            if nontrivial:
                self.nontrivial += 1

    def count(self, k, n=1):
        self.dist[k] = self.dist.get(k, 0) + n

    def sample(self, s, limit=6):
        if len(self.samples) < limit:
            self.samples.append(s)

    # -- Coq ---------------------------------------------------------------------------
    def prove(self, path: Path, name=None, kind="theorem-file", timeout=900, extra_Q=()):
        """compile a file that contains theorems; record as obligation; collect axioms"""
        ok, out = coqc(path, extra_Q=extra_Q, timeout=timeout)
        name = name or path.name
        self.obligation(name, kind, ok, "" if ok else out)
        for closed, names in parse_assumptions(out):
            for n in names:
                self.axioms[n] = self.axioms.get(n, 0) + 1
        return ok, out

    def run_shards(self, files, extra_Q=(), timeout=900, label="shard"):
        """compile case shards; each prints failing index lists; returns {file: (ok, failing)}"""
        res = coqc_many(files, extra_Q=extra_Q, timeout=timeout)
        out = {}
        for f in files:
            ok, txt = res[f]
            fl = parse_failing(txt)
            flat = [i for l in fl for i in l]
            good = ok and not flat
            self.obligation("%s:%s" % (label, f.name), "correspondence-shard", good,
                            "" if good else txt)
            out[f] = (ok, fl, txt)
        return out


def write(path: Path, text: str):
    path.parent.mkdir(parents=True, exist_ok=True)
    path.write_text(text)
    return path


def jsonable(x):
    try:
        import numpy
        if isinstance(x, numpy.ndarray):
            return x.tolist()
        if isinstance(x, (numpy.floating,)):
            return float(x)
        if isinstance(x, (numpy.integer,)):
            return int(x)
    except ImportError:
        pass
    if isinstance(x, Fraction):
        return str(x)
    if isinstance(x, (set, tuple)):
        return list(x)
    if isinstance(x, complex):
        return [x.real, x.imag]
    return str(x)


def clean(x):
    """make any structure JSON-serialisable (tuple dict keys -> str, numpy -> python)"""
    try:
        import numpy
        if isinstance(x, numpy.ndarray):
            return clean(x.tolist())
        if isinstance(x, numpy.generic):
            return clean(x.item())
    except ImportError:
        pass
    if isinstance(x, dict):
        return {(k if isinstance(k, (str, int, float, bool)) or k is None else str(k)): clean(v) for k, v in x.items()}
    if isinstance(x, (list, tuple, set, frozenset)):
        return [clean(v) for v in x]
    if isinstance(x, float):
        return x if x == x and x not in (float("inf"), float("-inf")) else repr(x)
    if isinstance(x, (str, int, bool)) or x is None:
        return x
    if isinstance(x, complex):
        return [x.real, x.imag]
    return str(x)
