#!/usr/bin/env python3
"""Writes MANIFEST.json from the table below (kept in one place so it stays valid)."""
import json

CLAIMED = {}   # pid -> dict(text, note, technique, design_ref)
NOT_YET = {}   # pid -> reason

def claim(pid, text, note, technique, ref):
    CLAIMED[pid] = dict(text=text, note=note, technique=technique, ref=ref)

exec(open("/verif/tools/manifest_table.py").read())

checks = []
for pid in sorted(CLAIMED):
    c = CLAIMED[pid]
    checks.append(dict(
        property_id=pid,
        quick_cmd="./check %s --tier quick" % pid,
        thorough_cmd="./check %s --tier thorough" % pid,
        evidence_file="/verif/evidence/%s.json" % pid,
        replay_cmd_template="./check %s --replay {path}" % pid,
        engine="coq",
        level_claimed=dict(category="proof", text=c["text"], design_ref=c["ref"]),
        level_note=c["note"],
        technique=c["technique"],
    ))
allp = [json.loads(l)["id"] for l in open("/verif/properties.jsonl")]
na = [dict(property_id=p, reason=NOT_YET.get(p, "check not built yet in this round; see DESIGN.md section 3 for the planned model and theorems"))
      for p in allp if p not in CLAIMED]
m = dict(
    version=1,
    setup_cmd="cd /verif/coq && coq_makefile -f _CoqProject -o Makefile && timeout 3000 make -j16",
    hooks=dict(guard="MINERALSCLOUD_CIJ_VERIF",
               enable="export MINERALSCLOUD_CIJ_VERIF=1 (set by ./check; no hook code is currently present in /repo - every observation point is reachable from outside)",
               baseline_off_cmd="cd /repo && env -u MINERALSCLOUD_CIJ_VERIF /venv/bin/python -m pytest -ra -q -p no:cacheprovider --timeout=900 --continue-on-collection-errors",
               source_commits=[], add_only=True),
    engines=[dict(name="coq", path="/verif/coq", serves_properties=sorted(CLAIMED),
                  kind_free_text="Coq 8.16.1 development (theories/ static, props/ property theorems, run/ regenerated per check) driven by /verif/check (tools/check.py + tools/props/*.py)")],
    checks=checks,
    notes="Machine-checked proof in Coq 8.16.1: models in coq/theories, property theorems in coq/props, tie to /repo by fail-closed translators (regenerated and re-proved on every run) and by correspondence shards evaluated inside Coq on the implementation's observed inputs/outputs. See DESIGN.md.",
    not_applicable=na,
)
json.dump(m, open("/verif/MANIFEST.json", "w"), indent=1)
print("claimed", sorted(CLAIMED), "not claimed", [x["property_id"] for x in na])
