"""Fail-closed DATA-FLOW translator for the static part of C05.

    cij/core/full_modulus.py  FullThermalElasticModulus.fit_modulus, .get_static_modulus
    cij/core/calculator.py    Calculator._calculate_pressure_static
  ->  Gallina functions over ORACLES (section variables): numpy.polyfit, numpy.polyval, qha's
      polynomial_least_square_fitting and calculate_eulerian_strain, numpy.gradient, cij.util._from_gpa.  What is
      translated is which arrays flow into which oracle argument, with named axes:
          tbl    one entry per volume of the static-elasticity TABLE (elast.dat)      self.volumes, the key's column
          grid   one entry per volume of the (T, V) grid                              self.v_array
          q      one entry per volume of the PHONON file (input01)                    qha_input volumes / energies
      Elementwise operations are accepted only between arrays on the same axis (anything else is a broadcasting
      error or a length mismatch); a scalar is an array element `A[n]`.

Anything outside the grammar raises TranslateError(file, line, construct).

GRAMMAR (function bodies: `name = E` / `a, b = E, E` statements - a name may be assigned again, later reads see the
latest value; in a tuple assignment every right-hand side is evaluated before any name is bound -
then `return E` / `self.static_p_array = E`)
    V ::= self.volumes | self.v_array | <array parameter> | local | V + V | V - V | V * V | V / V | - V
        | numpy.add/subtract/multiply/divide(V, V) | numpy.negative(V)            (ufunc spellings of the operators)
        | calculate_eulerian_strain(S, V)                -> map (eulerian S) V
        | numpy.polyval(C, V)                            -> map (polyval C) V
        | _from_gpa(V)                                   -> map from_gpa V
        | numpy.gradient(V)                              -> gradient V
        | polynomial_least_square_fitting(V, V, V, order=Z)  -> plsq xs ys xnew Z          (axis of xnew)
        | self.fit_modulus(V [, order=Z | , Z])          -> g_fit_modulus ...               (get_static_modulus only)
        | numpy.array([volume.<field> for volume in self.<file>.volumes])                    (exact text; the sources;
          the iterable may be a local alias `name = self.<file>.volumes` of the same record list)
    S ::= V[n]                                           n a non-negative integer literal
    C ::= numpy.polyfit(V, V, deg=Z) | numpy.polyfit(V, V, Z) | local
    Z ::= <int parameter with literal default> | int literal | Z + Z

ONLY PATTERN-CHECKED (glue): property bodies `volumes` (elast_data volumes), `v_array` (self.calculator.v_array ->
Calculator.__getattr__ -> QHACalculatorAdapter.v_array = finer_volumes_bohr3), `self.elast_data =
self.calculator.elast_data`, the imports of the oracles, `if isinstance(static_energy_array, tuple):
static_energy_array = static_energy_array[1]` (qha < 1.1 compatibility), every call of fit_modulus /
_calculate_pressure_static uses the default order.
"""
import ast
import re

from tie_common import (TranslateError, parse, src_of, body_no_doc, module_class, class_method, arg_names, no_reflection,
                        module_binding_checks, int_const, zlit)

FM = "cij/core/full_modulus.py"
CALC = "cij/core/calculator.py"
ADAPTER = "cij/core/qha_adapter.py"

SRC_TBL_VOLS = "numpy.array([volume.volume for volume in self.elast_data.volumes])"
SRC_TBL_COL = "numpy.array([volume.static_elastic_modulus[key] for volume in self.elast_data.volumes])"
SRC_Q_VOLS = "numpy.array([volume.volume for volume in self.qha_input.volumes])"
SRC_Q_ENS = "numpy.array([volume.energy for volume in self.qha_input.volumes])"
TUPLE_COMPAT = "if isinstance({0}, tuple):\n    {0} = {0}[1]"


class Flow:
    """translates one function body; values are (kind, axis, term): kind 'V' vector / 'S' scalar / 'C' coefficients"""

    def __init__(self, file, fn, sources, vec_params=(), int_params=(), allow_fit=False):
        self.file = file
        self.fn = fn
        self.sources = sources            # exact source text -> (axis, coq term)
        self.env = {}                     # python local -> (kind, axis, coq ident)
        self.version = {}
        self.lets = []
        self.vec_params = dict(vec_params)    # python name -> (axis, coq term)
        self.int_params = dict(int_params)    # python name -> coq term
        self.allow_fit = allow_fit
        # attribute reads that yield the list of per-volume records of an input file (pure reads of plain data objects)
        self.record_lists = {m.group(1) for t in sources for m in [re.search(r" in (self\.\w+\.volumes)\]\)$", t)] if m}

    def bail(self, node, what):
        raise TranslateError(self.file, node, what)

    def zexpr(self, e):
        c = int_const(e)
        if c is not None:
            return zlit(c)
        if isinstance(e, ast.Name) and e.id in self.int_params and e.id not in self.env:
            return self.int_params[e.id]
        if isinstance(e, ast.BinOp) and isinstance(e.op, ast.Add):
            return "(%s + %s)" % (self.zexpr(e.left), self.zexpr(e.right))
        self.bail(e, "degree expression `%s` (accepted: the integer parameter, integer literals, +)" % src_of(e)[:60])

    def need(self, e, kind):
        k, ax, t = self.expr(e)
        if k != kind:
            self.bail(e, "`%s` is a %s where a %s is required" % (src_of(e)[:80], {"V": "vector", "S": "scalar", "C": "coefficient vector", "L": "record list"}[k],
                                                              {"V": "vector", "S": "scalar", "C": "coefficient vector"}[kind]))
        return ax, t

    def call_args(self, e, n_pos, kw_allowed=()):
        """positional args + allowed keywords -> (args list, {kw: node})"""
        kws = {k.arg: k.value for k in e.keywords}
        if None in kws or any(k not in kw_allowed for k in kws):
            self.bail(e, "keyword arguments of `%s`" % src_of(e)[:100])
        return list(e.args), kws

    def source_text(self, e):
        """text of `e` with an alias local of a record list (`name = self.<file>.volumes`) expanded where it is the iterable
        of `numpy.array([<elt> for <var> in <iterable>])`"""
        if isinstance(e, ast.Call) and src_of(e.func) == "numpy.array" and len(e.args) == 1 and not e.keywords \
                and isinstance(e.args[0], ast.ListComp) and len(e.args[0].generators) == 1:
            g = e.args[0].generators[0]
            if isinstance(g.iter, ast.Name) and g.iter.id in self.env and self.env[g.iter.id][0] == "L" \
                    and not g.ifs and not g.is_async:
                return "numpy.array([%s for %s in %s])" % (src_of(e.args[0].elt), src_of(g.target), self.env[g.iter.id][2])
        return src_of(e)

    def expr(self, e):
        s = self.source_text(e)
        if s in self.record_lists:
            # the list of per-volume records itself: only usable as the iterable of a source comprehension
            return "L", None, s
        if s in self.sources:
            ax, t = self.sources[s]
            return "V", ax, t
        if isinstance(e, ast.Name):
            if e.id in self.env:
                return self.env[e.id]
            if e.id in self.vec_params:
                ax, t = self.vec_params[e.id]
                return "V", ax, t
            self.bail(e, "name `%s` (not a local assigned before, nor an array parameter)" % e.id)
        if isinstance(e, ast.UnaryOp) and isinstance(e.op, ast.USub):
            ax, t = self.need(e.operand, "V")
            return "V", ax, "(map opp %s)" % t
        if isinstance(e, ast.BinOp):
            ops = {ast.Add: "add", ast.Sub: "sub", ast.Mult: "mul", ast.Div: "div"}
            if type(e.op) not in ops:
                self.bail(e, "operator %s in `%s`" % (type(e.op).__name__, s[:80]))
            a1, t1 = self.need(e.left, "V")
            a2, t2 = self.need(e.right, "V")
            if a1 != a2:
                self.bail(e, "`%s` combines an array over the %s volumes with an array over the %s volumes" % (s[:80], a1, a2))
            return "V", a1, "(zipw %s %s %s)" % (ops[type(e.op)], t1, t2)
        if isinstance(e, ast.Subscript):
            n = int_const(e.slice)
            if n is not None and n >= 0:
                ax, t = self.need(e.value, "V")
                return "S", None, "(s_nth %d %s)" % (n, t)
            self.bail(e, "subscript `%s` (accepted: A[n], n a non-negative integer literal)" % s[:80])
        if isinstance(e, ast.Call):
            f = src_of(e.func)
            ufun = {"numpy.add": "add", "numpy.subtract": "sub", "numpy.multiply": "mul", "numpy.divide": "div",
                    "numpy.true_divide": "div"}
            if f in ufun and len(e.args) == 2 and not e.keywords:
                # the ufunc spelling of an elementwise operator on two arrays
                a1, t1 = self.need(e.args[0], "V")
                a2, t2 = self.need(e.args[1], "V")
                if a1 != a2:
                    self.bail(e, "`%s` combines an array over the %s volumes with an array over the %s volumes" % (s[:80], a1, a2))
                return "V", a1, "(zipw %s %s %s)" % (ufun[f], t1, t2)
            if f == "numpy.negative" and len(e.args) == 1 and not e.keywords:
                ax, t = self.need(e.args[0], "V")
                return "V", ax, "(map opp %s)" % t
            if f == "calculate_eulerian_strain":
                args, _ = self.call_args(e, 2)
                if len(args) != 2:
                    self.bail(e, "calculate_eulerian_strain with %d arguments" % len(args))
                _, v0 = self.need(args[0], "S")
                ax, v = self.need(args[1], "V")
                return "V", ax, "(map (o_eulerian O %s) %s)" % (v0, v)
            if f == "numpy.polyval":
                args, _ = self.call_args(e, 2)
                if len(args) != 2:
                    self.bail(e, "numpy.polyval with %d positional arguments" % len(args))
                _, c = self.need(args[0], "C")
                ax, v = self.need(args[1], "V")
                return "V", ax, "(map (o_polyval O %s) %s)" % (c, v)
            if f == "numpy.polyfit":
                args, kws = self.call_args(e, 3, ("deg",))
                if len(args) == 3 and not kws:
                    deg = args[2]
                elif len(args) == 2 and "deg" in kws:
                    deg = kws["deg"]
                else:
                    self.bail(e, "numpy.polyfit call shape `%s` (accepted: (x, y, deg) / (x, y, deg=...))" % s[:100])
                a1, x = self.need(args[0], "V")
                a2, y = self.need(args[1], "V")
                if a1 != a2:
                    self.bail(e, "numpy.polyfit: x is over the %s volumes, y over the %s volumes" % (a1, a2))
                return "C", None, "(o_polyfit O %s %s %s)" % (x, y, self.zexpr(deg))
            if f == "_from_gpa":
                args, _ = self.call_args(e, 1)
                if len(args) != 1:
                    self.bail(e, "_from_gpa with %d arguments" % len(args))
                ax, v = self.need(args[0], "V")
                return "V", ax, "(map (o_from_gpa O) %s)" % v
            if f == "numpy.gradient":
                args, _ = self.call_args(e, 1)
                if len(args) != 1:
                    self.bail(e, "numpy.gradient with %d arguments (spacing arguments are not modelled)" % len(args))
                ax, v = self.need(args[0], "V")
                return "V", ax, "(o_gradient O %s)" % v
            if f == "polynomial_least_square_fitting":
                args, kws = self.call_args(e, 4, ("order",))
                if len(args) == 4 and not kws:
                    order = args[3]
                elif len(args) == 3 and "order" in kws:
                    order = kws["order"]
                else:
                    self.bail(e, "polynomial_least_square_fitting call shape `%s`" % s[:100])
                a1, x = self.need(args[0], "V")
                a2, y = self.need(args[1], "V")
                a3, xn = self.need(args[2], "V")
                if a1 != a2:
                    self.bail(e, "polynomial_least_square_fitting: x is over the %s volumes, y over the %s volumes" % (a1, a2))
                return "V", a3, "(o_plsq O %s %s %s %s)" % (x, y, xn, self.zexpr(order))
            if f == "self.fit_modulus" and self.allow_fit:
                args, kws = self.call_args(e, 2, ("order",))
                if len(args) == 1 and not kws:
                    order = "g_fit_default_order"
                elif len(args) == 2 and not kws:
                    order = self.zexpr(args[1])
                elif len(args) == 1 and "order" in kws:
                    order = self.zexpr(kws["order"])
                else:
                    self.bail(e, "self.fit_modulus call shape `%s`" % s[:100])
                ax, v = self.need(args[0], "V")
                if ax != "tbl":
                    self.bail(e, "self.fit_modulus is given an array over the %s volumes (the table has one value per table volume)" % ax)
                return "V", "grid", "(g_fit_modulus tbl_volumes grid_volumes %s %s)" % (v, order)
        self.bail(e, "expression `%s`" % s[:120])

    def assign(self, s):
        if isinstance(s, ast.Assign) and len(s.targets) == 1 and isinstance(s.targets[0], ast.Tuple) \
                and isinstance(s.value, ast.Tuple) and len(s.targets[0].elts) == len(s.value.elts) \
                and all(isinstance(t, ast.Name) for t in s.targets[0].elts) \
                and len({t.id for t in s.targets[0].elts}) == len(s.value.elts):
            # a, b = E1, E2: every right-hand side is evaluated (in the OLD environment) before any name is bound
            vals = [self.expr(v) for v in s.value.elts]
            for t, v in zip(s.targets[0].elts, vals):
                self.bind(t.id, v, s)
            return
        if not (isinstance(s, ast.Assign) and len(s.targets) == 1 and isinstance(s.targets[0], ast.Name)):
            self.bail(s, "statement `%s` (accepted: `name = expression`, `a, b = E, E`)" % src_of(s)[:80].split("\n")[0])
        self.bind(s.targets[0].id, self.expr(s.value), s)

    def bind(self, nm, val, s):
        if nm in self.vec_params or nm in self.int_params or nm in ("self", "numpy", "key"):
            self.bail(s, "assignment to the parameter / reserved name `%s`" % nm)
        if not nm.isidentifier() or not nm.isascii():
            self.bail(s, "local name `%s`" % nm)
        k, ax, t = val
        if k == "L":                      # alias of a record list: no Coq value, remembered by its source text
            self.env[nm] = (k, ax, t)
            return
        v = self.version.get(nm, 0) + 1
        self.version[nm] = v
        ident = "l_%s_%d" % (nm, v)
        self.lets.append((ident, t))
        self.env[nm] = (k, ax, ident)

    def let_text(self, body):
        return "".join("    let %s := %s in\n" % lt for lt in self.lets) + "    " + body


def check_no_control(fn, file, allow_if=None):
    for n in ast.walk(fn):
        if isinstance(n, (ast.For, ast.While, ast.Try, ast.With, ast.Break, ast.Continue, ast.AugAssign, ast.Delete, ast.Global,
                          ast.Nonlocal, ast.ClassDef, ast.Import, ast.ImportFrom, ast.Assert, ast.Raise)) and n is not fn:
            raise TranslateError(file, n, "%s inside %s" % (type(n).__name__, fn.name))
        if isinstance(n, ast.FunctionDef) and n is not fn:
            raise TranslateError(file, n, "nested function inside %s" % fn.name)
        if isinstance(n, ast.If) and n is not allow_if:
            raise TranslateError(file, n, "`if` inside %s" % fn.name)


def prop_body(cls, file, name, text):
    fn = class_method(cls, file, name, ["property"])
    arg_names(fn, file, ["self"])
    if [src_of(s) for s in body_no_doc(fn)] != [text]:
        raise TranslateError(file, fn, "%s.%s is not `%s`" % (cls.name, name, text))


def translate_full_modulus(src, calc_src, adapter_src):
    mod = parse(src)
    module_binding_checks(mod, FM, {"numpy": ("import", "import numpy"),
                                    "calculate_eulerian_strain": ("from", "qha.grid_interpolation"),
                                    "_from_gpa": ("from", "cij.util")})
    cls = module_class(mod, FM, "FullThermalElasticModulus")
    if cls.bases:
        raise TranslateError(FM, cls, "FullThermalElasticModulus has base classes")
    # ---- glue: where the arrays come from
    prop_body(cls, FM, "volumes", "return " + SRC_TBL_VOLS)
    prop_body(cls, FM, "v_array", "return self.calculator.v_array")
    init = class_method(cls, FM, "__init__")
    ib = [src_of(s) for s in body_no_doc(init)]
    if ib[:2] != ["self.calculator = calculator", "self.elast_data = self.calculator.elast_data"] or \
            [a.arg for a in init.args.args] != ["self", "calculator"]:
        raise TranslateError(FM, init, "__init__ does not start with `self.calculator = calculator` / `self.elast_data = self.calculator.elast_data`")
    for n in ast.walk(cls):
        if isinstance(n, ast.Attribute) and isinstance(n.ctx, (ast.Store, ast.Del)) and n.attr in ("elast_data", "calculator", "volumes", "v_array") \
                and not any(n in ast.walk(s) for s in body_no_doc(init)[:2]):
            raise TranslateError(FM, n, "second assignment to `%s`" % src_of(n))
    for nm in ("__getattr__", "__getattribute__", "__setattr__"):
        if any(isinstance(n, ast.FunctionDef) and n.name == nm for n in cls.body):
            raise TranslateError(FM, cls, "FullThermalElasticModulus defines %s" % nm)
    cm = parse(calc_src)
    ccls = module_class(cm, CALC, "Calculator")
    if any(isinstance(n, (ast.FunctionDef, ast.Assign, ast.AnnAssign)) and "v_array" in
           ([n.name] if isinstance(n, ast.FunctionDef) else [src_of(t) for t in (n.targets if isinstance(n, ast.Assign) else [n.target])])
           for n in ccls.body):
        raise TranslateError(CALC, ccls, "class Calculator defines v_array itself (expected: forwarded by __getattr__ to qha_calculator)")
    ga = class_method(ccls, CALC, "__getattr__")
    if [src_of(s) for s in body_no_doc(ga)] != ["return getattr(self.qha_calculator, prop)"] or [a.arg for a in ga.args.args] != ["self", "prop"]:
        raise TranslateError(CALC, ga, "Calculator.__getattr__ is not `return getattr(self.qha_calculator, prop)`")
    for n in ast.walk(ccls):
        if isinstance(n, ast.Attribute) and isinstance(n.ctx, (ast.Store, ast.Del)) and n.attr == "v_array" and src_of(n.value) == "self":
            raise TranslateError(CALC, n, "assignment to self.v_array in class Calculator")
    am = parse(adapter_src)
    acls = module_class(am, ADAPTER, "QHACalculatorAdapter")
    prop_body(acls, ADAPTER, "v_array", "return self.calculator.finer_volumes_bohr3")

    # ---- fit_modulus
    fm = class_method(cls, FM, "fit_modulus")
    dfl = arg_names(fm, FM, ["self", "moduli", "order"], defaults_ok=True)
    if list(dfl) != ["order"] or int_const(dfl["order"]) is None:
        raise TranslateError(FM, fm, "fit_modulus: expected exactly one default, an integer literal for `order`")
    no_reflection(fm, FM)
    check_no_control(fm, FM)
    sources = {"self.volumes": ("tbl", "tbl_volumes"), "self.v_array": ("grid", "grid_volumes")}
    fl = Flow(FM, fm, sources, vec_params={"moduli": ("tbl", "moduli")}, int_params={"order": "order"})
    body = body_no_doc(fm)
    if not body or not isinstance(body[-1], ast.Return) or body[-1].value is None:
        raise TranslateError(FM, fm, "fit_modulus does not end in `return <expression>`")
    for s in body[:-1]:
        fl.assign(s)
    ax, ret = fl.need(body[-1].value, "V")
    if ax != "grid":
        raise TranslateError(FM, body[-1], "fit_modulus returns an array over the %s volumes (expected: the grid)" % ax)
    fit_text = fl.let_text(ret)
    default_order = int_const(dfl["order"])

    # ---- get_static_modulus
    gs = class_method(cls, FM, "get_static_modulus")
    arg_names(gs, FM, ["self", "key"])
    no_reflection(gs, FM)
    check_no_control(gs, FM)
    sources2 = dict(sources)
    sources2[SRC_TBL_COL] = ("tbl", "column")
    fl2 = Flow(FM, gs, sources2, allow_fit=True)
    body = body_no_doc(gs)
    if not body or not isinstance(body[-1], ast.Return) or body[-1].value is None:
        raise TranslateError(FM, gs, "get_static_modulus does not end in `return <expression>`")
    for s in body[:-1]:
        fl2.assign(s)
    ax, ret = fl2.need(body[-1].value, "V")
    if ax != "grid":
        raise TranslateError(FM, body[-1], "get_static_modulus returns an array over the %s volumes (expected: the grid)" % ax)
    static_text = fl2.let_text(ret)
    # every other call of fit_modulus uses the default order
    for n in ast.walk(mod):
        if isinstance(n, ast.Call) and isinstance(n.func, ast.Attribute) and n.func.attr == "fit_modulus":
            if src_of(n.func) != "self.fit_modulus":
                raise TranslateError(FM, n, "fit_modulus called as `%s`" % src_of(n.func))
        if isinstance(n, ast.Attribute) and n.attr in ("fit_modulus", "get_static_modulus") and isinstance(n.ctx, (ast.Store, ast.Del)):
            raise TranslateError(FM, n, "assignment to `%s`" % src_of(n))
    # the static modulus enters the totals as get_static_modulus(key)[nax, :] + phonon part (glue; two accepted spellings:
    # the loop in each property, or one helper taking the phonon-contribution dict)
    for name, contrib in (("modulus_adiabatic", "_adiabatic_phonon_contribution"), ("modulus_isothermal", "_isothermal_phonon_contribution")):
        m = class_method(cls, FM, name, ["LazyProperty"])
        arg_names(m, FM, ["self"])
        body = [src_of(x) for x in body_no_doc(m)]
        loop = ["results = dict()",
                "for key in self.modulus_keys:\n    results[key] = self.get_static_modulus(key)[nax, :] + self.%s[key]" % contrib,
                "return results"]
        ok = body == loop or body == ["return {key: self.get_static_modulus(key)[nax, :] + self.%s[key] for key in self.modulus_keys}" % contrib]
        if not ok and len(body) == 1:
            mm = re.fullmatch(r"return self\.(\w+)\(self\.%s\)" % contrib, body[0])
            if mm:
                h = class_method(cls, FM, mm.group(1))
                if len(h.args.args) == 2 and h.args.args[0].arg == "self":
                    arg_names(h, FM, [a.arg for a in h.args.args])
                    par = h.args.args[1].arg
                    hb = [src_of(x) for x in body_no_doc(h)]
                    ok = hb == ["return {key: self.get_static_modulus(key)[nax, :] + %s[key] for key in self.modulus_keys}" % par] or \
                        hb == ["results = dict()",
                               "for key in self.modulus_keys:\n    results[key] = self.get_static_modulus(key)[nax, :] + %s[key]" % par,
                               "return results"]
                    ok = ok and par not in ("key", "self", "nax")
        if not ok:
            raise TranslateError(FM, m, "%s is not `{key: self.get_static_modulus(key)[nax, :] + self.%s[key]}` over self.modulus_keys "
                                        "(loop, dict comprehension, or one helper method taking the contribution dict)" % (name, contrib))
    return dict(fit=fit_text, default_order=default_order, static=static_text)


def translate_pressure_static(calc_src):
    mod = parse(calc_src)
    module_binding_checks(mod, CALC, {"numpy": ("import", "import numpy"),
                                      "calculate_eulerian_strain": ("from", "qha.grid_interpolation"),
                                      "polynomial_least_square_fitting": ("from", "qha.fitting")})
    cls = module_class(mod, CALC, "Calculator")
    fn = class_method(cls, CALC, "_calculate_pressure_static")
    dfl = arg_names(fn, CALC, ["self", "order"], defaults_ok=True)
    if list(dfl) != ["order"] or int_const(dfl["order"]) is None:
        raise TranslateError(CALC, fn, "_calculate_pressure_static: expected exactly one default, an integer literal for `order`")
    no_reflection(fn, CALC)
    body = body_no_doc(fn)
    compat = [s for s in body if isinstance(s, ast.If)]
    if len(compat) > 1:
        raise TranslateError(CALC, compat[1], "a second `if` in _calculate_pressure_static")
    check_no_control(fn, CALC, allow_if=compat[0] if compat else None)
    sources = {SRC_Q_VOLS: ("q", "q_volumes"), SRC_Q_ENS: ("q", "q_energies"), "self.v_array": ("grid", "grid_volumes")}
    fl = Flow(CALC, fn, sources, int_params={"order": "order"})
    if not body:
        raise TranslateError(CALC, fn, "empty body")
    last = body[-1]
    if not (isinstance(last, ast.Assign) and len(last.targets) == 1 and src_of(last.targets[0]) == "self.static_p_array"):
        raise TranslateError(CALC, last, "_calculate_pressure_static does not end in `self.static_p_array = <expression>`")
    for s in body[:-1]:
        if isinstance(s, ast.If):
            # qha < 1.1 returned (coefficients, values): keep the values
            nm = s.body[0].targets[0].id if (len(s.body) == 1 and isinstance(s.body[0], ast.Assign) and
                                             isinstance(s.body[0].targets[0], ast.Name)) else "?"
            if src_of(s) != TUPLE_COMPAT.format(nm) or nm not in fl.env or "(o_plsq O " not in dict(fl.lets)[fl.env[nm][2]]:
                raise TranslateError(CALC, s, "`%s` (accepted only: the qha<1.1 tuple compatibility branch on the result of "
                                              "polynomial_least_square_fitting)" % src_of(s).replace("\n", " | ")[:100])
            continue
        fl.assign(s)
    ax, ret = fl.need(last.value, "V")
    if ax != "grid":
        raise TranslateError(CALC, last, "static_p_array is an array over the %s volumes (expected: the grid)" % ax)
    stores = [n for n in ast.walk(cls) if isinstance(n, ast.Attribute) and isinstance(n.ctx, (ast.Store, ast.Del)) and n.attr == "static_p_array"]
    if len(stores) != 1:
        raise TranslateError(CALC, stores[1] if len(stores) > 1 else cls, "self.static_p_array is assigned %d times in class Calculator" % len(stores))
    calls = [n for n in ast.walk(mod) if isinstance(n, ast.Call) and isinstance(n.func, ast.Attribute) and n.func.attr == "_calculate_pressure_static"]
    init = class_method(cls, CALC, "__init__")
    if [src_of(c) for c in calls] != ["self._calculate_pressure_static()"] or \
            "self._calculate_pressure_static()" not in [src_of(s) for s in init.body]:
        raise TranslateError(CALC, calls[0] if calls else init, "_calculate_pressure_static is not called exactly once, as "
                                                                "`self._calculate_pressure_static()` at the top level of Calculator.__init__")
    return dict(pstatic=fl.let_text(ret), default_order=int_const(dfl["order"]))


HEADER = """(* GENERATED by tools/translate_staticfit.py from %s and %s of the current source tree - do not edit *)
From Coq Require Import ZArith List Bool.
From Cij Require Import Ops StaticModel.
From CijGen Require Import StaticFitTieBase.
Import ListNotations.
Local Open Scope Z_scope.

"""


class Result:
    def __init__(self):
        self.errors = {}
        self.fm = None
        self.ps = None


def translate(fm_src, calc_src, adapter_src):
    res = Result()
    try:
        res.fm = translate_full_modulus(fm_src, calc_src, adapter_src)
    except TranslateError as e:
        res.errors["static-fit"] = e
    try:
        res.ps = translate_pressure_static(calc_src)
    except TranslateError as e:
        res.errors["static-pressure"] = e
    return res


def emit(res: Result) -> str:
    out = [HEADER % (FM, CALC)]
    for k, e in res.errors.items():
        out.append("(* %s: NOT TRANSLATED - %s *)\n" % (k, str(e).replace("*)", "* )")))
    if res.fm is not None:
        out.append("Definition g_fit_default_order : Z := %s." % zlit(res.fm["default_order"]))
    if res.ps is not None:
        out.append("Definition g_static_p_default_order : Z := %s." % zlit(res.ps["default_order"]))
    out.append("\nSection GenStaticFit.\n  Context {F : Type} {OF : Ops F}.\n"
               "  Variable O : oracles F.      (* numpy.polyfit, numpy.polyval, calculate_eulerian_strain, _from_gpa,\n"
               "                                  polynomial_least_square_fitting, numpy.gradient - StaticFitTieBase.v *)\n")
    if res.fm is not None:
        out.append("  (* FullThermalElasticModulus.fit_modulus: tbl_volumes = self.volumes (elast.dat), grid_volumes = self.v_array *)")
        out.append("  Definition g_fit_modulus (tbl_volumes grid_volumes moduli : list F) (order : Z) : list F :=\n%s.\n" % res.fm["fit"])
        out.append("  (* get_static_modulus(key): column = the key's column of the table, in GPa *)")
        out.append("  Definition g_get_static_modulus (tbl_volumes grid_volumes column : list F) : list F :=\n%s.\n" % res.fm["static"])
    if res.ps is not None:
        out.append("  (* Calculator._calculate_pressure_static: q_volumes / q_energies = volumes and static energies of the phonon file *)")
        out.append("  Definition g_static_p (q_volumes q_energies grid_volumes : list F) (order : Z) : list F :=\n%s.\n" % res.ps["pstatic"])
    out.append("End GenStaticFit.\n")
    return "\n".join(out)


if __name__ == "__main__":
    import sys
    root = sys.argv[1] if len(sys.argv) > 1 else "/repo"
    r = translate(open(root + "/" + FM).read(), open(root + "/" + CALC).read(), open(root + "/" + ADAPTER).read())
    for k, e in r.errors.items():
        print("(* ERROR %s: %s *)" % (k, e))
    print(emit(r))
