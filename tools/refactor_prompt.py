#!/usr/bin/env python3
"""brief for a 'harmless refactoring' sub-agent (robustness round): behaviour-preserving rewrites of some modules.
usage: refactor_prompt.py <tag> <worktree> <module globs...>"""
import sys
tag, wt, mods = sys.argv[1], sys.argv[2], sys.argv[3:]
print('''You are a maintainer of the Python package MineralsCloud/cij doing a routine CLEAN-UP of some modules. You work ONLY inside your own scratch git worktree of the repository at {wt} (a full checkout; do not read or touch anything outside it except /venv for running Python; in particular do NOT look at /verif or /repo). Run Python as:  cd {wt} && PYTHONPATH={wt} NUMBA_CACHE_DIR={wt}/.numba /venv/bin/python ...   No network.

Modules to clean up: {mods}

Goal: a realistic refactoring commit of 40-150 changed lines spread over these modules that changes NO observable behaviour at all: every public function, property and command must return bit-identical results (same floating-point operations in the same order where results are observable to the last bit is NOT required - but results must agree to rounding, 1e-12 relative - and same exceptions for the same inputs, same files written, same caching behaviour per object, no new module-level state, no in-place modification of arguments or cached arrays). Typical edits, mix several kinds:
 - rename local variables, reorder independent statements, split long expressions into named locals, merge trivial locals;
 - algebraically equivalent rewrites of formulas (reorder commutative factors, `x ** 2` <-> `x * x`, `a / 2` <-> `0.5 * a`, factor out a common term, `numpy.square`, `numpy.divide`), `!= None` -> `is not None`, `numpy.absolute` for `numpy.abs`, f-strings <-> format, `dict()` <-> `{{}}`;
 - extract a small private helper function or property and call it; inline a trivial helper;
 - replace an explicit loop by an equivalent comprehension or vice versa; use enumerate/zip;
 - add type annotations and docstrings, remove dead commented-out code, tidy imports (keep every name importable that is importable now).
Do NOT change any public name, signature, default value, file format, unit, tolerance, message text of an exception type, or the order in which results are stored in dictionaries/lists that callers can observe.

Verify: the test suite must still give the baseline `2 failed, 66 passed, 1 error` (the 3 bridgmanite/input01 tests fail on the unchanged code too): run it ONCE at the end: `cd {wt} && PYTHONPATH={wt} NUMBA_CACHE_DIR={wt}/.numba timeout 1500 /venv/bin/python -m pytest -q -p no:cacheprovider --timeout=900`. Additionally write {wt}/equiv_{tag}.py (< 120 lines) that exercises the functions you touched on a few inputs and prints a digest (e.g. rounded repr / sha1 of numpy arrays rounded to 10 significant digits); run it on the original (restore the original with `git diff -- cij > my.diff; git checkout -- cij`, re-apply with `git apply my.diff`; do NOT use git stash: the stash is shared between worktrees) and on the refactored code and confirm identical output. After the tests restore the example outputs the suite overwrites (`git checkout -- examples; git clean -fdq examples`).
Save the change as {wt}/patch.diff (`git diff -- cij > patch.diff`) and leave it applied. Do not commit.

Final answer: a list of the edits by kind and file (one line each, so that someone can later tell which edit a tool complained about), the equivalence-digest comparison, and the test summary line.'''.format(wt=wt, tag=tag, mods=", ".join(mods)))
