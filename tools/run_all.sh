#!/bin/bash
# run every property's check on /repo (tier from $1, default quick); prints one summary line each
cd /verif
tier=${1:-quick}
rc=0
for i in 01 02 03 04 05 06 07 08 09 10 11 12 13 14 15 16 17 18 19 20; do
  out=$(./check C$i --tier $tier 2>/dev/null)
  code=$?
  echo "$out" | grep -E "^(VIOLATION|KNOWN-FINDING|C$i tier=)" | cut -c1-160
  echo "  -> C$i exit=$code"
  [ $code -ne 0 ] && rc=1
done
exit $rc
