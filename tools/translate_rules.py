"""Fail-closed translator  cij/data/output/writer_rules.yml  ->  Gen_rules.v  (list of RulesModel.rule).

Accepted: a YAML list of mappings with exactly the fields read by ResultsWriterRule.create
(keywords, fname_pattern, prop, unit, unit_internal, var_type) plus the documentation-only field
`description`.  Anything else (unknown field, unknown var_type, unit string outside the table of
RulesModel.unit_table, brace syntax other than plain {name} fields, non-ASCII text) raises
Untranslatable, which the check reports as a broken tie.
"""
import re

import yaml

REQUIRED = ["keywords", "fname_pattern", "prop", "unit", "unit_internal", "var_type"]
OPTIONAL = ["description"]
VAR_TYPES = {"value": "VValue", "ij_value": "VIjValue"}
# must mirror RulesModel.unit_table (names after removal of blanks)
KNOWN_UNITS = {"rydberg/bohr^3", "GPa", "kbar", "MPa", "Pa", "bohr^3", "angstrom^3", "nm^3", "km/s", "m/s"}
PATTERN_OK = re.compile(r"^(?:[^{}]|\{[A-Za-z_][A-Za-z_0-9]*\})*$")
IDENT = re.compile(r"^[A-Za-z_][A-Za-z_0-9]*$")


class Untranslatable(Exception):
    pass


def cstr(s, what):
    if not isinstance(s, str):
        raise Untranslatable("%s is not a string: %r" % (what, s))
    if not all(32 <= ord(c) < 127 for c in s):
        raise Untranslatable("%s has non-printable/non-ASCII characters: %r" % (what, s))
    return '"' + s.replace('"', '""') + '"'


def check_rule(i, r):
    if not isinstance(r, dict):
        raise Untranslatable("rule %d is not a mapping" % i)
    for k in r:
        if k not in REQUIRED + OPTIONAL:
            raise Untranslatable("rule %d has unknown field %r" % (i, k))
    for k in REQUIRED:
        if k not in r:
            raise Untranslatable("rule %d lacks field %r" % (i, k))
    kws = r["keywords"]
    if not isinstance(kws, list) or not kws:
        raise Untranslatable("rule %d: keywords is not a non-empty list" % i)
    for k in kws:
        if not isinstance(k, str) or not k:
            raise Untranslatable("rule %d: keyword %r is not a non-empty string" % (i, k))
    if r["var_type"] not in VAR_TYPES:
        raise Untranslatable("rule %d: unknown var_type %r" % (i, r["var_type"]))
    if not isinstance(r["fname_pattern"], str) or not PATTERN_OK.match(r["fname_pattern"]):
        raise Untranslatable("rule %d: fname_pattern %r is outside the plain {name} grammar" % (i, r["fname_pattern"]))
    if not isinstance(r["prop"], str) or not IDENT.match(r["prop"]):
        raise Untranslatable("rule %d: prop %r is not an identifier" % (i, r["prop"]))
    for u in ("unit", "unit_internal"):
        if not isinstance(r[u], str) or r[u].replace(" ", "") not in KNOWN_UNITS:
            raise Untranslatable("rule %d: %s %r is not in the unit table of RulesModel.v" % (i, u, r[u]))


def load(text):
    try:
        data = yaml.safe_load(text)
    except yaml.YAMLError as e:
        raise Untranslatable("yaml: %s" % e)
    if not isinstance(data, list) or not data:
        raise Untranslatable("top level is not a non-empty list")
    for i, r in enumerate(data):
        check_rule(i, r)
    return data


def translate(text):
    data = load(text)
    out = ["(* GENERATED from cij/data/output/writer_rules.yml by tools/translate_rules.py - do not edit *)",
           "From Coq Require Import String List ZArith.",
           "From Cij Require Import RulesModel.",
           "Import ListNotations.",
           "Local Open Scope string_scope.",
           "",
           "Definition rules : list rule := ["]
    rows = []
    for i, r in enumerate(data):
        rows.append("  mkRule [%s]\n    %s %s %s %s %s" % (
            "; ".join(cstr(k, "keyword") for k in r["keywords"]),
            cstr(r["fname_pattern"], "fname_pattern"), cstr(r["prop"], "prop"), cstr(r["unit"], "unit"),
            cstr(r["unit_internal"], "unit_internal"), VAR_TYPES[r["var_type"]]))
    out.append(";\n".join(rows) + "].")
    return "\n".join(out) + "\n"


if __name__ == "__main__":
    import sys
    print(translate(open(sys.argv[1] if len(sys.argv) > 1 else "/repo/cij/data/output/writer_rules.yml").read()))
