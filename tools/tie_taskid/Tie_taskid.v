(** static tie of C04, group TASK-IDENTITY: __eq__ of PhononContributionTaskParams, regenerated as a decision
    function over abstract facts, is the model's task identity [TasksModel.cteq] for all tasks; the non-shear
    parameters are (e_i / sum e, e_k / sum e) with (i, i, k, k) = key.s; __hash__ is consistent with __eq__ in the
    weak sense (equal tasks have the same, defined, hash). *)
From Coq Require Import Reals ZArith List Bool Lra Lia Arith.
From Cij Require Import Ops ROps Voigt TasksModel.
From CijGen Require Import TaskIdTieBase Gen_taskid.
Import ListNotations.

(** * __eq__ *)
(** calc types equal, and: SHEAR - keys equal and strain arrays array_equal; otherwise - both normalised columns
    array_equal *)
Definition spec_eq (same_type is_shear key_eq strain_eq c0_eq c1_eq : bool) : bool :=
  same_type && (if is_shear then key_eq && strain_eq else c0_eq && c1_eq).

Lemma tie_eq : forall same_type is_shear key_eq strain_eq c0_eq c1_eq,
  g_eq same_type is_shear key_eq strain_eq c0_eq c1_eq
  = Some (spec_eq same_type is_shear key_eq strain_eq c0_eq c1_eq).
Proof. intros [|] [|] [|] [|] [|] [|]; reflexivity. Qed.

(** ... which is the model's [cteq], for every element test [close], every pair of frames and keys *)
Lemma tie_eq_model : forall (F : Type) (OF : Ops F) (close : F -> F -> bool) fa ka fb kb,
  g_eq (ctype ka =? ctype kb)%nat (is_shear ka) (vkey_eqb ka kb) (all22 close fa fb)
       (all2 close (col (fst ka - 1) fa) (col (fst kb - 1) fb))
       (all2 close (col (snd ka - 1) fa) (col (snd kb - 1) fb))
  = Some (cteq close (CT fa ka) (CT fb kb)).
Proof. intros. rewrite tie_eq. reflexivity. Qed.

(** * _make_param_by_strain_key *)
Lemma tie_param_shear : g_param_shear = (PStrain, PKey).
Proof. reflexivity. Qed.

(** key.s (1-based) of the key with Voigt pair (a, b): Voigt.std_of is 0-based *)
Definition s4 (k : vkey) : Z * Z * Z * Z :=
  let '(i, j) := std_of (fst k) in let '(p, q) := std_of (snd k) in
  (Z.of_nat (S i), Z.of_nat (S j), Z.of_nat (S p), Z.of_nat (S q)).
Definition app4 {X} (f : Z -> Z -> Z -> Z -> X) (s : Z * Z * Z * Z) : X :=
  let '(i, j, k, l) := s in f i j k l.

Lemma row_at_lit (z : Z) (n : nat) (r : list R) :
  (z <? 0)%Z = false -> Z.to_nat z = n -> @row_at R ROps z r = nth n r 0%R.
Proof. intros H1 H2. unfold row_at. rewrite H1, H2. reflexivity. Qed.
Ltac rows_lit :=
  repeat match goal with
         | |- context [@row_at R ROps ?z ?r] =>
             let n := eval vm_compute in (Z.to_nat z) in
             rewrite (row_at_lit z n r eq_refl eq_refl)
         end.

Local Open Scope R_scope.
(** for each of the six non-shear keys and every row with non-zero sum:
    params = (r[a-1] / sum r, r[b-1] / sum r) - the model's [col (fst k - 1)], [col (snd k - 1)] *)
Lemma tie_param_rows : forall k, In k all_keys -> is_shear k = false ->
  forall r : list R, @suml R ROps r <> 0 ->
    app4 (@g_param0_row R ROps) (s4 k) r = nth (fst k - 1) r 0 / @suml R ROps r /\
    app4 (@g_param1_row R ROps) (s4 k) r = nth (snd k - 1) r 0 / @suml R ROps r.
Proof.
  intros k Hin Hs r Hr. unfold all_keys in Hin.
  repeat (destruct Hin as [<-|Hin]; [try discriminate Hs|]); try contradiction;
    cbn [s4 app4 std_of fst snd Nat.sub]; unfold g_param0_row, g_param1_row; cbv zeta;
    rows_lit; rops; (split; first [reflexivity | field; exact Hr]).
Qed.

Corollary tie_param_cols : forall k, In k all_keys -> is_shear k = false ->
  forall f : list (list R), Forall (fun r => @suml R ROps r <> 0) f ->
    map (app4 (@g_param0_row R ROps) (s4 k)) f = @col R ROps (fst k - 1) f /\
    map (app4 (@g_param1_row R ROps) (s4 k)) f = @col R ROps (snd k - 1) f.
Proof.
  intros k Hin Hs f Hf. unfold col. split; apply map_ext_in; intros r Hr;
    rewrite Forall_forall in Hf; destruct (tie_param_rows k Hin Hs r (Hf r Hr)) as [A B]; rops; assumption.
Qed.

(** * __hash__: equal tasks have the same hash, and it is defined *)
Theorem tie_hash_consistent : forall (T A K : Type) hT hA hK comb const (a b : tobj T A K),
  same_task T A K a b ->
  heval T A K hT hA hK comb const (g_hash (o_shear T A K a)) a
  = heval T A K hT hA hK comb const (g_hash (o_shear T A K b)) b
  /\ heval T A K hT hA hK comb const (g_hash (o_shear T A K a)) a <> None.
Proof.
  intros T A K hT hA hK comb const [ta sa a0 a1 ka] [tb sb b0 b1 kb] (Ht & Hs & Hp).
  cbn [o_ty o_shear o_arr0 o_arr1 o_key] in *. subst tb sb.
  destruct sa; destruct Hp as [H1 H2]; subst; cbn; split; try reflexivity; discriminate.
Qed.

Theorem tie_group_task_identity :
  (forall st sh ke se c0 c1, g_eq st sh ke se c0 c1 = Some (spec_eq st sh ke se c0 c1))
  /\ (forall (F : Type) (OF : Ops F) (close : F -> F -> bool) fa ka fb kb,
        g_eq (ctype ka =? ctype kb)%nat (is_shear ka) (vkey_eqb ka kb) (all22 close fa fb)
             (all2 close (col (fst ka - 1) fa) (col (fst kb - 1) fb))
             (all2 close (col (snd ka - 1) fa) (col (snd kb - 1) fb))
        = Some (cteq close (CT fa ka) (CT fb kb)))
  /\ g_param_shear = (PStrain, PKey)
  /\ (forall k, In k all_keys -> is_shear k = false -> forall r : list R, @suml R ROps r <> 0 ->
        app4 (@g_param0_row R ROps) (s4 k) r = nth (fst k - 1) r 0 / @suml R ROps r /\
        app4 (@g_param1_row R ROps) (s4 k) r = nth (snd k - 1) r 0 / @suml R ROps r)
  /\ (forall (T A K : Type) hT hA hK comb const (a b : tobj T A K), same_task T A K a b ->
        heval T A K hT hA hK comb const (g_hash (o_shear T A K a)) a
        = heval T A K hT hA hK comb const (g_hash (o_shear T A K b)) b
        /\ heval T A K hT hA hK comb const (g_hash (o_shear T A K a)) a <> None).
Proof.
  split; [exact tie_eq|]. split; [exact tie_eq_model|]. split; [exact tie_param_shear|].
  split; [exact tie_param_rows | exact tie_hash_consistent].
Qed.
Print Assumptions tie_group_task_identity.
