(** Shared vocabulary of the static tie of PhononContributionTaskParams (C04); copied into the per-run directory
    by tools/props/taskid_static.py (logical path CijGen).  Hand-written: the translator's reading of the atoms of
    __eq__ / __hash__ and of numpy column indexing.  Definitions only. *)
From Coq Require Import ZArith List Bool.
From Cij Require Import Ops TasksModel.
Import ListNotations.

(** what a branch of _make_param_by_strain_key returns *)
Inductive pret := PStrain | PKey.

(** * __eq__: conditions are option-valued; [None] = the atom is evaluated where it has no meaning
      (Python would compare arrays with == / a key with an array, or compare across calc types) *)
Definition a_fact (b : bool) : option bool := Some b.
(** [self.params[1] == other.params[1]]: a key comparison for two SHEAR tasks only (for non-shear tasks
    params[1] is an array and == is elementwise) *)
Definition a_key (same_type is_shear key_eq : bool) : option bool :=
  if same_type && is_shear then Some key_eq else None.
(** [numpy.array_equal(X.params[0], Y.params[0])]: the strain arrays of two shear tasks, the first normalised
    column of two non-shear tasks *)
Definition a_arr0 (same_type is_shear strain_eq c0_eq : bool) : option bool :=
  if same_type then Some (if is_shear then strain_eq else c0_eq) else None.
(** [numpy.array_equal(X.params[1], Y.params[1])]: second normalised column (non-shear tasks only) *)
Definition a_arr1 (same_type is_shear c1_eq : bool) : option bool :=
  if same_type && negb is_shear then Some c1_eq else None.
(** [numpy.array_equal(X.params, Y.params)]: the pair of columns as one (2, ntv) array (non-shear tasks only) *)
Definition a_params (same_type is_shear c0_eq c1_eq : bool) : option bool :=
  if same_type && negb is_shear then Some (c0_eq && c1_eq) else None.
Definition c_not (c : option bool) : option bool := option_map negb c.
Definition c_and (a b : option bool) : option bool :=
  match a with None => None | Some false => Some false | Some true => b end.
Definition c_or (a b : option bool) : option bool :=
  match a with None => None | Some true => Some true | Some false => b end.
Definition c_if (c a b : option bool) : option bool :=
  match c with None => None | Some true => a | Some false => b end.

(** * _make_param_by_strain_key: [strain[:, z]] for one row r (negative z counts from the end) *)
Section Rows.
  Context {F : Type} {OF : Ops F}.
  Definition row_at (z : Z) (r : list F) : F :=
    nth (Z.to_nat (if (z <? 0)%Z then (Z.of_nat (length r) + z)%Z else z)) r zero.
End Rows.

(** * __hash__ *)
Inductive hcomp := HType | HArr (n : nat) | HObj (n : nat).
Inductive hexpr := HLeaf (c : hcomp) | HBin (a b : hexpr) | HConst.

Section Hash.
  (** calc types, arrays UP TO numpy.array_equal (Python's hash of a tuple of floats respects ==), keys; their
      hash functions, the combining operator (^ or +) and the integer literals are arbitrary *)
  Variables (T A K : Type) (hT : T -> Z) (hA : A -> Z) (hK : K -> Z) (comb : Z -> Z -> Z) (const : Z).
  Record tobj := { o_ty : T; o_shear : bool; o_arr0 : A; o_arr1 : A; o_key : K }.
  (** shear task: params = (strain array [o_arr0], key [o_key]); non-shear: params = (column [o_arr0], column [o_arr1]).
      [None]: TypeError (hash of an ndarray), AttributeError (.flatten() of a key), IndexError *)
  Definition hcomp_val (c : hcomp) (o : tobj) : option Z :=
    match c with
    | HType => Some (hT (o_ty o))
    | HArr 0 => Some (hA (o_arr0 o))
    | HArr 1 => if o_shear o then None else Some (hA (o_arr1 o))
    | HObj 1 => if o_shear o then Some (hK (o_key o)) else None
    | _ => None
    end.
  Fixpoint heval (h : hexpr) (o : tobj) : option Z :=
    match h with
    | HLeaf c => hcomp_val c o
    | HConst => Some const
    | HBin a b => match heval a o, heval b o with Some x, Some y => Some (comb x y) | _, _ => None end
    end.
  (** what __eq__ = True means for two tasks (the specification side of the tie) *)
  Definition same_task (a b : tobj) : Prop :=
    o_ty a = o_ty b /\ o_shear a = o_shear b /\
    if o_shear a then o_key a = o_key b /\ o_arr0 a = o_arr0 b
    else o_arr0 a = o_arr0 b /\ o_arr1 a = o_arr1 b.
End Hash.
