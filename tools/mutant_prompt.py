#!/usr/bin/env python3
"""prints the brief given to an independent 'seeded change' sub-agent: ONLY the property text, its own scratch
worktree, and one-line descriptions of changes already tried (to avoid duplicates) - nothing about /verif's machinery.
usage: mutant_prompt.py C07 /tmp/w3_C07"""
import json, sys, glob
pid, wt = sys.argv[1], sys.argv[2]
for l in open('/verif/properties.jsonl'):
    p = json.loads(l)
    if p['id'] == pid:
        break
tried = []
for f in sorted(glob.glob('/verif/seeded/%s*/meta.json' % pid)):
    m = json.load(open(f))
    if m.get('change'):
        tried.append("- " + m['change'])
tmpl = '''You are a software engineer asked to produce ONE realistic, subtle regression in the Python package MineralsCloud/cij. You work ONLY inside your own scratch git worktree of the repository at {wt} (a full checkout; do not read or touch anything outside it except /venv for running Python; in particular do NOT look at /verif or /repo). Run Python as:  cd {wt} && PYTHONPATH={wt} NUMBA_CACHE_DIR={wt}/.numba /venv/bin/python ...   (the package imports as `cij`; PYTHONPATH must point at your worktree so that your edited copy is the one imported). No network.

The property your change must BREAK (it holds on the code as it is now):

TITLE: {title}
STATEMENT: {statement}
QUANTIFIED OVER: {quant}
RELEVANT FILES: {files}
OBSERVABLE AT: {observe}

Changes that other engineers have ALREADY tried for this property - yours must be different in kind (another code location, another clause of the statement, or another mechanism):
{tried}

Your job:
1. Read the relevant code until you understand why the property holds. The statement has several clauses; pick a clause or a code path that the changes listed above do not touch.
2. Make a small source change (1-15 lines, in the package code under cij/, not in tests or data files unless the property is about them) that a plausible refactoring, optimisation, dependency-upgrade adaptation or well-meant bug fix could introduce, which makes the property FALSE for some inputs while (a) the package still imports and runs, and (b) the existing test suite still passes exactly as before. The baseline summary on the unchanged code is `2 failed, 66 passed, 1 error` (the 3 tests involving examples/bridgmanite/input01 fail/error - that file is intentionally empty). To save machine time run the suite only ONCE, after your change is final:  `cd {wt} && PYTHONPATH={wt} NUMBA_CACHE_DIR={wt}/.numba timeout 1500 /venv/bin/python -m pytest -q -p no:cacheprovider --timeout=900 -x -k "not bridgmanite" `  must report 0 failures (then, if you have time, the full command without -x/-k must give the baseline line).
3. Prefer a change that needs something SPECIFIC to manifest - a particular kind of input, an unusual but legal configuration, a multi-step sequence of calls, a particular ordering, or two cooperating edits that each look harmless alone - rather than one that breaks every use at once. It must be a genuine violation of the property as stated (inside its quantifier; not of some stronger property you imagine), observable through the interfaces listed above.
4. Write a demonstration program {wt}/demo_{pid}.py (plain Python, no pytest needed, < 150 lines, may build its own small synthetic inputs in a temporary directory, must locate the package through PYTHONPATH / its own directory, not through a hard-coded path) that exits with status 0 on the ORIGINAL code and exits non-zero (assertion failure naming what went wrong) on the CHANGED code. Verify both with `git diff -- cij > patch.diff; git checkout -- cij; ...; git apply patch.diff` (NEVER use `git stash`: the stash is shared with other engineers' worktrees).
5. Save the change as {wt}/patch.diff (output of `git diff -- cij` taken in the worktree with the change applied) and leave the change applied in the worktree. Do not commit.

Final answer (plain text): the patch (inline), what it breaks and on which inputs it manifests (and on which it does not), why the existing tests still pass, and the exact commands + outputs showing the demo passing on the original and failing on the changed code, and the test-suite summary line after the change.'''
print(tmpl.format(pid=pid, wt=wt, title=p['title'], statement=p['statement'], quant=p['quantifier']['text'],
                  files=', '.join(p['anchors']['files']), observe='; '.join(p['anchors'].get('observe_at') or []),
                  tried="\n".join(tried) or "- (none yet)"))
