#!/bin/bash
# robustness soak: registered quick checks with OTHER generator seeds on the unchanged tree (no alarm expected);
# side runs: own run directory and evidence location (VERIF_TAG), official evidence untouched.
# usage: seed_soak.sh "<seeds>" C03 C04 ...
cd /verif
seeds=$1; shift
for s in $seeds; do
  for i in "$@"; do
    out=$(VERIF_TAG=soak$s VERIF_SEED=$s timeout 3000 ./check $i --tier quick 2>&1); code=$?
    echo "seed=$s $i exit=$code $(echo "$out" | grep -E "^(VIOLATION|$i tier=)" | cut -c1-150 | tr '\n' ' ')"
  done
done
