"""Shared engine of the small-function translators (translate_cli.py, translate_evec.py).

A Python function body written in a small imperative subset is turned into ONE Gallina term in the exception
monad `option` (None = "the Python code raises"):

    name = e                      let name_k := e in ...                    (SSA renaming; a sub-expression that
                                  match e with Some name_k => ... | None => None end      can raise is bound first,
                                                                                           in evaluation order)
    name[key] = e / name OP= e    functional update, rebinding `name`
    if c: A else: B  ; rest       if c then [A; rest] else [B; rest]        (the rest is duplicated into the
                                                                              branches: every path has its own
                                                                              exact environment, nothing is merged)
    if X != None / is not None    match X with Some X_v => ... | None => ... end   (X an Optional[...] value)
    for v in L: body ; rest       match py_for (fun st v => let '(c1, .., cn) := st in [body -> Some (c1', ..)]) L init
                                  with Some (c1, .., cn) => [rest] | None => None end
    return e / raise E(..)        Some e / None
    read of a local that the path has not bound                             None  (UnboundLocalError)

Loop-carried variables c1..cn are computed, not declared: every name assigned in the body that is read after
the loop, or that some path of the body reads before that path has assigned it (found by discovery passes).
A carried name that is not bound before the loop travels as an `option` (None = still unbound; reading it then
is Python's UnboundLocalError = None of the monad), so "y is only assigned under one of the ifs" keeps its
exact meaning, including across iterations.

Expressions are not interpreted here: the domain translators supply typed handlers for the names, attributes,
calls, subscripts and operators they accept; everything else ends in TranslateError(file, line, construct).
"""
import ast
import re


class TranslateError(Exception):
    def __init__(self, file, node, what):
        self.file = file
        self.line = getattr(node, "lineno", "?") if node is not None else "?"
        self.what = what
        super().__init__("%s:%s: not in the translatable grammar: %s" % (file, self.line, what))


def src_of(node):
    return ast.unparse(node)


def parse(source):
    import warnings
    with warnings.catch_warnings():
        warnings.simplefilter("ignore")       # invalid escape sequences in /repo ("\s+" in a plain string)
        return ast.parse(source)


def body_no_doc(fn):
    b = list(fn.body)
    if b and isinstance(b[0], ast.Expr) and isinstance(b[0].value, ast.Constant) and isinstance(b[0].value.value, str):
        b = b[1:]
    return b


def coq_str(s):
    if not all(32 <= ord(ch) < 127 for ch in s):
        raise ValueError("non-ASCII / control character in a string literal: %r" % s)
    return '"' + s.replace('"', '""') + '"'


class Val:
    """a translated expression: Gallina term + type tag (domain-defined strings).
    Type tags with a meaning for the engine:
        'maybe:T'  an option-valued variable holding a possibly-unbound Python local of type T
        'opt:T'    an Optional[T] value (Python None or a T)
        'none'     the constant None
        'bool'     a Gallina bool
    """
    __slots__ = ("term", "ty", "extra")

    def __init__(self, term, ty, extra=None):
        self.term, self.ty, self.extra = term, ty, extra

    def __repr__(self):
        return "Val(%s : %s)" % (self.term, self.ty)


class Entry:
    """discovery-mode marker: the value a carried candidate has at loop-body entry"""
    def __init__(self, val):
        self.val = val


class _AbortPath(Exception):
    """discovery pass only: the current path read a loop-body local that it has not assigned"""


class _PathRaises(Exception):
    """the current path certainly raises here (read of a local that no statement of the path has bound)"""


def _targets(t, out):
    if isinstance(t, ast.Name):
        out.append(t.id)
    elif isinstance(t, (ast.Tuple, ast.List)):
        for x in t.elts:
            _targets(x, out)
    elif isinstance(t, ast.Subscript):
        if isinstance(t.value, ast.Name):
            out.append(t.value.id)
    elif isinstance(t, ast.Attribute):
        if isinstance(t.value, ast.Name):
            out.append(t.value.id)
    elif isinstance(t, ast.Starred):
        _targets(t.value, out)


def assigned_names(stmts):
    out = []
    for s in stmts:
        for n in ast.walk(s):
            if isinstance(n, ast.Assign):
                for t in n.targets:
                    _targets(t, out)
            elif isinstance(n, (ast.AugAssign, ast.AnnAssign)):
                _targets(n.target, out)
            elif isinstance(n, (ast.For, ast.AsyncFor)):
                _targets(n.target, out)
            elif isinstance(n, ast.NamedExpr):
                _targets(n.target, out)
            elif isinstance(n, (ast.With, ast.AsyncWith)):
                for it in n.items:
                    if it.optional_vars is not None:
                        _targets(it.optional_vars, out)
            elif isinstance(n, (ast.Import, ast.ImportFrom)):
                for a in n.names:
                    out.append((a.asname or a.name).split(".")[0])
            elif isinstance(n, (ast.FunctionDef, ast.AsyncFunctionDef, ast.ClassDef)):
                out.append(n.name)
            elif isinstance(n, ast.ExceptHandler) and n.name:
                out.append(n.name)
            elif isinstance(n, ast.comprehension):
                pass                                  # comprehension targets live in their own scope
    return sorted(set(out))


def loaded_names(stmts):
    out = set()
    for s in stmts:
        for n in ast.walk(s):
            if isinstance(n, ast.Name) and isinstance(n.ctx, ast.Load):
                out.add(n.id)
            # a store into name[...] / an augmented assignment reads the name too
            if isinstance(n, (ast.Subscript, ast.Attribute)) and isinstance(n.ctx, ast.Store) and isinstance(n.value, ast.Name):
                out.add(n.value.id)
            if isinstance(n, ast.AugAssign) and isinstance(n.target, ast.Name):
                out.add(n.target.id)
    return out


class FunTr:
    """translator of one function body.  Subclasses define the typed vocabulary (all hooks fail closed):

        name(e, env, B) -> Val | None             a global name (not a local of the function)
        global_attr(q, e, env, B) -> Val | None   dotted global `q` (module attribute) used as a value
        attribute(v, attr, e, env, B) -> Val      v.attr
        method(v, attr, args, kwargs, e, env, B)  v.attr(args)          args / kwargs values are ast nodes
        call(q, args, kwargs, e, env, B)          call of the resolved global function `q`
        call_value(f, args, kwargs, e, env, B)    call of a translated value (e.g. a spline object)
        subscript(v, sl, e, env, B) -> Val        v[sl] (load)
        store(v, sl, value, s, env, B) -> Val     v[sl] = value  -> the NEW value of v
        binop / matmul / unaryop / compare / augop / constant / other_expr / truth
        iterable(v, e) -> (list_term, elem_ty)    what `for x in v` iterates over
        glue(s, env) -> bool                      statement accepted by exact pattern, no semantics (recorded in facts)
        final_expr(s, env, B) -> Val | None       an expression statement that delivers the result (print(...))
    B is the list of pending binds [(ident, option_term)] of the current statement.
    """

    aliases = {}                 # local/global name -> dotted module path it is bound to by an import
    function_locals = frozenset()  # every name the function assigns anywhere (reads of them never fall through to globals)
    protected = frozenset()      # names the translation relies on: never assignable
    mutable_types = frozenset()  # type tags of objects that can be changed in place (aliasing is refused)
    module_aliases = {}          # names bound by module-level imports (visible inside inlined helpers)
    helpers = {}                 # module-level helper functions that may be inlined: name -> (FunctionDef, Module)
    helper_imports = None        # import statements accepted at the top of a helper: text -> {name: dotted path}

    def __init__(self, file, source):
        self.file = file
        self.source = source
        self.counter = {}
        self.discover = None       # during a discovery pass: dict(candidates, carried, types)
        self.facts = []            # pattern-checked glue and static decisions, reported
        self.rest_stack = []       # statements that follow the current one, per nesting level (for liveness)
        self.in_loop = 0

    # ---- helpers -------------------------------------------------------------------------------------
    def bail(self, node, what=None):
        raise TranslateError(self.file, node, what or "%s `%s`" % (type(node).__name__, src_of(node)[:120]))

    def fresh(self, name):
        base = re.sub(r"[^A-Za-z0-9_]", "_", name)
        if not re.match(r"[A-Za-z]", base):
            base = "v" + base
        k = self.counter.get(base, 0) + 1
        self.counter[base] = k
        return "%s_%d" % (base, k)

    @staticmethod
    def wrap(binds, body):
        for ident, term in reversed(binds):
            body = "match %s with\n | Some %s => %s\n | None => None\n end" % (term, ident, body)
        return body

    def bind(self, B, name, option_term):
        """register `option_term : option T` as evaluated now; returns the identifier of its value"""
        ident = self.fresh(name)
        B.append((ident, option_term))
        return ident

    @staticmethod
    def tuple_term(parts):
        if not parts:
            return "tt"
        if len(parts) == 1:
            return parts[0]
        return "(" + ", ".join(parts) + ")"

    # ---- expressions ------------------------------------------------------------------------------------
    def read_local(self, name, node, env, B):
        v = env[name]
        if not isinstance(v, Entry) and v.ty == "dropped":
            self.bail(node, "`%s` is read after a loop that assigned it, without being loop-carried" % name)
        if isinstance(v, Entry):                          # discovery: the value is carried into this iteration
            self.discover["carried"].add(name)
            v = v.val
            env[name] = v
        if v.ty.startswith("maybe:"):
            inner = v.ty[len("maybe:"):]
            ident = self.bind(B, name, v.term)
            env[name] = Val(ident, inner, v.extra)
            return env[name]
        return v

    def expr(self, e, env, B):
        if isinstance(e, ast.Name):
            if not isinstance(e.ctx, ast.Load):
                self.bail(e)
            if e.id in env:
                return self.read_local(e.id, e, env, B)
            if self.discover is not None and e.id in self.discover["candidates"]:
                # unbound on this path but assigned somewhere in the loop body: may be bound by an earlier iteration
                self.discover["carried"].add(e.id)
                raise _AbortPath()
            if e.id in self.function_locals:
                raise _PathRaises("local `%s` is unbound on this path" % e.id)
            if e.id in self.aliases:
                v = self.global_attr(self.aliases[e.id], e, env, B)
                if v is None:
                    self.bail(e, "global `%s` used as a value" % self.aliases[e.id])
                return v
            v = self.name(e, env, B)
            if v is None:
                self.bail(e, "name `%s` (not a parameter, a local assigned before, or a known global)" % e.id)
            return v
        if isinstance(e, ast.Constant):
            return self.constant(e)
        if isinstance(e, ast.Attribute):
            q = self.qualname(e, env)
            if q is not None:
                v = self.global_attr(q, e, env, B)
                if v is None:
                    self.bail(e, "global `%s` used as a value" % q)
                return v
            v = self.expr(e.value, env, B)
            return self.attribute(v, e.attr, e, env, B)
        if isinstance(e, ast.Call):
            if any(isinstance(a, ast.Starred) for a in e.args) or any(k.arg is None for k in e.keywords):
                self.bail(e, "call with * / ** arguments `%s`" % src_of(e)[:100])
            kwargs = {k.arg: k.value for k in e.keywords}
            q = self.qualname(e.func, env)
            if q is not None:
                return self.call(q, list(e.args), kwargs, e, env, B)
            if isinstance(e.func, ast.Name) and e.func.id not in env and e.func.id not in self.function_locals \
                    and not (self.discover is not None and e.func.id in self.discover["candidates"]):
                return self.call(e.func.id, list(e.args), kwargs, e, env, B)       # builtin / module-level function
            if isinstance(e.func, ast.Attribute):
                v = self.expr(e.func.value, env, B)
                return self.method(v, e.func.attr, list(e.args), kwargs, e, env, B)
            f = self.expr(e.func, env, B)
            return self.call_value(f, list(e.args), kwargs, e, env, B)
        if isinstance(e, ast.Subscript):
            v = self.expr(e.value, env, B)
            return self.subscript(v, e.slice, e, env, B)
        if isinstance(e, ast.BinOp):
            l = self.expr(e.left, env, B)
            if isinstance(e.op, ast.MatMult):
                return self.matmul(l, e.right, e, env, B)
            r = self.expr(e.right, env, B)
            return self.binop(e.op, l, r, e)
        if isinstance(e, ast.UnaryOp) and not isinstance(e.op, ast.Not):
            return self.unaryop(e.op, self.expr(e.operand, env, B), e)
        if isinstance(e, ast.Compare):
            if len(e.ops) != 1:
                self.bail(e, "chained comparison `%s`" % src_of(e)[:100])
            l = self.expr(e.left, env, B)
            r = self.expr(e.comparators[0], env, B)
            return self.compare(e.ops[0], l, r, e)
        return self.other_expr(e, env, B)

    def qualname(self, f, env):
        """dotted global name of an expression rooted at an imported module / imported function, else None"""
        parts = []
        n = f
        while isinstance(n, ast.Attribute):
            parts.append(n.attr)
            n = n.value
        if isinstance(n, ast.Name) and n.id not in env and n.id in self.aliases:
            return ".".join([self.aliases[n.id]] + parts[::-1])
        return None

    # hooks with fail-closed defaults
    def name(self, e, env, B):
        return None

    def constant(self, e):
        if e.value is None:
            return Val("None", "none")
        self.bail(e, "literal %r" % (e.value,))

    def global_attr(self, q, e, env, B):
        return None

    def attribute(self, v, attr, e, env, B):
        self.bail(e, "attribute `.%s` of a value of type %s" % (attr, v.ty))

    def method(self, v, attr, args, kwargs, e, env, B):
        self.bail(e, "method `.%s(...)` of a value of type %s" % (attr, v.ty))

    def call(self, q, args, kwargs, e, env, B):
        return self.unknown_call(q, args, kwargs, e, env, B)

    def unknown_call(self, q, args, kwargs, e, env, B):
        """last resort of the domain `call` hooks: a module-level helper is inlined, anything else refused"""
        if isinstance(e.func, ast.Name) and q == e.func.id and q in self.helpers:
            return self.inline_call(q, args, kwargs, e, env, B)
        self.bail(e, "call of `%s`" % q)

    def call_value(self, f, args, kwargs, e, env, B):
        self.bail(e, "call of a value of type %s" % f.ty)

    def subscript(self, v, sl, e, env, B):
        self.bail(e, "subscript `%s` on a value of type %s" % (src_of(e)[:80], v.ty))

    def store(self, v, sl, value, s, env, B):
        self.bail(s, "store `%s` into a value of type %s" % (src_of(s)[:80], v.ty))

    def binop(self, op, l, r, e):
        self.bail(e, "operator %s on (%s, %s)" % (type(op).__name__, l.ty, r.ty))

    def matmul(self, l, right, e, env, B):
        self.bail(e, "operator @ in `%s`" % src_of(e)[:80])

    def unaryop(self, op, v, e):
        self.bail(e, "unary operator %s on %s" % (type(op).__name__, v.ty))

    def compare(self, op, l, r, e):
        self.bail(e, "comparison %s on (%s, %s)" % (type(op).__name__, l.ty, r.ty))

    def augop(self, op, l, r, s):
        self.bail(s, "augmented operator %s on (%s, %s)" % (type(op).__name__, l.ty, r.ty))

    def other_expr(self, e, env, B):
        self.bail(e)

    def iterable(self, v, e):
        self.bail(e, "iteration over a value of type %s" % v.ty)

    def unpack(self, v, n, node, ident):
        """components of the tuple-valued `v` (already bound to the Gallina identifier `ident`) for `a, b = v`"""
        self.bail(node, "unpacking of a value of type %s into %d names" % (v.ty, n))

    def glue(self, s, env):
        return False

    def final_expr(self, s, env, B):
        return None

    def result(self, v, s):
        return "Some %s" % v.term

    def raise_stmt(self, s, env):
        return "None"

    def truth(self, v, e):
        """Python truthiness of a value used as a condition: ('static', bool) or ('bool', term)"""
        if v.ty == "none":
            return ("static", False)
        if v.ty == "bool":
            return ("bool", v.term)
        self.bail(e, "truth value of a %s in `%s`" % (v.ty, src_of(e)[:60]))

    # ---- inlining of module-level helpers ------------------------------------------------------------------
    def inline_call(self, name, args, kwargs, e, env, B):
        """`name(args)` where `name` is a module-level function whose body is STRAIGHT-LINE:
               [docstring] [imports] (local = expression)* return expression
        The arguments are evaluated first, left to right, in the caller's environment (call by value); the body is then
        translated with ONLY the parameters (and later its own locals) in scope, names resolved through the module-level
        imports and the helper's own imports - Python's scoping.  No stores, augmented assignments, loops, conditionals
        or nested calls of itself: the helper is a pure expression of its arguments, so substituting it is sound."""
        fn, mod = self.helpers[name]
        stack = getattr(self, "_inline_stack", [])
        if name in stack or len(stack) >= 3:
            self.bail(e, "recursive / deeply nested helper call `%s`" % name)
        find_function(mod, self.file, name)                     # bound exactly once in the module
        a = fn.args
        if fn.decorator_list or a.defaults or a.kw_defaults or a.vararg or a.kwarg or a.kwonlyargs or a.posonlyargs:
            self.bail(e, "helper `%s` has decorators / defaults / * parameters" % name)
        if kwargs or len(args) != len(a.args):
            self.bail(e, "call of helper `%s` with %d positional and %d keyword arguments (it takes %d positional)"
                      % (name, len(args), len(kwargs), len(a.args)))
        forbid_dynamic(fn, self.file)
        vals = [self.expr(x, env, B) for x in args]
        if self.helper_imports is not None:
            al, body = leading_imports(fn, self.file, self.helper_imports)
        else:
            al, body = {}, body_no_doc(fn)
            for st in body:
                for n in ast.walk(st):
                    if isinstance(n, (ast.Import, ast.ImportFrom)):
                        self.bail(n, "import inside helper `%s`" % name)
        henv = {}
        for p_, v in zip(a.args, vals):
            henv[p_.arg] = v
        saved = (self.aliases, self.function_locals)
        self.aliases = dict(self.module_aliases)
        self.aliases.update(al)
        self.function_locals = frozenset(assigned_names(body)) | frozenset(x.arg for x in a.args)
        self._inline_stack = stack + [name]
        try:
            if any(x in self.aliases for x in self.function_locals):
                self.bail(fn, "helper `%s` rebinds an imported name" % name)
            if not body or not isinstance(body[-1], ast.Return) or body[-1].value is None:
                self.bail(fn, "helper `%s` does not end in `return <expression>`" % name)
            for st in body[:-1]:
                if isinstance(st, ast.Expr) and isinstance(st.value, ast.Constant) and isinstance(st.value.value, str):
                    continue
                if not (isinstance(st, ast.Assign) and len(st.targets) == 1 and isinstance(st.targets[0], ast.Name)):
                    self.bail(st, "statement `%s` in helper `%s` (only `local = expression` before the final return)"
                              % (src_of(st)[:60], name))
                v = self.expr(st.value, henv, B)
                if v.ty in self.mutable_types and isinstance(st.value, (ast.Name, ast.Subscript, ast.Attribute)):
                    self.bail(st, "`%s` binds a second name to a mutable %s" % (src_of(st)[:60], v.ty))
                if v.ty.startswith("maybe:"):
                    self.bail(st, "internal: maybe-typed value in a helper")
                henv[st.targets[0].id] = v
            out = self.expr(body[-1].value, henv, B)
            self.facts.append("%s:%s: call of the module-level helper `%s` inlined (straight-line body)" % (self.file, e.lineno, name))
            return out
        finally:
            self.aliases, self.function_locals = saved
            self._inline_stack = stack

    # ---- conditions --------------------------------------------------------------------------------------
    def cond(self, t, env, B):
        """-> ('static', b) | ('bool', term) | ('some', name, negated)"""
        if isinstance(t, ast.Compare) and len(t.ops) == 1 and isinstance(t.left, ast.Name) \
                and isinstance(t.comparators[0], ast.Constant) and t.comparators[0].value is None \
                and isinstance(t.ops[0], (ast.NotEq, ast.IsNot, ast.Eq, ast.Is)):
            neg = isinstance(t.ops[0], (ast.Eq, ast.Is))
            v = self.expr(t.left, env, B)        # handles unbound / maybe / entry values
            if v.ty.startswith("opt:"):
                return ("some", t.left.id, neg)
            if v.ty == "none":
                return ("static", neg)
            if v.extra == "never-none":
                return ("static", not neg)
            self.bail(t, "`%s`: comparison of a %s with None" % (src_of(t), v.ty))
        if isinstance(t, ast.UnaryOp) and isinstance(t.op, ast.Not):
            c = self.cond(t.operand, env, B)
            if c[0] == "static":
                return ("static", not c[1])
            if c[0] == "bool":
                return ("bool", "(negb %s)" % c[1])
            return ("some", c[1], not c[2])
        if isinstance(t, ast.BoolOp):
            is_and = isinstance(t.op, ast.And)
            acc = None
            for x in t.values:
                nb = len(B)
                c = self.cond(x, env, B)
                if c[0] == "some":
                    self.bail(t, "a comparison of an Optional parameter with None inside and/or: `%s`" % src_of(t)[:80])
                if acc is not None and len(B) != nb:
                    self.bail(t, "an operand of and/or after the first can raise (short-circuit evaluation is not "
                                 "expressible): `%s`" % src_of(t)[:80])
                if c[0] == "static":
                    if c[1] != is_and:
                        # False in `and` / True in `or`: the remaining operands are never evaluated
                        if acc is None:
                            return ("static", c[1])
                        return ("bool", "(%s %s %s)" % ("andb" if is_and else "orb", acc, "false" if is_and else "true"))
                    continue
                acc = c[1] if acc is None else "(%s %s %s)" % ("andb" if is_and else "orb", acc, c[1])
            if acc is None:
                return ("static", is_and)
            return ("bool", acc)
        v = self.expr(t, env, B)
        return self.truth(v, t)

    # ---- statements --------------------------------------------------------------------------------------
    def block(self, stmts, env, k):
        """term of `stmts` followed by continuation k(env)"""
        if not stmts:
            return k(env)
        s, rest = stmts[0], stmts[1:]
        outer = list(self.rest_stack)          # one entry per enclosing block: the statements that follow in that block

        def after(env2):
            saved, self.rest_stack = self.rest_stack, list(outer)
            try:
                return self.block(rest, env2, k)
            finally:
                self.rest_stack = saved
        saved0, self.rest_stack = self.rest_stack, outer + [rest]
        try:
            return self.stmt(s, rest, env, after)
        except _PathRaises as e:
            return "None (* line %s: %s *)" % (getattr(s, "lineno", "?"), str(e).replace("*)", "* )"))
        finally:
            self.rest_stack = saved0

    def branch(self, stmts, env, k):
        """a branch of a conditional: in discovery mode an aborted path cuts only this branch"""
        if self.discover is None:
            return self.block(stmts, env, k)
        try:
            return self.block(stmts, env, k)
        except _AbortPath:
            self.discover["aborted"] = True
            return "None"

    def assign(self, name, val, env, node=None):
        """bind python local `name` to val: returns (let-prefix, env')"""
        if not re.fullmatch(r"[A-Za-z_][A-Za-z0-9_]*", name):
            raise TranslateError(self.file, node, "local name `%s`" % name)
        if name in self.protected or name in self.aliases:
            raise TranslateError(self.file, node, "assignment to `%s` (an imported / special name the translation relies on)" % name)
        if val.ty.startswith("maybe:"):
            raise TranslateError(self.file, node, "internal: maybe-typed value assigned")
        ident = self.fresh(name)
        env2 = dict(env)
        env2[name] = Val(ident, val.ty, val.extra)
        if self.discover is not None:
            self.discover["types"].setdefault(name, set()).add(val.ty)
        return "let %s := %s in\n " % (ident, val.term), env2

    def stmt(self, s, rest, env, after):
        if isinstance(s, ast.Pass):
            return after(env)
        if isinstance(s, ast.Expr) and isinstance(s.value, ast.Constant) and isinstance(s.value.value, str):
            return after(env)
        if self.glue(s, env):
            return after(env)
        if isinstance(s, ast.Assign):
            if len(s.targets) != 1:
                self.bail(s, "chained assignment `%s`" % src_of(s)[:80])
            t = s.targets[0]
            env = dict(env)
            B = []
            if isinstance(t, ast.Name):
                v = self.expr(s.value, env, B)
                if v.ty in self.mutable_types and isinstance(s.value, (ast.Name, ast.Subscript, ast.Attribute)):
                    # two names for one mutable object: a later in-place change through one would be visible through the
                    # other, which the functional translation cannot express
                    self.bail(s, "`%s` binds a second name to (a view of) a mutable %s" % (src_of(s)[:60], v.ty))
                if v.extra == "param":
                    v = Val(v.term, v.ty, "param")
                pre, env2 = self.assign(t.id, v, env, s)
                return self.wrap(B, pre + after(env2))
            if isinstance(t, (ast.Tuple, ast.List)) and t.elts and all(isinstance(x, ast.Name) for x in t.elts):
                # a, b = e: e is evaluated once, then the names are bound left to right to its components
                names = [x.id for x in t.elts]
                if len(set(names)) != len(names):
                    self.bail(s, "a name occurs twice in the targets of `%s`" % src_of(s)[:60])
                v = self.expr(s.value, env, B)
                pid = self.fresh("unpacked")
                parts = self.unpack(v, len(names), s, pid)
                pre, env2 = "let %s := %s in\n " % (pid, v.term), env
                for nm, pv in zip(names, parts):
                    p1, env2 = self.assign(nm, pv, env2, s)
                    pre += p1
                return self.wrap(B, pre + after(env2))
            if isinstance(t, ast.Subscript) and isinstance(t.value, ast.Name):
                # Python evaluates the right-hand side first, then the container and the key
                val = self.expr(s.value, env, B)
                cont = self.expr(t.value, env, B)
                if t.value.id not in env:
                    self.bail(s, "store into `%s`, which is not a local" % t.value.id)
                if cont.extra == "param":
                    self.bail(s, "`%s` changes an argument object in place (visible to the caller; not modelled)" % src_of(s)[:60])
                new = self.store(cont, t.slice, val, s, env, B)
                pre, env2 = self.assign(t.value.id, new, env, s)
                return self.wrap(B, pre + after(env2))
            self.bail(s, "assignment target `%s`" % src_of(t)[:80])
        if isinstance(s, ast.AugAssign):
            if not isinstance(s.target, ast.Name):
                self.bail(s, "augmented assignment to `%s`" % src_of(s.target)[:80])
            env = dict(env)
            B = []
            l = self.expr(ast.copy_location(ast.Name(id=s.target.id, ctx=ast.Load()), s), env, B)
            if s.target.id not in env:
                self.bail(s, "augmented assignment to `%s`, which is not a local" % s.target.id)
            if l.extra == "param" and l.ty in self.mutable_types:
                self.bail(s, "`%s` changes an argument object in place (visible to the caller; not modelled)" % src_of(s)[:60])
            r = self.expr(s.value, env, B)
            v = self.augop(s.op, l, r, s)
            pre, env2 = self.assign(s.target.id, v, env, s)
            return self.wrap(B, pre + after(env2))
        if isinstance(s, ast.If):
            env = dict(env)
            B = []
            c = self.cond(s.test, env, B)
            if c[0] == "static":
                self.facts.append("%s:%s: `if %s` is decided statically (%s): the translation is specialised to the "
                                  "default None of that parameter" % (self.file, s.lineno, src_of(s.test)[:60], c[1]))
                return self.wrap(B, self.block(list(s.body if c[1] else s.orelse), env, after))
            if c[0] == "bool":
                a = self.branch(list(s.body), dict(env), after)
                b = self.branch(list(s.orelse), dict(env), after)
                return self.wrap(B, "(if %s\n then %s\n else %s)" % (c[1], a, b))
            _, nm, neg = c
            v = env[nm]
            inner = v.ty[len("opt:"):]
            ident = self.fresh(nm + "_v")
            env_some = dict(env)
            env_some[nm] = Val(ident, inner, "never-none")
            env_none = dict(env)
            env_none[nm] = Val("None", "none")
            yes, no = (s.orelse, s.body) if neg else (s.body, s.orelse)
            a = self.branch(list(yes), env_some, after)
            b = self.branch(list(no), env_none, after)
            return self.wrap(B, "match %s with\n | Some %s => %s\n | None => %s\n end" % (v.term, ident, a, b))
        if isinstance(s, ast.For):
            return self.for_loop(s, rest, env, after)
        if isinstance(s, ast.Return):
            if self.in_loop:
                self.bail(s, "return inside a loop")
            B = []
            env = dict(env)
            if s.value is None:
                self.bail(s, "bare return")
            v = self.expr(s.value, env, B)
            return self.wrap(B, self.result(v, s))
        if isinstance(s, ast.Raise):
            return self.raise_stmt(s, env)
        if isinstance(s, ast.Expr):
            B = []
            env = dict(env)
            v = self.final_expr(s, env, B)
            if v is not None:
                if rest or self.in_loop or any(self.rest_stack[:-1]):
                    self.bail(s, "`%s` is not the last statement of the function" % src_of(s)[:60])
                return self.wrap(B, self.result(v, s))
        self.bail(s, "statement `%s`" % src_of(s)[:100].replace("\n", " | "))

    # ---- loops -------------------------------------------------------------------------------------------
    def live_after(self):
        names = set()
        for rest in self.rest_stack:
            names |= loaded_names(rest)
        return names

    def for_loop(self, s, rest, env, after):
        if s.orelse:
            self.bail(s, "for ... else")
        if self.in_loop or self.discover is not None:
            self.bail(s, "nested loop")
        if isinstance(s.target, ast.Name):
            lvs = [s.target.id]
        elif isinstance(s.target, ast.Tuple) and s.target.elts and all(isinstance(x, ast.Name) for x in s.target.elts) \
                and len({x.id for x in s.target.elts}) == len(s.target.elts):
            lvs = [x.id for x in s.target.elts]
        else:
            self.bail(s, "loop target `%s`" % src_of(s.target))
        for n in ast.walk(s):
            if isinstance(n, (ast.Break, ast.Continue, ast.While, ast.Try, ast.With, ast.Yield, ast.YieldFrom, ast.Return,
                              ast.FunctionDef, ast.Lambda, ast.ClassDef, ast.Global, ast.Nonlocal, ast.Delete)):
                self.bail(n, "%s inside a loop" % type(n).__name__)
        env = dict(env)
        B = []
        itv = self.expr(s.iter, env, B)
        lst, ety = self.iterable(itv, s.iter)
        body = list(s.body)
        for lv in lvs:
            if lv in assigned_names(body) or lv in self.protected or lv in self.aliases:
                self.bail(s, "loop variable `%s` is assigned in the loop body / shadows a special name" % lv)
        # the object iterated over must not be changed by the body (Python: undefined / RuntimeError for dicts)
        clash = sorted(loaded_names([ast.Expr(value=s.iter)]) & set(assigned_names(body)))
        if clash:
            self.bail(s, "the loop body assigns `%s`, which the loop iterates over" % ", ".join(clash))
        assigned = assigned_names(body)
        live = self.live_after()
        # -- discovery passes: which assigned names does some path read before that path assigns them?
        known = {}          # carried name that is unbound before the loop -> its type
        saved_counter, saved_facts = dict(self.counter), list(self.facts)
        for _round in range(len(assigned) + 2):
            self.discover = dict(candidates=set(assigned), carried=set(known), types={}, aborted=False)
            denv = dict(env)
            for a in assigned:
                if a in denv:
                    denv[a] = Entry(denv[a])
                elif a in known:
                    denv[a] = Val("carried_" + a, "maybe:" + known[a])
            if len(lvs) == 1:
                denv[lvs[0]] = Val("elem", ety)
            else:
                for nm, pv in zip(lvs, self.unpack(Val("elem", ety), len(lvs), s, "elem")):
                    denv[nm] = pv
            self.in_loop += 1
            saved_rest, self.rest_stack = self.rest_stack, []
            try:
                self.branch(body, denv, lambda e2: "Some tt")
            finally:
                self.in_loop -= 1
                self.rest_stack = saved_rest
            found = self.discover
            self.discover = None
            self.counter, self.facts = dict(saved_counter), list(saved_facts)
            new = [a for a in sorted(found["carried"]) if a not in env and a not in known]
            if not new:
                break
            for a in new:
                tys = found["types"].get(a, set())
                if len(tys) != 1:
                    self.bail(s, "local `%s` is read in the loop body on a path that has not assigned it, and the body assigns "
                                 "it values of %d type(s) (%s): no single type" % (a, len(tys), ", ".join(sorted(tys))))
                known[a] = next(iter(tys))
        else:
            self.bail(s, "loop analysis did not converge")
        carried = sorted(a for a in assigned if a in live or a in found["carried"])
        comp = []          # (name, type, bound before the loop?, initial term)
        for a in carried:
            if a in env:
                v = env[a]
                if v.ty.startswith("maybe:"):
                    comp.append((a, v.ty[len("maybe:"):], False, v.term))
                else:
                    comp.append((a, v.ty, True, v.term))
            elif a in known:
                comp.append((a, known[a], False, "None"))
            else:
                tys = found["types"].get(a, set())
                if len(tys) != 1:
                    self.bail(s, "local `%s` (read after the loop) is assigned values of %d type(s) in the loop body (%s)"
                              % (a, len(tys), ", ".join(sorted(tys))))
                comp.append((a, next(iter(tys)), False, "None"))
        for a, ty, bound, _ in comp:
            tys = found["types"].get(a, {ty})
            if tys - {ty}:
                self.bail(s, "loop-carried local `%s` changes its type in the loop body (%s vs %s)" % (a, ty, ", ".join(sorted(tys))))
        # -- the real pass
        st_ids = [self.fresh(a + "_st") for a, _, _, _ in comp]
        ev = self.fresh(lvs[0] if len(lvs) == 1 else "item")
        benv = dict(env)
        for a in assigned:
            benv.pop(a, None)
        for (a, ty, bound, _), sid in zip(comp, st_ids):
            benv[a] = Val(sid, ty if bound else "maybe:" + ty)
        if len(lvs) == 1:
            benv[lvs[0]] = Val(ev, ety)
        else:
            # for a, b in L: every element is unpacked into the loop variables
            for nm, pv in zip(lvs, self.unpack(Val(ev, ety), len(lvs), s, ev)):
                benv[nm] = pv

        def pack(e2):
            parts = []
            for (a, ty, bound, _), sid in zip(comp, st_ids):
                v = e2.get(a)
                if v is None:
                    self.bail(s, "internal: carried `%s` lost" % a)
                if v.ty.startswith("maybe:"):
                    parts.append(v.term)
                    continue
                if v.ty != ty:
                    self.bail(s, "loop-carried local `%s` changes its type (%s -> %s)" % (a, ty, v.ty))
                parts.append(v.term if bound else "(Some %s)" % v.term)
            return "Some %s" % self.tuple_term(parts)

        self.in_loop += 1
        saved_rest, self.rest_stack = self.rest_stack, []
        saved_locals = self.function_locals
        try:
            bterm = self.block(body, benv, pack)
        finally:
            self.in_loop -= 1
            self.rest_stack = saved_rest
        init = self.tuple_term([t for _, _, _, t in comp])
        out_ids = [self.fresh(a) for a, _, _, _ in comp]
        env2 = dict(env)
        for a in assigned + lvs:
            # assigned in the loop and not carried (no later statement reads it before rebinding it - checked textually;
            # the marker makes any such read a TranslateError rather than a wrong value)
            env2[a] = Val("", "dropped")
        for (a, ty, bound, _), oid in zip(comp, out_ids):
            env2[a] = Val(oid, ty if bound else "maybe:" + ty)
        if len(st_ids) > 1:
            body_fun = "(fun st__ %s =>\n let '%s := st__ in\n %s)" % (ev, self.tuple_term(st_ids), bterm)
            pat = "Some %s" % self.tuple_term(out_ids)
        elif len(st_ids) == 1:
            body_fun = "(fun %s %s =>\n %s)" % (st_ids[0], ev, bterm)
            pat = "Some %s" % out_ids[0]
        else:
            body_fun = "(fun (_ : unit) %s =>\n %s)" % (ev, bterm)
            pat = "Some _"
        self.loops = getattr(self, "loops", []) + [dict(line=s.lineno, carried=[(a, ty, bound) for a, ty, bound, _ in comp])]
        term = "match py_for %s %s %s with\n | %s => %s\n | None => None\n end" % (body_fun, lst, init, pat, after(env2))
        return self.wrap(B, term)


# ---- function / module level checks ----------------------------------------------------------------------

def find_function(mod, file, name):
    fs = [n for n in mod.body if isinstance(n, ast.FunctionDef) and n.name == name]
    if len(fs) != 1:
        raise TranslateError(file, fs[1] if len(fs) > 1 else None, "function %s defined %d times at module level" % (name, len(fs)))
    bad = []
    for n in ast.walk(mod):
        if n is fs[0]:
            continue
        if isinstance(n, (ast.FunctionDef, ast.AsyncFunctionDef, ast.ClassDef)) and n.name == name:
            bad.append(n)
        if isinstance(n, ast.Name) and n.id == name and isinstance(n.ctx, (ast.Store, ast.Del)):
            bad.append(n)
        if isinstance(n, (ast.Import, ast.ImportFrom)) and any((a.asname or a.name).split(".")[0] == name for a in n.names):
            bad.append(n)
        if isinstance(n, ast.arg) and n.arg == name:
            bad.append(n)
    if bad:
        raise TranslateError(file, bad[0], "name `%s` is bound a second time" % name)
    return fs[0]


def plain_params(fn, file, expected):
    """positional-or-keyword parameters exactly `expected` (list of names), no * / ** / kw-only / pos-only"""
    a = fn.args
    got = [x.arg for x in a.args]
    if got != list(expected) or a.vararg or a.kwarg or a.kwonlyargs or a.posonlyargs:
        raise TranslateError(file, fn, "parameters of %s are (%s), expected (%s)" % (fn.name, ", ".join(got), ", ".join(expected)))
    return a


def forbid_dynamic(fn, file):
    for n in ast.walk(fn):
        if isinstance(n, ast.Name) and n.id in ("setattr", "delattr", "vars", "globals", "locals", "exec", "eval",
                                                 "__import__", "getattr", "compile", "__builtins__"):
            raise TranslateError(file, n, "use of `%s`" % n.id)
        if isinstance(n, (ast.Global, ast.Nonlocal, ast.Await, ast.Yield, ast.YieldFrom, ast.Lambda, ast.Try, ast.With,
                          ast.While, ast.Delete, ast.NamedExpr, ast.AsyncFor, ast.AsyncWith)):
            raise TranslateError(file, n, "%s statement/expression" % type(n).__name__)
        if isinstance(n, (ast.FunctionDef, ast.AsyncFunctionDef, ast.ClassDef)) and n is not fn:
            raise TranslateError(file, n, "nested definition of `%s`" % n.name)


def builtins_unshadowed(mod, file, names):
    """the builtins the translation gives a meaning to are not rebound anywhere in the module"""
    for n in ast.walk(mod):
        bound = []
        if isinstance(n, (ast.Import, ast.ImportFrom)):
            bound = [(a.asname or a.name).split(".")[0] for a in n.names]
        elif isinstance(n, (ast.FunctionDef, ast.AsyncFunctionDef, ast.ClassDef)):
            bound = [n.name]
        elif isinstance(n, ast.Name) and isinstance(n.ctx, (ast.Store, ast.Del)):
            bound = [n.id]
        elif isinstance(n, ast.arg):
            bound = [n.arg]
        elif isinstance(n, (ast.Global, ast.Nonlocal)):
            bound = list(n.names)
        elif isinstance(n, ast.ExceptHandler) and n.name:
            bound = [n.name]
        for b in bound:
            if b in names:
                raise TranslateError(file, n, "builtin `%s` is rebound in the module" % b)


def leading_imports(fn, file, allowed):
    """the import statements at the top of a function body: each must be one of `allowed`
    (unparsed text -> {bound name: dotted path}); imports anywhere else in the function are refused.
    Returns (aliases, remaining statements)."""
    body = body_no_doc(fn)
    aliases = {}
    k = 0
    while k < len(body) and isinstance(body[k], (ast.Import, ast.ImportFrom)):
        t = src_of(body[k])
        if t not in allowed:
            raise TranslateError(file, body[k], "import `%s` inside %s (accepted: %s)" % (t, fn.name, "; ".join(sorted(allowed))))
        for nm, path in allowed[t].items():
            if nm in aliases and aliases[nm] != path:
                raise TranslateError(file, body[k], "`%s` is imported twice with different meanings" % nm)
            aliases[nm] = path
        k += 1
    for s in body[k:]:
        for n in ast.walk(s):
            if isinstance(n, (ast.Import, ast.ImportFrom)):
                raise TranslateError(file, n, "import `%s` after the first statement of %s" % (src_of(n), fn.name))
    return aliases, body[k:]


def module_imports(mod, file, wanted):
    """`wanted`: bound name -> (import statement text, dotted path).  Each name must be bound exactly once in the whole
    module, by that top-level import."""
    aliases = {}
    for nm, (text, path) in wanted.items():
        binders = []
        for n in ast.walk(mod):
            names = []
            if isinstance(n, (ast.Import, ast.ImportFrom)):
                names = [(a.asname or a.name).split(".")[0] for a in n.names]
            elif isinstance(n, (ast.FunctionDef, ast.AsyncFunctionDef, ast.ClassDef)):
                names = [n.name]
            elif isinstance(n, ast.Name) and isinstance(n.ctx, (ast.Store, ast.Del)):
                names = [n.id]
            elif isinstance(n, ast.arg):
                names = [n.arg]
            elif isinstance(n, (ast.Global, ast.Nonlocal)):
                names = list(n.names)
            elif isinstance(n, ast.ExceptHandler) and n.name:
                names = [n.name]
            if nm in names:
                binders.append(n)
        if len(binders) != 1 or binders[0] not in mod.body or src_of(binders[0]) != text:
            raise TranslateError(file, binders[0] if binders else None,
                                 "name `%s` is not bound exactly once, by the top-level statement `%s` (found: %s)"
                                 % (nm, text, "; ".join(src_of(b)[:60] for b in binders) or "nothing"))
        aliases[nm] = path
    return aliases
