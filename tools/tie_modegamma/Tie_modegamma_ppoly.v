(** static data-flow tie, group PPOLY: interpolate_mode_ppoly of cij/core/mode_gamma.py, evaluated by the translator
    once per literal of its `method == "..."` chain, as regenerated into Gen_modegamma.gen_ppoly. *)
From Coq Require Import String.
From Coq Require Import Reals List Bool Arith Lia.
From Coquelicot Require Import Coquelicot.
From Cij Require Import Ops ROps PolyModel InterpModel Poly Interp InterpMore.
From CijGen Require Import MGFlowBase MGFlowR Gen_modegamma.
Import ListNotations.

Definition ppoly_method (m : method) : Prop := m = Pchip \/ m = Akima \/ m = Hermite.
Definition ckind_of (m : method) : ckind :=
  match m with Pchip => CPchip | Akima => CAkima | Hermite => CCubicHermite | _ => CPchip end.

(** (a) for each of pchip / akima / hermite the chain has an entry, and its flow = the model's per-method function *)
Lemma tie_ppoly_model {F : Type} {OF : Ops F} (lib : @library F) (m : method) order (vols freqs grid : list F) :
  ppoly_method m -> length vols = length freqs ->
  exists h, slookup (method_string m) gen_ppoly = Some h /\
            den_flow (I_model lib) C_model order vols freqs grid h = mode_fn lib m order vols freqs grid.
Proof.
  intros [-> | [-> | ->]] Hlen; eexists; (split; [reflexivity|]);
    flow_norm; rewrite zip3_map; unfold mode_fn, oracle_mode, subsample; rewrite ?Hlen; reflexivity.
Qed.

(** (b) for ANY library oracle: exp / minus / minus of the nu = 0, 1, 2 evaluations (all with extrapolate=True) of ONE
    object of the class selected by the method string, built from flip(log(V[::i])), flip(log(w[::i])), same i *)
Lemma tie_ppoly_one_object {F : Type} {OF : Ops F} (I : @cfamily F) (C : @pfamily F) (m : method) order (vols freqs grid : list F) :
  ppoly_method m ->
  exists h, slookup (method_string m) gen_ppoly = Some h /\
            den_flow I C order vols freqs grid h =
            map (fun v => family_triple (I (ckind_of m) None
                                           (rev (map fln (take_every_from (interval (length vols) order) 0 vols)))
                                           (rev (map fln (take_every_from (interval (length vols) order) 0 freqs))) true)
                                        (fln v)) grid.
Proof.
  intros [-> | [-> | ->]]; eexists; (split; [reflexivity|]); flow_tie.
Qed.

Local Open Scope R_scope.

Theorem tie_ppoly_consistent (I : @cfamily R) (C : @pfamily R) (m : method) order (vols freqs : list R) :
  ppoly_method m ->
  let f := I (ckind_of m) None (rev (map ln (take_every_from (interval (length vols) order) 0 vols)))
                               (rev (map ln (take_every_from (interval (length vols) order) 0 freqs))) true in
  (exists h, slookup (method_string m) gen_ppoly = Some h /\
             forall grid, den_flow I C order vols freqs grid h = map (fun v => family_triple f (ln v)) grid) /\
  (forall x, is_derive (f 0%nat) x (f 1%nat x) -> is_derive (f 1%nat) x (f 2%nat x) ->
             consistent_at (family_triple f) x).
Proof.
  intros Hm f. split; [|apply family_contract_consistent].
  destruct Hm as [-> | [-> | ->]]; eexists; (split; [reflexivity|]); intros grid; flow_tie.
Qed.

(** (d) the generated flows satisfy the existing theorem [triple_consistent_library] of Prop_C11 *)
Theorem tie_ppoly_library (lib : @library R) (m : method) order (vols freqs : list R) :
  ppoly_method m -> length vols = length freqs ->
  let o := lib_oracle lib m order vols freqs in
  (exists h, slookup (method_string m) gen_ppoly = Some h /\
             forall grid, den_flow (I_model lib) C_model order vols freqs grid h =
                          map (fun v => oracle_tripleR o (ln v)) grid) /\
  (forall x, is_derive (o_val o) x (o_d1 o x) -> is_derive (o_d1 o) x (o_d2 o x) ->
             consistent_at (oracle_tripleR o) x).
Proof.
  intros Hm Hlen o.
  assert (Hl : library_method m) by (destruct Hm as [-> | [-> | ->]]; unfold library_method; tauto).
  destruct (triple_consistent_library_l lib m order vols freqs Hl) as [E Hc].
  split; [|exact Hc].
  destruct (tie_ppoly_model lib m order vols freqs [] Hm Hlen) as [h [Eh _]].
  exists h. split; [exact Eh|]. intros grid.
  destruct (tie_ppoly_model lib m order vols freqs grid Hm Hlen) as [h' [Eh' E']].
  rewrite Eh in Eh'. injection Eh' as <-. rewrite E'. apply E.
Qed.

Theorem tie_group_ppoly :
  (forall (lib : @library R) m order vols freqs grid, ppoly_method m -> length vols = length freqs ->
      exists h, slookup (method_string m) gen_ppoly = Some h /\
                den_flow (I_model lib) C_model order vols freqs grid h = @mode_fn R ROps lib m order vols freqs grid) /\
  (forall (I : @cfamily R) (C : @pfamily R) m order vols freqs, ppoly_method m ->
      let f := I (ckind_of m) None (rev (map ln (take_every_from (interval (length vols) order) 0 vols)))
                                   (rev (map ln (take_every_from (interval (length vols) order) 0 freqs))) true in
      (exists h, slookup (method_string m) gen_ppoly = Some h /\
                 forall grid, den_flow I C order vols freqs grid h = map (fun v => family_triple f (ln v)) grid) /\
      (forall x, is_derive (f 0%nat) x (f 1%nat x) -> is_derive (f 1%nat) x (f 2%nat x) ->
                 consistent_at (family_triple f) x)).
Proof. split; [intros; apply tie_ppoly_model; assumption | exact tie_ppoly_consistent]. Qed.
Print Assumptions tie_group_ppoly.
