(** static data-flow tie, group LAGRANGE: interpolate_mode_lagrange of cij/core/mode_gamma.py as regenerated
    into Gen_modegamma.gen_lagrange. *)
From Coq Require Import String.
From Coq Require Import Reals List Bool Arith Lia.
From Coquelicot Require Import Coquelicot.
From Cij Require Import Ops ROps PolyModel InterpModel Poly Interp InterpMore.
From CijGen Require Import MGFlowBase MGFlowR Gen_modegamma.
Import ListNotations.

(** (a) generated flow = the model's per-method function (both arrays of equal length, as in the loop) *)
Lemma tie_lagrange_model {F : Type} {OF : Ops F} (lib : @library F) order (vols freqs grid : list F) :
  length vols = length freqs ->
  den_flow (I_model lib) C_model order vols freqs grid gen_lagrange = mode_fn lib Lagrange order vols freqs grid.
Proof.
  intros Hlen. unfold gen_lagrange. flow_norm. rewrite zip3_map.
  unfold mode_fn, poly_mode, node_poly, subsample, poly_triple. rewrite ?Hlen. reflexivity.
Qed.

(** (b) for ANY coefficient oracle: the three returned arrays are exp(p), -p', -p'' (numpy.polyder m = 1, 2 of the
    same coefficient list) of ONE polynomial p = lagrange(flip(log(V[::i])), flip(log(w[::i]))),
    i = int(ceil(len(V) / order)) applied to both arrays, all three evaluated at log(v_array) *)
Lemma tie_lagrange_one_polynomial {F : Type} {OF : Ops F} (I : @cfamily F) (C : @pfamily F) order (vols freqs grid : list F) :
  den_flow I C order vols freqs grid gen_lagrange =
  map (fun v => poly_triple (C PLagrange None
                               (rev (map fln (take_every_from (interval (length vols) order) 0 vols)))
                               (rev (map fln (take_every_from (interval (length vols) order) 0 freqs)))) (fln v)) grid.
Proof. unfold gen_lagrange. flow_norm. rewrite zip3_map. reflexivity. Qed.

Local Open Scope R_scope.

(** (c) ... hence consistent, with no library contract ([polyder_is_derive]) *)
Theorem tie_lagrange_consistent (I : @cfamily R) (C : @pfamily R) order (vols freqs : list R) :
  let p := C PLagrange None (rev (map ln (take_every_from (interval (length vols) order) 0 vols)))
                            (rev (map ln (take_every_from (interval (length vols) order) 0 freqs))) in
  (forall grid, den_flow I C order vols freqs grid gen_lagrange = map (fun v => poly_tripleR p (ln v)) grid) /\
  (forall x, consistent_at (poly_tripleR p) x).
Proof.
  intros p. split; [intros grid; exact (tie_lagrange_one_polynomial I C order vols freqs grid) | apply poly_consistent].
Qed.

Theorem tie_group_lagrange :
  (forall (lib : @library R) order vols freqs grid, length vols = length freqs ->
      den_flow (I_model lib) C_model order vols freqs grid gen_lagrange = @mode_fn R ROps lib Lagrange order vols freqs grid) /\
  (forall (I : @cfamily R) (C : @pfamily R) order vols freqs,
      let p := C PLagrange None (rev (map ln (take_every_from (interval (length vols) order) 0 vols)))
                                (rev (map ln (take_every_from (interval (length vols) order) 0 freqs))) in
      (forall grid, den_flow I C order vols freqs grid gen_lagrange = map (fun v => poly_tripleR p (ln v)) grid) /\
      (forall x, consistent_at (poly_tripleR p) x)).
Proof. split; [intros; apply tie_lagrange_model; assumption | exact tie_lagrange_consistent]. Qed.
Print Assumptions tie_group_lagrange.
