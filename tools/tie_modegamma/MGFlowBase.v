(** Shared vocabulary of the static DATA-FLOW tie of cij/core/mode_gamma.py (C11).
    Hand-written; copied into the per-run directory by tools/props/modegamma_static.py (logical path
    CijGen).  The generated file Gen_modegamma.v (tools/translate_modegamma.py) holds closed terms of
    the types below; Tie_modegamma_<group>.v prove them equal to the model InterpModel.v.

    The semantics of the loop part and its generic theorem are in MGLoopSem.v.
    No real numbers here: everything is generic in the number domain [Ops F] (the same statements
    hold at R and at binary64), so this file and Gen_modegamma.v compile in a fraction of a second. *)
From Coq Require Import String.
From Coq Require Import ZArith List Bool Arith Lia.
From Cij Require Import Ops PolyModel InterpModel.
Import ListNotations.

(* ================================================================================================= *)
(** * 1. data flow of one helper  interpolate_mode_<method>(mode_volumes, mode_freqs, v_array, order)  *)

(** how the stride of [a[::interval]] is computed from [n = <array>.shape[0]] and the helper's [order] *)
Inductive rounding :=
| RCeil          (* int(numpy.ceil(n / order)) *)
| RFloorMax1.    (* max(n // order, 1) *)

(** array-valued expressions over the helper's parameters *)
Inductive arr :=
| AVols | AFreqs | AGrid               (* mode_volumes, mode_freqs, v_array *)
| ALog (a : arr)                       (* numpy.log(a) *)
| AFlip (a : arr)                      (* numpy.flip(a, axis=0) / numpy.flipud(a) *)
| AStride (a n_of : arr) (r : rounding).   (* a[::interval], interval computed from n_of.shape[0] and order *)

(** degree / order argument handed to a constructor *)
Inductive degx :=
| DNone                 (* none *)
| DOrder (plus : nat).  (* the helper's [order] + plus *)

(** library objects that are called: obj(x), obj(x, nu=n), obj.derivative(x, der=n) *)
Inductive ckind := CUnivariateSpline | CKrogh | CPchip | CAkima | CCubicHermite.
(** constructors whose result is a coefficient array / poly1d *)
Inductive pkind := PLagrange | PLstsq.

Inductive cobj := CBuild (k : ckind) (d : degx) (xs ys : arr).
Inductive pobj :=
| PBuild (k : pkind) (d : degx) (xs ys : arr)   (* lagrange(xs, ys) | lstsq(vander(xs, d), ys)[0] *)
| PDer (p : pobj) (m : nat).                    (* numpy.polyder(p, m) *)

(** arrays of evaluated values *)
Inductive ev :=
| ECall (c : cobj) (nu : nat) (ext : bool) (x : arr)   (* c(x, nu=nu[, extrapolate=True]) *)
| EPoly (p : pobj) (x : arr)                           (* p(x) / numpy.polyval(p, x) *)
| ENeg (e : ev)
| EExp (e : ev).

(** the returned tuple *)
Record helper_flow := { hf_omega : ev; hf_gamma : ev; hf_third : ev }.

Fixpoint slookup {A} (k : string) (t : list (string * A)) : option A :=
  match t with [] => None | (k', v) :: r => if String.eqb k k' then Some v else slookup k r end.

Section Den.
  Context {F : Type} {OF : Ops F}.

  (** THE LIBRARY ORACLES.  [I k d xs ys ext nu x]: value at x of the nu-th "derivative evaluation" of the
      object the class k builds from nodes (xs, ys) and degree argument d.  [C k d xs ys]: coefficient list
      (highest degree first) the polynomial constructor k returns. *)
  Definition cfamily := ckind -> option nat -> list F -> list F -> bool -> nat -> F -> F.
  Definition pfamily := pkind -> option nat -> list F -> list F -> list F.

  Variable I : cfamily.
  Variable C : pfamily.
  Variables (order : nat) (vols freqs grid : list F).

  Definition stride (r : rounding) (n : nat) : nat :=
    match r with RCeil => interval n order | RFloorMax1 => Nat.max (n / order) 1 end.

  Fixpoint den_arr (a : arr) : list F :=
    match a with
    | AVols => vols | AFreqs => freqs | AGrid => grid
    | ALog a => map fln (den_arr a)
    | AFlip a => rev (den_arr a)
    | AStride a n r => take_every_from (stride r (length (den_arr n))) 0 (den_arr a)
    end.
  Definition den_deg (d : degx) : option nat :=
    match d with DNone => None | DOrder p => Some (order + p) end.
  Definition den_cobj (c : cobj) : bool -> nat -> F -> F :=
    match c with CBuild k d xs ys => I k (den_deg d) (den_arr xs) (den_arr ys) end.
  Fixpoint den_pobj (p : pobj) : list F :=
    match p with
    | PBuild k d xs ys => C k (den_deg d) (den_arr xs) (den_arr ys)
    | PDer p m => Nat.iter m polyder (den_pobj p)
    end.
  Fixpoint den_ev (e : ev) : list F :=
    match e with
    | ECall c nu ext x => map (den_cobj c ext nu) (den_arr x)
    | EPoly p x => map (polyval (den_pobj p)) (den_arr x)
    | ENeg e => map opp (den_ev e)
    | EExp e => map fexp (den_ev e)
    end.
  Fixpoint zip3 (a b c : list F) : list (@triple F) :=
    match a, b, c with
    | x :: a', y :: b', z :: c' => (x, y, z) :: zip3 a' b' c'
    | _, _, _ => []
    end.
  (** what the helper returns, as one list of triples over the grid *)
  Definition den_flow (h : helper_flow) : list (@triple F) :=
    zip3 (den_ev (hf_omega h)) (den_ev (hf_gamma h)) (den_ev (hf_third h)).
End Den.

Section DenLemmas.
  Context {F : Type} {OF : Ops F}.

  Lemma zip3_map {A} (f g h : A -> F) (l : list A) :
    zip3 (map f l) (map g l) (map h l) = map (fun v => (f v, g v, h v)) l.
  Proof. induction l as [|x t IH]; cbn [map zip3]; [reflexivity | rewrite IH; reflexivity]. Qed.

  (** the triple one callable family / one coefficient list yields at x = ln V *)
  Definition family_triple (f : nat -> F -> F) (x : F) : @triple F :=
    (fexp (f 0%nat x), opp (f 1%nat x), opp (f 2%nat x)).

  (** the model's choices for the oracles, given the model's [library] *)
  Definition method_of_ckind (k : ckind) : method :=
    match k with
    | CUnivariateSpline => Spline | CKrogh => Krogh | CPchip => Pchip | CAkima => Akima
    | CCubicHermite => Hermite
    end.
  Definition I_model (lib : @library F) : @cfamily F :=
    fun k d xs ys _ nu x =>
      match k with
      | CKrogh => polyval (Nat.iter nu polyder (interp_coeffs xs ys)) x
      | _ => let o := lib (method_of_ckind k) (match d with Some n => n | None => O end) xs ys in
             match nu with
             | 0 => o_val o x | 1 => o_d1 o x | 2 => o_d2 o x | _ => zero
             end
      end.
  Definition C_model : @pfamily F :=
    fun k d xs ys =>
      match k with
      | PLagrange => interp_coeffs xs ys
      | PLstsq => lsq_coeffs (pred (match d with Some n => n | None => O end)) xs ys
      end.
End DenLemmas.

(** closes  [den_flow I C order vols freqs grid <generated flow> = map (fun v => ...) grid]  when the three
    components are evaluations of the same arrays; [Hlen : length vols = length freqs] may be in the context *)
Ltac flow_norm :=
  unfold den_flow; cbn [hf_omega hf_gamma hf_third den_ev den_cobj den_pobj den_arr den_deg stride];
  rewrite ?map_map; rewrite ?Nat.add_0_r, ?Nat.add_1_r; cbn [pred Nat.iter nat_rect].
Ltac flow_tie :=
  flow_norm; rewrite zip3_map; reflexivity.

(* ================================================================================================= *)
(** * 2. data flow of the double loop of  interpolate_modes                                            *)

Inductive helper := HSpline | HLagrange | HKrogh | HPpoly | HLsqPoly.
Inductive lvar := LJ | LK.                   (* outer / inner loop variable *)
Inductive dim := DimNtv | DimNq | DimNp | DimNv.      (* v_array.shape[0], qha_input.nq, .np, .nv *)

(** the test of  [if <test>: continue]  *)
Inductive bexp :=
| BFalse
| BEq (v : lvar) (n : nat)        (* v == n *)
| BLt (v : lvar) (n : nat)        (* v < n   /  v in range(n) *)
| BAnd (a b : bexp) | BOr (a b : bexp) | BNot (a : bexp).

(** actual arguments of a helper call *)
Inductive larg :=
| LVolumes                       (* numpy.array([volume.volume for volume in qha_input.volumes]) *)
| LCol (q m : lvar)              (* numpy.array([volume.q_points[q].modes[m] for volume in qha_input.volumes]) *)
| LGrid.                         (* the parameter v_array *)
Inductive orderarg :=
| OrdCaller                      (* order=order : the caller's order *)
| OrdHelperDefault.              (* no order argument: the helper's own default *)

(** [out_<t_array>[:, a, b] = ...]; output arrays are numbered by their position in the return statement *)
Record target := { t_array : nat; t_slot : lvar * lvar }.

Record branch := {
  br_methods : list string;            (* method == "s"  /  method in ["s", ...] *)
  br_helper : helper;
  br_targets : list target;            (* i-th target receives the i-th component of the helper's result *)
  br_args : larg * larg * larg;        (* bound to the helper's mode_volumes, mode_freqs, v_array *)
  br_order : orderarg;
  br_passes_method : bool;             (* method=method *)
}.

Record loop_flow := {
  lf_outer : dim; lf_inner : dim;                   (* for j in range(outer): for k in range(inner) *)
  lf_shapes : list (dim * dim * dim);               (* numpy.zeros(shape) of the three returned arrays *)
  lf_skip : bexp;
  lf_branches : list branch;                        (* the if / elif chain, no else *)
}.

Definition method_string (m : method) : string :=
  match m with
  | Spline => "spline" | Lagrange => "lagrange" | Krogh => "krogh" | Pchip => "pchip" | Akima => "akima"
  | Hermite => "hermite" | LsqPoly => "lsq_poly"
  end%string.
(** the dispatch the model's [mode_fn] stands for *)
Definition helper_of (m : method) : helper :=
  match m with
  | Spline => HSpline | Lagrange => HLagrange | Krogh => HKrogh | LsqPoly => HLsqPoly
  | Pchip | Akima | Hermite => HPpoly
  end.
Definition passes_method (m : method) : bool :=
  match m with Pchip | Akima | Hermite => true | _ => false end.

Definition lvar_eqb (a b : lvar) : bool := match a, b with LJ, LJ | LK, LK => true | _, _ => false end.
Definition dim_eqb (a b : dim) : bool :=
  match a, b with DimNtv, DimNtv | DimNq, DimNq | DimNp, DimNp | DimNv, DimNv => true | _, _ => false end.
Definition larg_eqb (a b : larg) : bool :=
  match a, b with
  | LVolumes, LVolumes | LGrid, LGrid => true
  | LCol q m, LCol q' m' => lvar_eqb q q' && lvar_eqb m m'
  | _, _ => false
  end.
Definition target_eqb (a b : target) : bool :=
  Nat.eqb (t_array a) (t_array b) && lvar_eqb (fst (t_slot a)) (fst (t_slot b))
  && lvar_eqb (snd (t_slot a)) (snd (t_slot b)).

Definition std_targets : list target :=
  [ {| t_array := 0; t_slot := (LJ, LK) |}; {| t_array := 1; t_slot := (LJ, LK) |};
    {| t_array := 2; t_slot := (LJ, LK) |} ].
Definition std_args : larg * larg * larg := (LVolumes, LCol LJ LK, LGrid).

(** decidable well-formedness: every branch stores component i into returned array i at slot [:, j, k],
    calls its helper on (all volumes, the column (j, k), the grid) with the caller's order; the loops run
    over range(nq) x range(np); the arrays are zeros((ntv, nq, np)) *)
Definition wf_branch (b : branch) : bool :=
  list_eqb target_eqb (br_targets b) std_targets
  && (let '(a1, a2, a3) := br_args b in let '(s1, s2, s3) := std_args in
      larg_eqb a1 s1 && larg_eqb a2 s2 && larg_eqb a3 s3)
  && match br_order b with OrdCaller => true | OrdHelperDefault => false end.
Definition wf_loop (lf : loop_flow) : bool :=
  dim_eqb (lf_outer lf) DimNq && dim_eqb (lf_inner lf) DimNp
  && list_eqb (fun a b => let '(a1, a2, a3) := a in let '(b1, b2, b3) := b in
                          dim_eqb a1 b1 && dim_eqb a2 b2 && dim_eqb a3 b3)
              (lf_shapes lf) [(DimNtv, DimNq, DimNp); (DimNtv, DimNq, DimNp); (DimNtv, DimNq, DimNp)]
  && forallb wf_branch (lf_branches lf).
