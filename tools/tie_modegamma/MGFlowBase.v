(** Shared vocabulary of the static DATA-FLOW tie of cij/core/mode_gamma.py (C11).
    Hand-written; copied into the per-run directory by tools/props/modegamma_static.py (logical path
    CijGen).  The generated file Gen_modegamma.v (tools/translate_modegamma.py) holds closed terms of
    the types below; Tie_modegamma_<group>.v prove them equal to the model InterpModel.v.

    No real numbers here: everything is generic in the number domain [Ops F] (the same statements
    hold at R and at binary64), so this file and Gen_modegamma.v compile in a fraction of a second. *)
From Coq Require Import String.
From Coq Require Import ZArith List Bool Arith Lia.
From Cij Require Import Ops PolyModel InterpModel.
Import ListNotations.

(* ================================================================================================= *)
(** * 1. data flow of one helper  interpolate_mode_<method>(mode_volumes, mode_freqs, v_array, order)  *)

(** how the stride of [a[::interval]] is computed from [n = <array>.shape[0]] and the helper's [order] *)
Inductive rounding :=
| RCeil          (* int(numpy.ceil(n / order)) *)
| RFloorMax1.    (* max(n // order, 1) *)

(** array-valued expressions over the helper's parameters *)
Inductive arr :=
| AVols | AFreqs | AGrid               (* mode_volumes, mode_freqs, v_array *)
| ALog (a : arr)                       (* numpy.log(a) *)
| AFlip (a : arr)                      (* numpy.flip(a, axis=0) / numpy.flipud(a) *)
| AStride (a n_of : arr) (r : rounding).   (* a[::interval], interval computed from n_of.shape[0] and order *)

(** degree / order argument handed to a constructor *)
Inductive degx :=
| DNone                 (* none *)
| DOrder (plus : nat).  (* the helper's [order] + plus *)

(** library objects that are called: obj(x), obj(x, nu=n), obj.derivative(x, der=n) *)
Inductive ckind := CUnivariateSpline | CKrogh | CPchip | CAkima | CCubicHermite.
(** constructors whose result is a coefficient array / poly1d *)
Inductive pkind := PLagrange | PLstsq.

Inductive cobj := CBuild (k : ckind) (d : degx) (xs ys : arr).
Inductive pobj :=
| PBuild (k : pkind) (d : degx) (xs ys : arr)   (* lagrange(xs, ys) | lstsq(vander(xs, d), ys)[0] *)
| PDer (p : pobj) (m : nat).                    (* numpy.polyder(p, m) *)

(** arrays of evaluated values *)
Inductive ev :=
| ECall (c : cobj) (nu : nat) (ext : bool) (x : arr)   (* c(x, nu=nu[, extrapolate=True]) *)
| EPoly (p : pobj) (x : arr)                           (* p(x) / numpy.polyval(p, x) *)
| ENeg (e : ev)
| EExp (e : ev).

(** the returned tuple *)
Record helper_flow := { hf_omega : ev; hf_gamma : ev; hf_third : ev }.

Fixpoint slookup {A} (k : string) (t : list (string * A)) : option A :=
  match t with [] => None | (k', v) :: r => if String.eqb k k' then Some v else slookup k r end.

Section Den.
  Context {F : Type} {OF : Ops F}.

  (** THE LIBRARY ORACLES.  [I k d xs ys ext nu x]: value at x of the nu-th "derivative evaluation" of the
      object the class k builds from nodes (xs, ys) and degree argument d.  [C k d xs ys]: coefficient list
      (highest degree first) the polynomial constructor k returns. *)
  Definition cfamily := ckind -> option nat -> list F -> list F -> bool -> nat -> F -> F.
  Definition pfamily := pkind -> option nat -> list F -> list F -> list F.

  Variable I : cfamily.
  Variable C : pfamily.
  Variables (order : nat) (vols freqs grid : list F).

  Definition stride (r : rounding) (n : nat) : nat :=
    match r with RCeil => interval n order | RFloorMax1 => Nat.max (n / order) 1 end.

  Fixpoint den_arr (a : arr) : list F :=
    match a with
    | AVols => vols | AFreqs => freqs | AGrid => grid
    | ALog a => map fln (den_arr a)
    | AFlip a => rev (den_arr a)
    | AStride a n r => take_every_from (stride r (length (den_arr n))) 0 (den_arr a)
    end.
  Definition den_deg (d : degx) : option nat :=
    match d with DNone => None | DOrder p => Some (order + p) end.
  Definition den_cobj (c : cobj) : bool -> nat -> F -> F :=
    match c with CBuild k d xs ys => I k (den_deg d) (den_arr xs) (den_arr ys) end.
  Fixpoint den_pobj (p : pobj) : list F :=
    match p with
    | PBuild k d xs ys => C k (den_deg d) (den_arr xs) (den_arr ys)
    | PDer p m => Nat.iter m polyder (den_pobj p)
    end.
  Fixpoint den_ev (e : ev) : list F :=
    match e with
    | ECall c nu ext x => map (den_cobj c ext nu) (den_arr x)
    | EPoly p x => map (polyval (den_pobj p)) (den_arr x)
    | ENeg e => map opp (den_ev e)
    | EExp e => map fexp (den_ev e)
    end.
  Fixpoint zip3 (a b c : list F) : list (@triple F) :=
    match a, b, c with
    | x :: a', y :: b', z :: c' => (x, y, z) :: zip3 a' b' c'
    | _, _, _ => []
    end.
  (** what the helper returns, as one list of triples over the grid *)
  Definition den_flow (h : helper_flow) : list (@triple F) :=
    zip3 (den_ev (hf_omega h)) (den_ev (hf_gamma h)) (den_ev (hf_third h)).
End Den.

Section DenLemmas.
  Context {F : Type} {OF : Ops F}.

  Lemma zip3_map {A} (f g h : A -> F) (l : list A) :
    zip3 (map f l) (map g l) (map h l) = map (fun v => (f v, g v, h v)) l.
  Proof. induction l as [|x t IH]; cbn [map zip3]; [reflexivity | rewrite IH; reflexivity]. Qed.

  (** the triple one callable family / one coefficient list yields at x = ln V *)
  Definition family_triple (f : nat -> F -> F) (x : F) : @triple F :=
    (fexp (f 0%nat x), opp (f 1%nat x), opp (f 2%nat x)).

  (** the model's choices for the oracles, given the model's [library] *)
  Definition method_of_ckind (k : ckind) : method :=
    match k with
    | CUnivariateSpline => Spline | CKrogh => Krogh | CPchip => Pchip | CAkima => Akima
    | CCubicHermite => Hermite
    end.
  Definition I_model (lib : @library F) : @cfamily F :=
    fun k d xs ys _ nu x =>
      match k with
      | CKrogh => polyval (Nat.iter nu polyder (interp_coeffs xs ys)) x
      | _ => let o := lib (method_of_ckind k) (match d with Some n => n | None => O end) xs ys in
             match nu with
             | 0 => o_val o x | 1 => o_d1 o x | 2 => o_d2 o x | _ => zero
             end
      end.
  Definition C_model : @pfamily F :=
    fun k d xs ys =>
      match k with
      | PLagrange => interp_coeffs xs ys
      | PLstsq => lsq_coeffs (pred (match d with Some n => n | None => O end)) xs ys
      end.
End DenLemmas.

(** closes  [den_flow I C order vols freqs grid <generated flow> = map (fun v => ...) grid]  when the three
    components are evaluations of the same arrays; [Hlen : length vols = length freqs] may be in the context *)
Ltac flow_norm :=
  unfold den_flow; cbn [hf_omega hf_gamma hf_third den_ev den_cobj den_pobj den_arr den_deg stride];
  rewrite ?map_map; rewrite ?Nat.add_0_r, ?Nat.add_1_r; cbn [pred Nat.iter nat_rect].
Ltac flow_tie :=
  flow_norm; rewrite zip3_map; reflexivity.

(* ================================================================================================= *)
(** * 2. data flow of the double loop of  interpolate_modes                                            *)

Inductive helper := HSpline | HLagrange | HKrogh | HPpoly | HLsqPoly.
Inductive lvar := LJ | LK.                   (* outer / inner loop variable *)
Inductive dim := DimNtv | DimNq | DimNp | DimNv.      (* v_array.shape[0], qha_input.nq, .np, .nv *)

(** the test of  [if <test>: continue]  *)
Inductive bexp :=
| BFalse
| BEq (v : lvar) (n : nat)        (* v == n *)
| BLt (v : lvar) (n : nat)        (* v < n   /  v in range(n) *)
| BAnd (a b : bexp) | BOr (a b : bexp) | BNot (a : bexp).

(** actual arguments of a helper call *)
Inductive larg :=
| LVolumes                       (* numpy.array([volume.volume for volume in qha_input.volumes]) *)
| LCol (q m : lvar)              (* numpy.array([volume.q_points[q].modes[m] for volume in qha_input.volumes]) *)
| LGrid.                         (* the parameter v_array *)
Inductive orderarg :=
| OrdCaller                      (* order=order : the caller's order *)
| OrdHelperDefault.              (* no order argument: the helper's own default *)

(** [out_<t_array>[:, a, b] = ...]; output arrays are numbered by their position in the return statement *)
Record target := { t_array : nat; t_slot : lvar * lvar }.

Record branch := {
  br_methods : list string;            (* method == "s"  /  method in ["s", ...] *)
  br_helper : helper;
  br_targets : list target;            (* i-th target receives the i-th component of the helper's result *)
  br_args : larg * larg * larg;        (* bound to the helper's mode_volumes, mode_freqs, v_array *)
  br_order : orderarg;
  br_passes_method : bool;             (* method=method *)
}.

Record loop_flow := {
  lf_outer : dim; lf_inner : dim;                   (* for j in range(outer): for k in range(inner) *)
  lf_shapes : list (dim * dim * dim);               (* numpy.zeros(shape) of the three returned arrays *)
  lf_skip : bexp;
  lf_branches : list branch;                        (* the if / elif chain, no else *)
}.

Definition method_string (m : method) : string :=
  match m with
  | Spline => "spline" | Lagrange => "lagrange" | Krogh => "krogh" | Pchip => "pchip" | Akima => "akima"
  | Hermite => "hermite" | LsqPoly => "lsq_poly"
  end%string.
(** the dispatch the model's [mode_fn] stands for *)
Definition helper_of (m : method) : helper :=
  match m with
  | Spline => HSpline | Lagrange => HLagrange | Krogh => HKrogh | LsqPoly => HLsqPoly
  | Pchip | Akima | Hermite => HPpoly
  end.
Definition passes_method (m : method) : bool :=
  match m with Pchip | Akima | Hermite => true | _ => false end.

Definition lvar_eqb (a b : lvar) : bool := match a, b with LJ, LJ | LK, LK => true | _, _ => false end.
Definition dim_eqb (a b : dim) : bool :=
  match a, b with DimNtv, DimNtv | DimNq, DimNq | DimNp, DimNp | DimNv, DimNv => true | _, _ => false end.
Definition larg_eqb (a b : larg) : bool :=
  match a, b with
  | LVolumes, LVolumes | LGrid, LGrid => true
  | LCol q m, LCol q' m' => lvar_eqb q q' && lvar_eqb m m'
  | _, _ => false
  end.
Definition target_eqb (a b : target) : bool :=
  Nat.eqb (t_array a) (t_array b) && lvar_eqb (fst (t_slot a)) (fst (t_slot b))
  && lvar_eqb (snd (t_slot a)) (snd (t_slot b)).

Definition std_targets : list target :=
  [ {| t_array := 0; t_slot := (LJ, LK) |}; {| t_array := 1; t_slot := (LJ, LK) |};
    {| t_array := 2; t_slot := (LJ, LK) |} ].
Definition std_args : larg * larg * larg := (LVolumes, LCol LJ LK, LGrid).

(** decidable well-formedness: every branch stores component i into returned array i at slot [:, j, k],
    calls its helper on (all volumes, the column (j, k), the grid) with the caller's order; the loops run
    over range(nq) x range(np); the arrays are zeros((ntv, nq, np)) *)
Definition wf_branch (b : branch) : bool :=
  list_eqb target_eqb (br_targets b) std_targets
  && (let '(a1, a2, a3) := br_args b in let '(s1, s2, s3) := std_args in
      larg_eqb a1 s1 && larg_eqb a2 s2 && larg_eqb a3 s3)
  && match br_order b with OrdCaller => true | OrdHelperDefault => false end.
Definition wf_loop (lf : loop_flow) : bool :=
  dim_eqb (lf_outer lf) DimNq && dim_eqb (lf_inner lf) DimNp
  && list_eqb (fun a b => let '(a1, a2, a3) := a in let '(b1, b2, b3) := b in
                          dim_eqb a1 b1 && dim_eqb a2 b2 && dim_eqb a3 b3)
              (lf_shapes lf) [(DimNtv, DimNq, DimNp); (DimNtv, DimNq, DimNp); (DimNtv, DimNq, DimNp)]
  && forallb wf_branch (lf_branches lf).

Section LoopSem.
  Context {F : Type} {OF : Ops F}.

  (** semantics of a helper call: helper, method keyword (if passed), order, mode_volumes, mode_freqs, v_array *)
  Variable H : helper -> option string -> nat -> list F -> list F -> list F -> list (@triple F).
  Variable lf : loop_flow.
  Variables (mstr : string) (order : nat) (ntv nq np nv : nat).
  (** qha_input.volumes: (volume.volume, volume.q_points[.].modes[.]) *)
  Variable volumes : list (F * list (list F)).
  Variable grid : list F.

  Definition ev_lvar (j k : nat) (v : lvar) : nat := match v with LJ => j | LK => k end.
  Definition ev_dim (d : dim) : nat :=
    match d with DimNtv => ntv | DimNq => nq | DimNp => np | DimNv => nv end.
  Fixpoint ev_bexp (j k : nat) (b : bexp) : bool :=
    match b with
    | BFalse => false
    | BEq v n => Nat.eqb (ev_lvar j k v) n
    | BLt v n => Nat.ltb (ev_lvar j k v) n
    | BAnd a b => ev_bexp j k a && ev_bexp j k b
    | BOr a b => ev_bexp j k a || ev_bexp j k b
    | BNot a => negb (ev_bexp j k a)
    end.
  Definition den_larg (j k : nat) (a : larg) : list F :=
    match a with
    | LVolumes => map fst volumes
    | LCol q m => map (fun vol => nth (ev_lvar j k m) (nth (ev_lvar j k q) (snd vol) []) zero) volumes
    | LGrid => grid
    end.

  (** the three output arrays: [st a q m] = the column last stored at out_a[:, q, m] (None: still zeros) *)
  Definition state := nat -> nat -> nat -> option (list F).
  Definition upd (st : state) (a q m : nat) (col : list F) : state :=
    fun a' q' m' => if Nat.eqb a' a && Nat.eqb q' q && Nat.eqb m' m then Some col else st a' q' m'.
  Definition comp (i : nat) (t : @triple F) : F :=
    match i with 0 => fst (fst t) | 1 => snd (fst t) | _ => snd t end.
  Fixpoint store (i : nat) (ts : list target) (j k : nat) (res : list (@triple F)) (st : state) : state :=
    match ts with
    | [] => st
    | t :: ts' =>
        store (S i) ts' j k res
              (upd st (t_array t) (ev_lvar j k (fst (t_slot t))) (ev_lvar j k (snd (t_slot t))) (map (comp i) res))
    end.
  Definition find_branch : option branch :=
    find (fun b => existsb (String.eqb mstr) (br_methods b)) (lf_branches lf).
  Definition call (b : branch) (j k : nat) : list (@triple F) :=
    let '(a1, a2, a3) := br_args b in
    H (br_helper b) (if br_passes_method b then Some mstr else None) order
      (den_larg j k a1) (den_larg j k a2) (den_larg j k a3).
  Definition body (st : state) (jk : nat * nat) : state :=
    let '(j, k) := jk in
    if ev_bexp j k (lf_skip lf) then st
    else match find_branch with
         | None => st
         | Some b => store 0 (br_targets b) j k (call b j k) st
         end.
  Definition run : state :=
    fold_left body (list_prod (seq 0 (ev_dim (lf_outer lf))) (seq 0 (ev_dim (lf_inner lf)))) (fun _ _ _ => None).
  Definition read (st : state) (a iv q m : nat) : F :=
    match st a q m with Some col => nth iv col zero | None => zero end.
  (** (omega, gamma, third)[iv, q, m] of the three returned arrays *)
  Definition read3 (st : state) (iv q m : nat) : @triple F :=
    (read st 0 iv q m, read st 1 iv q m, read st 2 iv q m).

  (* ---- generic theorem: a well-formed loop flow computes, in every slot, its own column ---- *)
  Definition own (b : branch) (q m : nat) : list (@triple F) :=
    H (br_helper b) (if br_passes_method b then Some mstr else None) order
      (map fst volumes) (map (fun vol => nth m (nth q (snd vol) []) zero) volumes) grid.

  Lemma lvar_eqb_eq a b : lvar_eqb a b = true -> a = b.
  Proof. destruct a, b; cbn; congruence. Qed.
  Lemma larg_eqb_eq a b : larg_eqb a b = true -> a = b.
  Proof.
    destruct a, b; cbn; try congruence. intros E. apply andb_prop in E. destruct E as [E1 E2].
    apply lvar_eqb_eq in E1, E2. subst. reflexivity.
  Qed.
  Lemma target_eqb_eq a b : target_eqb a b = true -> a = b.
  Proof.
    destruct a as [a [s1 s2]], b as [b [t1 t2]]. unfold target_eqb. cbn [t_array t_slot fst snd]. intros E.
    apply andb_prop in E. destruct E as [E E3]. apply andb_prop in E. destruct E as [E1 E2].
    apply Nat.eqb_eq in E1. apply lvar_eqb_eq in E2, E3. subst. reflexivity.
  Qed.
  Lemma list_eqb_eq {A} (e : A -> A -> bool) (He : forall a b, e a b = true -> a = b) :
    forall l1 l2, list_eqb e l1 l2 = true -> l1 = l2.
  Proof.
    induction l1 as [|x l1 IH]; destruct l2 as [|y l2]; cbn [list_eqb]; try congruence.
    intros E. apply andb_prop in E. destruct E as [E1 E2]. rewrite (He _ _ E1), (IH _ E2). reflexivity.
  Qed.

  Lemma wf_branch_spec b : wf_branch b = true ->
    br_targets b = std_targets /\ br_args b = std_args /\ br_order b = OrdCaller.
  Proof.
    unfold wf_branch. intros E. apply andb_prop in E. destruct E as [E E3].
    apply andb_prop in E. destruct E as [E1 E2].
    split; [|split].
    - apply (list_eqb_eq target_eqb target_eqb_eq). exact E1.
    - destruct (br_args b) as [[a1 a2] a3]. unfold std_args in *.
      apply andb_prop in E2. destruct E2 as [E2 E23]. apply andb_prop in E2. destruct E2 as [E21 E22].
      apply larg_eqb_eq in E21, E22, E23. subst. reflexivity.
    - destruct (br_order b); [reflexivity | discriminate].
  Qed.

  (** one iteration of a well-formed branch: stores component a of its own column at [a][:, j, k] *)
  Lemma body_wf st j k a q m :
    forallb wf_branch (lf_branches lf) = true ->
    body st (j, k) a q m =
    if Nat.eqb q j && Nat.eqb m k && Nat.ltb a 3 && negb (ev_bexp q m (lf_skip lf)) then
      match find_branch with
      | Some b => Some (map (comp a) (own b q m))
      | None => st a q m
      end
    else st a q m.
  Proof.
    intros W. unfold body.
    destruct (Nat.eqb_spec q j) as [->|Nq]; destruct (Nat.eqb_spec m k) as [->|Nm]; cbn [andb].
    - destruct (ev_bexp j k (lf_skip lf)); [rewrite andb_false_r; reflexivity|]. rewrite andb_true_r.
      unfold find_branch. destruct (find _ (lf_branches lf)) as [b|] eqn:Fb.
      + apply find_some in Fb. destruct Fb as [Hin _].
        rewrite forallb_forall in W. destruct (wf_branch_spec b (W b Hin)) as [Et [Ea _]].
        unfold call, own. rewrite Et, Ea. unfold std_targets, std_args. cbn [store t_array t_slot fst snd ev_lvar den_larg].
        unfold upd. destruct a as [|[|[|a]]]; cbn [Nat.eqb Nat.ltb Nat.leb andb]; rewrite ?Nat.eqb_refl; cbn [andb]; reflexivity.
      + destruct (a <? 3); reflexivity.
    - destruct (ev_bexp j k (lf_skip lf)); [reflexivity|].
      unfold find_branch. destruct (find _ (lf_branches lf)) as [b|] eqn:Fb; [|reflexivity].
      apply find_some in Fb. destruct Fb as [Hin _].
      rewrite forallb_forall in W. destruct (wf_branch_spec b (W b Hin)) as [Et [Ea _]].
      rewrite Et. unfold std_targets. cbn [store t_array t_slot fst snd ev_lvar]. unfold upd.
      apply Nat.eqb_neq in Nm. rewrite !Nm, !andb_false_r. reflexivity.
    - destruct (ev_bexp j k (lf_skip lf)); [reflexivity|].
      unfold find_branch. destruct (find _ (lf_branches lf)) as [b|] eqn:Fb; [|reflexivity].
      apply find_some in Fb. destruct Fb as [Hin _].
      rewrite forallb_forall in W. destruct (wf_branch_spec b (W b Hin)) as [Et [Ea _]].
      rewrite Et. unfold std_targets. cbn [store t_array t_slot fst snd ev_lvar]. unfold upd.
      apply Nat.eqb_neq in Nq. rewrite !Nq, !andb_false_r. reflexivity.
    - destruct (ev_bexp j k (lf_skip lf)); [reflexivity|].
      unfold find_branch. destruct (find _ (lf_branches lf)) as [b|] eqn:Fb; [|reflexivity].
      apply find_some in Fb. destruct Fb as [Hin _].
      rewrite forallb_forall in W. destruct (wf_branch_spec b (W b Hin)) as [Et [Ea _]].
      rewrite Et. unfold std_targets. cbn [store t_array t_slot fst snd ev_lvar]. unfold upd.
      apply Nat.eqb_neq in Nq. rewrite !Nq, !andb_false_r. reflexivity.
  Qed.

  Definition written (a q m : nat) : option (list F) :=
    if Nat.ltb a 3 && negb (ev_bexp q m (lf_skip lf)) then
      match find_branch with Some b => Some (map (comp a) (own b q m)) | None => None end
    else None.

  Lemma fold_body_wf (W : forallb wf_branch (lf_branches lf) = true) : forall L st a q m,
    fold_left body L st a q m =
    if existsb (fun jk => Nat.eqb q (fst jk) && Nat.eqb m (snd jk)) L then
      match written a q m with Some c => Some c | None => st a q m end
    else st a q m.
  Proof.
    induction L as [|[j k] L IH]; intros st a q m; cbn [fold_left existsb fst snd]; [reflexivity|].
    rewrite IH, (body_wf st j k a q m W). unfold written.
    destruct (existsb _ L); destruct (q =? j); destruct (m =? k); cbn [andb orb];
      destruct (a <? 3); destruct (ev_bexp q m (lf_skip lf)); cbn [andb negb orb];
      destruct find_branch; reflexivity.
  Qed.

  Lemma in_grid q m n1 n2 : q < n1 -> m < n2 ->
    existsb (fun jk => Nat.eqb q (fst jk) && Nat.eqb m (snd jk)) (list_prod (seq 0 n1) (seq 0 n2)) = true.
  Proof.
    intros Hq Hm. apply existsb_exists. exists (q, m). split.
    - apply in_prod; apply in_seq; lia.
    - cbn [fst snd]. rewrite !Nat.eqb_refl. reflexivity.
  Qed.

  Lemma nth_comp i iv (l : list (@triple F)) : nth iv (map (comp i) l) zero = comp i (nth iv l zero3).
  Proof.
    transitivity (nth iv (map (comp i) l) (comp i zero3)); [|apply map_nth].
    f_equal. destruct i as [|[|i]]; reflexivity.
  Qed.

  (** GENERIC LOOP THEOREM: for a well-formed loop flow, entry [iv, q, m] of the three returned arrays is 0
      when the skip test holds at (q, m) or no branch of the chain matches the method string, and otherwise the
      iv-th triple the dispatched helper returns on (all volumes, input column (q, m), the grid) *)
  Theorem wf_loop_sem : wf_loop lf = true ->
    forall iv q m, q < nq -> m < np ->
      read3 run iv q m =
      if ev_bexp q m (lf_skip lf) then zero3
      else match find_branch with
           | Some b => nth iv (own b q m) zero3
           | None => zero3
           end.
  Proof.
    unfold wf_loop. intros W iv q m Hq Hm.
    apply andb_prop in W. destruct W as [W Wb]. apply andb_prop in W. destruct W as [W _].
    apply andb_prop in W. destruct W as [Wo Wi].
    assert (Eo : lf_outer lf = DimNq) by (destruct (lf_outer lf); cbn in Wo; congruence).
    assert (Ei : lf_inner lf = DimNp) by (destruct (lf_inner lf); cbn in Wi; congruence).
    unfold read3, read, run. rewrite Eo, Ei. cbn [ev_dim].
    rewrite !(fold_body_wf Wb), (in_grid q m nq np Hq Hm). unfold written. cbn [Nat.ltb Nat.leb andb].
    destruct (ev_bexp q m (lf_skip lf)); cbn [negb]; [reflexivity|].
    destruct find_branch as [b|]; [|reflexivity].
    rewrite !nth_comp. unfold comp. destruct (nth iv (own b q m) zero3) as [[x y] z]. reflexivity.
  Qed.
End LoopSem.
