(** static data-flow tie, group KROGH: interpolate_mode_krogh of cij/core/mode_gamma.py as regenerated into
    Gen_modegamma.gen_krogh. *)
From Coq Require Import String.
From Coq Require Import Reals List Bool Arith Lia.
From Coquelicot Require Import Coquelicot.
From Cij Require Import Ops ROps PolyModel InterpModel Poly Interp InterpMore.
From CijGen Require Import MGFlowBase MGFlowR Gen_modegamma.
Import ListNotations.

(** (a) generated flow = the model's per-method function: the model takes KroghInterpolator to be the
    interpolating polynomial ([I_model] at CKrogh: der-th numpy.polyder of [interp_coeffs]) *)
Lemma tie_krogh_model {F : Type} {OF : Ops F} (lib : @library F) order (vols freqs grid : list F) :
  length vols = length freqs ->
  den_flow (I_model lib) C_model order vols freqs grid gen_krogh = mode_fn lib Krogh order vols freqs grid.
Proof.
  intros Hlen. unfold gen_krogh. flow_norm. rewrite zip3_map.
  unfold mode_fn, poly_mode, node_poly, subsample, poly_triple. rewrite ?Hlen. reflexivity.
Qed.

(** (b) for ANY library oracle: exp / minus / minus of krogh(x), krogh.derivative(x, der=1), krogh.derivative(x, der=2)
    of ONE KroghInterpolator built from flip(log(V[::i])), flip(log(w[::i])), same i for both *)
Lemma tie_krogh_one_object {F : Type} {OF : Ops F} (I : @cfamily F) (C : @pfamily F) order (vols freqs grid : list F) :
  den_flow I C order vols freqs grid gen_krogh =
  map (fun v => family_triple (I CKrogh None
                                 (rev (map fln (take_every_from (interval (length vols) order) 0 vols)))
                                 (rev (map fln (take_every_from (interval (length vols) order) 0 freqs))) false) (fln v)) grid.
Proof. unfold gen_krogh. flow_tie. Qed.

Local Open Scope R_scope.

Theorem tie_krogh_consistent (I : @cfamily R) (C : @pfamily R) order (vols freqs : list R) :
  let f := I CKrogh None (rev (map ln (take_every_from (interval (length vols) order) 0 vols)))
                         (rev (map ln (take_every_from (interval (length vols) order) 0 freqs))) false in
  (forall grid, den_flow I C order vols freqs grid gen_krogh = map (fun v => family_triple f (ln v)) grid) /\
  (forall x, is_derive (f 0%nat) x (f 1%nat x) -> is_derive (f 1%nat) x (f 2%nat x) ->
             consistent_at (family_triple f) x).
Proof.
  intros f. split; [intros grid; exact (tie_krogh_one_object I C order vols freqs grid) | apply family_contract_consistent].
Qed.

Theorem tie_group_krogh :
  (forall (lib : @library R) order vols freqs grid, length vols = length freqs ->
      den_flow (I_model lib) C_model order vols freqs grid gen_krogh = @mode_fn R ROps lib Krogh order vols freqs grid) /\
  (forall (I : @cfamily R) (C : @pfamily R) order vols freqs,
      let f := I CKrogh None (rev (map ln (take_every_from (interval (length vols) order) 0 vols)))
                             (rev (map ln (take_every_from (interval (length vols) order) 0 freqs))) false in
      (forall grid, den_flow I C order vols freqs grid gen_krogh = map (fun v => family_triple f (ln v)) grid) /\
      (forall x, is_derive (f 0%nat) x (f 1%nat x) -> is_derive (f 1%nat) x (f 2%nat x) ->
                 consistent_at (family_triple f) x)).
Proof. split; [intros; apply tie_krogh_model; assumption | exact tie_krogh_consistent]. Qed.
Print Assumptions tie_group_krogh.
