(** static data-flow tie, group SPLINE: interpolate_mode_spline of cij/core/mode_gamma.py as regenerated
    into Gen_modegamma.gen_spline. *)
From Coq Require Import String.
From Coq Require Import Reals List Bool Arith.
From Coquelicot Require Import Coquelicot.
From Cij Require Import Ops ROps PolyModel InterpModel Poly Interp InterpMore.
From CijGen Require Import MGFlowBase MGFlowR Gen_modegamma.
Import ListNotations.

(** (a) generated flow = the model's per-method function, for every library, in every number domain *)
Lemma tie_spline_model {F : Type} {OF : Ops F} (lib : @library F) order (vols freqs grid : list F) :
  den_flow (I_model lib) C_model order vols freqs grid gen_spline = mode_fn lib Spline order vols freqs grid.
Proof. unfold gen_spline. flow_tie. Qed.

(** (b) for ANY library oracle: the three returned arrays are exp / minus / minus of the nu = 0, 1, 2
    evaluations of ONE UnivariateSpline object, built from flip(log(all volumes)), flip(log(all frequencies))
    with k = order, all three evaluated at log(v_array) *)
Lemma tie_spline_one_object {F : Type} {OF : Ops F} (I : @cfamily F) (C : @pfamily F) order (vols freqs grid : list F) :
  den_flow I C order vols freqs grid gen_spline =
  map (fun v => family_triple (I CUnivariateSpline (Some order) (rev (map fln vols)) (rev (map fln freqs)) false) (fln v)) grid.
Proof. unfold gen_spline. flow_tie. Qed.

Local Open Scope R_scope.

(** (c) ... hence consistent wherever that object satisfies the library contract *)
Theorem tie_spline_consistent (I : @cfamily R) (C : @pfamily R) order (vols freqs : list R) :
  let f := I CUnivariateSpline (Some order) (rev (map ln vols)) (rev (map ln freqs)) false in
  (forall grid, den_flow I C order vols freqs grid gen_spline = map (fun v => family_triple f (ln v)) grid) /\
  (forall x, is_derive (f 0%nat) x (f 1%nat x) -> is_derive (f 1%nat) x (f 2%nat x) ->
             consistent_at (family_triple f) x).
Proof.
  intros f. split; [intros grid; exact (tie_spline_one_object I C order vols freqs grid) | apply family_contract_consistent].
Qed.

(** (d) the generated flow satisfies the existing theorem [triple_consistent_library] of Prop_C11 *)
Theorem tie_spline_library (lib : @library R) order (vols freqs : list R) :
  let o := lib_oracle lib Spline order vols freqs in
  (forall grid, den_flow (I_model lib) C_model order vols freqs grid gen_spline =
                map (fun v => oracle_tripleR o (ln v)) grid) /\
  (forall x, is_derive (o_val o) x (o_d1 o x) -> is_derive (o_d1 o) x (o_d2 o x) ->
             consistent_at (oracle_tripleR o) x).
Proof.
  intros o.
  destruct (triple_consistent_library_l lib Spline order vols freqs (or_introl eq_refl)) as [E Hc].
  split; [intros grid; rewrite tie_spline_model; apply E | exact Hc].
Qed.

Theorem tie_group_spline :
  (forall (lib : @library R) order vols freqs grid,
      den_flow (I_model lib) C_model order vols freqs grid gen_spline = @mode_fn R ROps lib Spline order vols freqs grid) /\
  (forall (I : @cfamily R) (C : @pfamily R) order vols freqs,
      let f := I CUnivariateSpline (Some order) (rev (map ln vols)) (rev (map ln freqs)) false in
      (forall grid, den_flow I C order vols freqs grid gen_spline = map (fun v => family_triple f (ln v)) grid) /\
      (forall x, is_derive (f 0%nat) x (f 1%nat x) -> is_derive (f 1%nat) x (f 2%nat x) ->
                 consistent_at (family_triple f) x)).
Proof. split; [intros; apply tie_spline_model | exact tie_spline_consistent]. Qed.
Print Assumptions tie_group_spline.
