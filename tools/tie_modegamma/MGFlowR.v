(** Real-number side of the static data-flow tie of cij/core/mode_gamma.py: the library contract
    ("the nu-th evaluation is the nu-th derivative of the 0-th") makes the triple of ONE callable family
    consistent; for ONE coefficient list no contract is needed (numpy.polyder is proved to be the derivative).
    Hand-written; copied into the per-run directory (logical path CijGen). *)
From Coq Require Import Reals List.
From Coquelicot Require Import Coquelicot.
From Cij Require Import Ops ROps PolyModel InterpModel Poly Interp InterpMore.
From CijGen Require Import MGFlowBase.
Import ListNotations.
Local Open Scope R_scope.

(** gamma = - d ln(omega) / d ln V  and  third = d gamma / d ln V  at x = ln V, for a triple-valued function of x *)
Definition consistent_at (T : R -> R * R * R) (x : R) : Prop :=
  is_derive (fun t => ln (fst (fst (T t)))) x (- snd (fst (T x))) /\
  is_derive (fun t => snd (fst (T t))) x (snd (T x)).

Definition oracle_of (f : nat -> R -> R) : @interp_oracle R :=
  {| o_val := f 0%nat; o_d1 := f 1%nat; o_d2 := f 2%nat |}.

Lemma family_triple_oracle (f : nat -> R -> R) x :
  @family_triple R ROps f x = oracle_tripleR (oracle_of f) x.
Proof. reflexivity. Qed.

(** the existing theorem [triple_consistent_library] (InterpMore.v) at the constant library *)
Lemma family_contract_consistent (f : nat -> R -> R) x :
  is_derive (f 0%nat) x (f 1%nat x) -> is_derive (f 1%nat) x (f 2%nat x) ->
  consistent_at (@family_triple R ROps f) x.
Proof.
  intros H1 H2.
  exact (proj2 (triple_consistent_library_l (fun _ _ _ _ => oracle_of f) Spline 0 [] [] (or_introl eq_refl)) x H1 H2).
Qed.

(** the existing theorem [triple_consistent_poly] (Poly.v) *)
Lemma poly_consistent (p : list R) x : consistent_at (poly_tripleR p) x.
Proof. exact (Poly.triple_consistent_poly_l p x). Qed.
