(** static data-flow tie, COMPOSITION: the regenerated loop of interpolate_modes calling the regenerated helper flows
    is the model's [interpolate_modes (mode_fn lib m order)], entry by entry, for all seven methods - compiled only
    when all six groups hold. *)
From Coq Require Import String.
From Coq Require Import Reals List Bool Arith Lia.
From Coquelicot Require Import Coquelicot.
From Cij Require Import Ops ROps PolyModel InterpModel Poly Interp InterpMore.
From CijGen Require Import MGFlowBase MGLoopSem MGFlowR Gen_modegamma.
From CijGen Require Import Tie_modegamma_spline Tie_modegamma_lagrange Tie_modegamma_krogh Tie_modegamma_ppoly
     Tie_modegamma_lsq_poly Tie_modegamma_loop.
Import ListNotations.

(** semantics of a helper call = denotation of that helper's regenerated flow (library oracles: the model's) *)
Definition gen_H {F : Type} {OF : Ops F} (lib : @library F)
  : helper -> option string -> nat -> list F -> list F -> list F -> list (@triple F) :=
  fun h kw order vols freqs grid =>
    let den := den_flow (I_model lib) C_model order vols freqs grid in
    match h with
    | HSpline => den gen_spline
    | HLagrange => den gen_lagrange
    | HKrogh => den gen_krogh
    | HLsqPoly => den gen_lsq_poly
    | HPpoly => match kw with
                | Some s => match slookup s gen_ppoly with Some fl => den fl | None => [] end
                | None => []
                end
    end.

Theorem modegamma_flow_is_model {F : Type} {OF : Ops F} (lib : @library F) (m : method)
        (order ntv nq np nv : nat) (volumes : list (F * list (list F))) (grid : list F) :
  forall iv q k, (iv < length grid)%nat -> (q < nq)%nat -> (k < np)%nat ->
    read3 (run (gen_H lib) gen_loop (method_string m) order ntv nq np nv volumes grid) iv q k =
    get3 (interpolate_modes (mode_fn lib m order) nq np (map fst volumes) (map snd volumes) grid) iv q k.
Proof.
  apply tie_loop_model. intros q k.
  assert (Hlen : length (map fst volumes) = length (mode_col (map snd volumes) q k))
    by (unfold mode_col; rewrite !map_length; reflexivity).
  destruct m; cbn [helper_of passes_method gen_H method_string].
  - apply tie_spline_model.
  - apply tie_lagrange_model; exact Hlen.
  - apply tie_krogh_model; exact Hlen.
  - destruct (tie_ppoly_model lib Pchip order _ _ grid (or_introl eq_refl) Hlen) as [h [E1 E2]].
    cbn [method_string] in E1. rewrite E1. exact E2.
  - destruct (tie_ppoly_model lib Akima order _ _ grid (or_intror (or_introl eq_refl)) Hlen) as [h [E1 E2]].
    cbn [method_string] in E1. rewrite E1. exact E2.
  - destruct (tie_ppoly_model lib Hermite order _ _ grid (or_intror (or_intror eq_refl)) Hlen) as [h [E1 E2]].
    cbn [method_string] in E1. rewrite E1. exact E2.
  - apply tie_lsq_poly_model.
Qed.

(* stated in every number domain (R and binary64 included); no real-number axiom is involved *)
Print Assumptions modegamma_flow_is_model.
