(** static data-flow tie, group LOOP: the double loop of interpolate_modes of cij/core/mode_gamma.py as regenerated
    into Gen_modegamma.gen_loop, against the model's [interpolate_modes] / [skipped] / [mode_col] / [mode_fn]. *)
From Coq Require Import String.
From Coq Require Import Reals List Bool Arith Lia.
From Coquelicot Require Import Coquelicot.
From Cij Require Import Ops ROps PolyModel InterpModel Poly Interp InterpMore.
From CijGen Require Import MGFlowBase MGLoopSem MGFlowR Gen_modegamma.
Import ListNotations.

(** the regenerated loop is well-formed: loops over range(nq) x range(np); the three returned arrays are
    zeros((ntv, nq, np)); EVERY branch stores component i of its helper's result into returned array i at the slot
    [:, j, k] of ITS OWN loop indices, and calls the helper on (all volumes, the column (j, k), v_array, order=order) *)
Lemma gen_loop_wf : wf_loop gen_loop = true.
Proof. vm_compute. reflexivity. Qed.

(** the skip test is the model's: q = 0 and m < 3 *)
Lemma gen_loop_skip : forall j k, ev_bexp j k (lf_skip gen_loop) = skipped j k.
Proof.
  intros j k. unfold skipped. cbn [gen_loop lf_skip ev_bexp ev_lvar].
  repeat match goal with
         | |- context [Nat.eqb ?a ?b] => destruct (Nat.eqb_spec a b)
         | |- context [Nat.ltb ?a ?b] => destruct (Nat.ltb_spec a b)
         end; cbn [andb orb negb]; try reflexivity; exfalso; lia.
Qed.

(** the dispatch table is the model's: which helper each of the seven method strings reaches, and whether the method
    string is handed on *)
Lemma gen_loop_dispatch : forall m : method,
  option_map (fun b => (br_helper b, br_passes_method b)) (find_branch gen_loop (method_string m)) =
  Some (helper_of m, passes_method m).
Proof. destruct m; vm_compute; reflexivity. Qed.

(** generated loop = model loop, entry by entry, for every method, every number domain and every semantics H of
    the helper calls that agrees with the model's per-method function (that is what the helper groups prove) *)
Theorem tie_loop_model {F : Type} {OF : Ops F}
        (H : helper -> option string -> nat -> list F -> list F -> list F -> list (@triple F))
        (lib : @library F) (m : method) (order ntv nq np nv : nat)
        (volumes : list (F * list (list F))) (grid : list F) :
  (forall q k, H (helper_of m) (if passes_method m then Some (method_string m) else None) order
                 (map fst volumes) (mode_col (map snd volumes) q k) grid =
               mode_fn lib m order (map fst volumes) (mode_col (map snd volumes) q k) grid) ->
  forall iv q k, (iv < length grid)%nat -> (q < nq)%nat -> (k < np)%nat ->
    read3 (run H gen_loop (method_string m) order ntv nq np nv volumes grid) iv q k =
    get3 (interpolate_modes (mode_fn lib m order) nq np (map fst volumes) (map snd volumes) grid) iv q k.
Proof.
  intros Hspec iv q k Hiv Hq Hk.
  rewrite (wf_loop_sem H gen_loop (method_string m) order ntv nq np nv volumes grid gen_loop_wf iv q k Hq Hk).
  rewrite gen_loop_skip.
  rewrite (interp_entry (mode_fn lib m order) nq np (map fst volumes) (map snd volumes) grid iv q k Hiv Hq Hk).
  destruct (skipped q k); [reflexivity|].
  pose proof (gen_loop_dispatch m) as D.
  destruct (find_branch gen_loop (method_string m)) as [b|]; [|discriminate D].
  cbn [option_map] in D. injection D as Eh Ep.
  unfold own. rewrite Eh, Ep.
  replace (map (fun vol : F * list (list F) => nth k (nth q (snd vol) []) zero) volumes)
    with (mode_col (map snd volumes) q k) by (unfold mode_col; rewrite map_map; reflexivity).
  rewrite Hspec. reflexivity.
Qed.

(** the slot map: output [iv, q, k] depends on the input column (q, k) only, and the Gamma acoustic slots stay 0
    (the model's [loop_indexing], transported to the generated loop) *)
Theorem tie_loop_slots {F : Type} {OF : Ops F}
        (H : helper -> option string -> nat -> list F -> list F -> list F -> list (@triple F))
        (mstr : string) (order ntv nq np nv : nat) (volumes : list (F * list (list F))) (grid : list F) :
  forall iv q k, (q < nq)%nat -> (k < np)%nat ->
    read3 (run H gen_loop mstr order ntv nq np nv volumes grid) iv q k =
    if skipped q k then zero3
    else match find_branch gen_loop mstr with
         | Some b => nth iv (own H mstr order volumes grid b q k) zero3
         | None => zero3
         end.
Proof.
  intros iv q k Hq Hk.
  rewrite (wf_loop_sem H gen_loop mstr order ntv nq np nv volumes grid gen_loop_wf iv q k Hq Hk).
  rewrite gen_loop_skip. reflexivity.
Qed.

Theorem tie_group_loop :
  wf_loop gen_loop = true /\
  (forall j k, ev_bexp j k (lf_skip gen_loop) = skipped j k) /\
  (forall m : method,
      option_map (fun b => (br_helper b, br_passes_method b)) (find_branch gen_loop (method_string m)) =
      Some (helper_of m, passes_method m)) /\
  (forall (H : helper -> option string -> nat -> list R -> list R -> list R -> list (@triple R))
          (lib : @library R) (m : method) (order ntv nq np nv : nat) volumes grid,
      (forall q k, H (helper_of m) (if passes_method m then Some (method_string m) else None) order
                     (map fst volumes) (mode_col (map snd volumes) q k) grid =
                   @mode_fn R ROps lib m order (map fst volumes) (mode_col (map snd volumes) q k) grid) ->
      forall iv q k, (iv < length grid)%nat -> (q < nq)%nat -> (k < np)%nat ->
        read3 (run H gen_loop (method_string m) order ntv nq np nv volumes grid) iv q k =
        get3 (@interpolate_modes R ROps (mode_fn lib m order) nq np (map fst volumes) (map snd volumes) grid) iv q k).
Proof.
  split; [exact gen_loop_wf | split; [exact gen_loop_skip | split; [exact gen_loop_dispatch |]]].
  intros. apply tie_loop_model; assumption.
Qed.
Print Assumptions tie_group_loop.
