(** Operational semantics of a [loop_flow] (MGFlowBase.v) and the GENERIC theorem [wf_loop_sem]: every well-formed
    loop flow computes, in each slot [iv, q, m] of the three returned arrays, the result of the dispatched helper on
    that slot's own input column.  Hand-written; copied into the per-run directory (logical path CijGen); needed by
    the loop group and the composition only, so it is compiled next to Gen_modegamma.v. *)
From Coq Require Import String.
From Coq Require Import ZArith List Bool Arith Lia.
From Cij Require Import Ops PolyModel InterpModel.
From CijGen Require Import MGFlowBase.
Import ListNotations.

Section LoopSem.
  Context {F : Type} {OF : Ops F}.

  (** semantics of a helper call: helper, method keyword (if passed), order, mode_volumes, mode_freqs, v_array *)
  Variable H : helper -> option string -> nat -> list F -> list F -> list F -> list (@triple F).
  Variable lf : loop_flow.
  Variables (mstr : string) (order : nat) (ntv nq np nv : nat).
  (** qha_input.volumes: (volume.volume, volume.q_points[.].modes[.]) *)
  Variable volumes : list (F * list (list F)).
  Variable grid : list F.

  Definition ev_lvar (j k : nat) (v : lvar) : nat := match v with LJ => j | LK => k end.
  Definition ev_dim (d : dim) : nat :=
    match d with DimNtv => ntv | DimNq => nq | DimNp => np | DimNv => nv end.
  Fixpoint ev_bexp (j k : nat) (b : bexp) : bool :=
    match b with
    | BFalse => false
    | BEq v n => Nat.eqb (ev_lvar j k v) n
    | BLt v n => Nat.ltb (ev_lvar j k v) n
    | BAnd a b => ev_bexp j k a && ev_bexp j k b
    | BOr a b => ev_bexp j k a || ev_bexp j k b
    | BNot a => negb (ev_bexp j k a)
    end.
  Definition den_larg (j k : nat) (a : larg) : list F :=
    match a with
    | LVolumes => map fst volumes
    | LCol q m => map (fun vol => nth (ev_lvar j k m) (nth (ev_lvar j k q) (snd vol) []) zero) volumes
    | LGrid => grid
    end.

  (** the three output arrays: [st a q m] = the column last stored at out_a[:, q, m] (None: still zeros) *)
  Definition state := nat -> nat -> nat -> option (list F).
  Definition upd (st : state) (a q m : nat) (col : list F) : state :=
    fun a' q' m' => if Nat.eqb a' a && Nat.eqb q' q && Nat.eqb m' m then Some col else st a' q' m'.
  Definition comp (i : nat) (t : @triple F) : F :=
    match i with 0 => fst (fst t) | 1 => snd (fst t) | _ => snd t end.
  Fixpoint store (i : nat) (ts : list target) (j k : nat) (res : list (@triple F)) (st : state) : state :=
    match ts with
    | [] => st
    | t :: ts' =>
        store (S i) ts' j k res
              (upd st (t_array t) (ev_lvar j k (fst (t_slot t))) (ev_lvar j k (snd (t_slot t))) (map (comp i) res))
    end.
  Definition find_branch : option branch :=
    find (fun b => existsb (String.eqb mstr) (br_methods b)) (lf_branches lf).
  Definition call (b : branch) (j k : nat) : list (@triple F) :=
    let '(a1, a2, a3) := br_args b in
    H (br_helper b) (if br_passes_method b then Some mstr else None) order
      (den_larg j k a1) (den_larg j k a2) (den_larg j k a3).
  Definition body (st : state) (jk : nat * nat) : state :=
    let '(j, k) := jk in
    if ev_bexp j k (lf_skip lf) then st
    else match find_branch with
         | None => st
         | Some b => store 0 (br_targets b) j k (call b j k) st
         end.
  Definition run : state :=
    fold_left body (list_prod (seq 0 (ev_dim (lf_outer lf))) (seq 0 (ev_dim (lf_inner lf)))) (fun _ _ _ => None).
  Definition read (st : state) (a iv q m : nat) : F :=
    match st a q m with Some col => nth iv col zero | None => zero end.
  (** (omega, gamma, third)[iv, q, m] of the three returned arrays *)
  Definition read3 (st : state) (iv q m : nat) : @triple F :=
    (read st 0 iv q m, read st 1 iv q m, read st 2 iv q m).

  (* ---- generic theorem: a well-formed loop flow computes, in every slot, its own column ---- *)
  Definition own (b : branch) (q m : nat) : list (@triple F) :=
    H (br_helper b) (if br_passes_method b then Some mstr else None) order
      (map fst volumes) (map (fun vol => nth m (nth q (snd vol) []) zero) volumes) grid.

  Lemma lvar_eqb_eq a b : lvar_eqb a b = true -> a = b.
  Proof. destruct a, b; cbn; congruence. Qed.
  Lemma larg_eqb_eq a b : larg_eqb a b = true -> a = b.
  Proof.
    destruct a, b; cbn; try congruence. intros E. apply andb_prop in E. destruct E as [E1 E2].
    apply lvar_eqb_eq in E1, E2. subst. reflexivity.
  Qed.
  Lemma target_eqb_eq a b : target_eqb a b = true -> a = b.
  Proof.
    destruct a as [a [s1 s2]], b as [b [t1 t2]]. unfold target_eqb. cbn [t_array t_slot fst snd]. intros E.
    apply andb_prop in E. destruct E as [E E3]. apply andb_prop in E. destruct E as [E1 E2].
    apply Nat.eqb_eq in E1. apply lvar_eqb_eq in E2, E3. subst. reflexivity.
  Qed.
  Lemma list_eqb_eq {A} (e : A -> A -> bool) (He : forall a b, e a b = true -> a = b) :
    forall l1 l2, list_eqb e l1 l2 = true -> l1 = l2.
  Proof.
    induction l1 as [|x l1 IH]; destruct l2 as [|y l2]; cbn [list_eqb]; try congruence.
    intros E. apply andb_prop in E. destruct E as [E1 E2]. rewrite (He _ _ E1), (IH _ E2). reflexivity.
  Qed.

  Lemma wf_branch_spec b : wf_branch b = true ->
    br_targets b = std_targets /\ br_args b = std_args /\ br_order b = OrdCaller.
  Proof.
    unfold wf_branch. intros E. apply andb_prop in E. destruct E as [E E3].
    apply andb_prop in E. destruct E as [E1 E2].
    split; [|split].
    - apply (list_eqb_eq target_eqb target_eqb_eq). exact E1.
    - destruct (br_args b) as [[a1 a2] a3]. unfold std_args in *.
      apply andb_prop in E2. destruct E2 as [E2 E23]. apply andb_prop in E2. destruct E2 as [E21 E22].
      apply larg_eqb_eq in E21, E22, E23. subst. reflexivity.
    - destruct (br_order b); [reflexivity | discriminate].
  Qed.

  (** one iteration of a well-formed branch: stores component a of its own column at [a][:, j, k] *)
  Lemma body_wf st j k a q m :
    forallb wf_branch (lf_branches lf) = true ->
    body st (j, k) a q m =
    if Nat.eqb q j && Nat.eqb m k && Nat.ltb a 3 && negb (ev_bexp q m (lf_skip lf)) then
      match find_branch with
      | Some b => Some (map (comp a) (own b q m))
      | None => st a q m
      end
    else st a q m.
  Proof.
    intros W. unfold body.
    destruct (Nat.eqb_spec q j) as [->|Nq]; destruct (Nat.eqb_spec m k) as [->|Nm]; cbn [andb].
    - destruct (ev_bexp j k (lf_skip lf)); [rewrite andb_false_r; reflexivity|]. rewrite andb_true_r.
      unfold find_branch. destruct (find _ (lf_branches lf)) as [b|] eqn:Fb.
      + apply find_some in Fb. destruct Fb as [Hin _].
        rewrite forallb_forall in W. destruct (wf_branch_spec b (W b Hin)) as [Et [Ea _]].
        unfold call, own. rewrite Et, Ea. unfold std_targets, std_args. cbn [store t_array t_slot fst snd ev_lvar den_larg].
        unfold upd. destruct a as [|[|[|a]]]; cbn [Nat.eqb Nat.ltb Nat.leb andb]; rewrite ?Nat.eqb_refl; cbn [andb]; reflexivity.
      + destruct (a <? 3); reflexivity.
    - destruct (ev_bexp j k (lf_skip lf)); [reflexivity|].
      unfold find_branch. destruct (find _ (lf_branches lf)) as [b|] eqn:Fb; [|reflexivity].
      apply find_some in Fb. destruct Fb as [Hin _].
      rewrite forallb_forall in W. destruct (wf_branch_spec b (W b Hin)) as [Et [Ea _]].
      rewrite Et. unfold std_targets. cbn [store t_array t_slot fst snd ev_lvar]. unfold upd.
      apply Nat.eqb_neq in Nm. rewrite !Nm, !andb_false_r. reflexivity.
    - destruct (ev_bexp j k (lf_skip lf)); [reflexivity|].
      unfold find_branch. destruct (find _ (lf_branches lf)) as [b|] eqn:Fb; [|reflexivity].
      apply find_some in Fb. destruct Fb as [Hin _].
      rewrite forallb_forall in W. destruct (wf_branch_spec b (W b Hin)) as [Et [Ea _]].
      rewrite Et. unfold std_targets. cbn [store t_array t_slot fst snd ev_lvar]. unfold upd.
      apply Nat.eqb_neq in Nq. rewrite !Nq, !andb_false_r. reflexivity.
    - destruct (ev_bexp j k (lf_skip lf)); [reflexivity|].
      unfold find_branch. destruct (find _ (lf_branches lf)) as [b|] eqn:Fb; [|reflexivity].
      apply find_some in Fb. destruct Fb as [Hin _].
      rewrite forallb_forall in W. destruct (wf_branch_spec b (W b Hin)) as [Et [Ea _]].
      rewrite Et. unfold std_targets. cbn [store t_array t_slot fst snd ev_lvar]. unfold upd.
      apply Nat.eqb_neq in Nq. rewrite !Nq, !andb_false_r. reflexivity.
  Qed.

  Definition written (a q m : nat) : option (list F) :=
    if Nat.ltb a 3 && negb (ev_bexp q m (lf_skip lf)) then
      match find_branch with Some b => Some (map (comp a) (own b q m)) | None => None end
    else None.

  Lemma fold_body_wf (W : forallb wf_branch (lf_branches lf) = true) : forall L st a q m,
    fold_left body L st a q m =
    if existsb (fun jk => Nat.eqb q (fst jk) && Nat.eqb m (snd jk)) L then
      match written a q m with Some c => Some c | None => st a q m end
    else st a q m.
  Proof.
    induction L as [|[j k] L IH]; intros st a q m; cbn [fold_left existsb fst snd]; [reflexivity|].
    rewrite IH, (body_wf st j k a q m W). unfold written.
    destruct (existsb _ L); destruct (q =? j); destruct (m =? k); cbn [andb orb];
      destruct (a <? 3); destruct (ev_bexp q m (lf_skip lf)); cbn [andb negb orb];
      destruct find_branch; reflexivity.
  Qed.

  Lemma in_grid q m n1 n2 : q < n1 -> m < n2 ->
    existsb (fun jk => Nat.eqb q (fst jk) && Nat.eqb m (snd jk)) (list_prod (seq 0 n1) (seq 0 n2)) = true.
  Proof.
    intros Hq Hm. apply existsb_exists. exists (q, m). split.
    - apply in_prod; apply in_seq; lia.
    - cbn [fst snd]. rewrite !Nat.eqb_refl. reflexivity.
  Qed.

  Lemma nth_comp i iv (l : list (@triple F)) : nth iv (map (comp i) l) zero = comp i (nth iv l zero3).
  Proof.
    transitivity (nth iv (map (comp i) l) (comp i zero3)); [|apply map_nth].
    f_equal. destruct i as [|[|i]]; reflexivity.
  Qed.

  (** GENERIC LOOP THEOREM: for a well-formed loop flow, entry [iv, q, m] of the three returned arrays is 0
      when the skip test holds at (q, m) or no branch of the chain matches the method string, and otherwise the
      iv-th triple the dispatched helper returns on (all volumes, input column (q, m), the grid) *)
  Theorem wf_loop_sem : wf_loop lf = true ->
    forall iv q m, q < nq -> m < np ->
      read3 run iv q m =
      if ev_bexp q m (lf_skip lf) then zero3
      else match find_branch with
           | Some b => nth iv (own b q m) zero3
           | None => zero3
           end.
  Proof.
    unfold wf_loop. intros W iv q m Hq Hm.
    apply andb_prop in W. destruct W as [W Wb]. apply andb_prop in W. destruct W as [W _].
    apply andb_prop in W. destruct W as [Wo Wi].
    assert (Eo : lf_outer lf = DimNq) by (destruct (lf_outer lf); cbn in Wo; congruence).
    assert (Ei : lf_inner lf = DimNp) by (destruct (lf_inner lf); cbn in Wi; congruence).
    unfold read3, read, run. rewrite Eo, Ei. cbn [ev_dim].
    rewrite !(fold_body_wf Wb), (in_grid q m nq np Hq Hm). unfold written. cbn [Nat.ltb Nat.leb andb].
    destruct (ev_bexp q m (lf_skip lf)); cbn [negb]; [reflexivity|].
    destruct find_branch as [b|]; [|reflexivity].
    rewrite !nth_comp. unfold comp. destruct (nth iv (own b q m) zero3) as [[x y] z]. reflexivity.
  Qed.
End LoopSem.
