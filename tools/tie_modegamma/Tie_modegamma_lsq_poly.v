(** static data-flow tie, group LSQ_POLY: interpolate_mode_lsq_poly + lstsq_polyfit (inlined by the translator) of
    cij/core/mode_gamma.py as regenerated into Gen_modegamma.gen_lsq_poly. *)
From Coq Require Import String.
From Coq Require Import Reals List Bool Arith Lia.
From Coquelicot Require Import Coquelicot.
From Cij Require Import Ops ROps PolyModel InterpModel Poly Interp InterpMore.
From CijGen Require Import MGFlowBase MGFlowR Gen_modegamma.
Import ListNotations.

(** (a) generated flow = the model's per-method function: [C_model] at PLstsq with vander(xs, order + 1) is
    [lsq_coeffs order] *)
Lemma tie_lsq_poly_model {F : Type} {OF : Ops F} (lib : @library F) order (vols freqs grid : list F) :
  den_flow (I_model lib) C_model order vols freqs grid gen_lsq_poly = mode_fn lib LsqPoly order vols freqs grid.
Proof. unfold gen_lsq_poly. flow_tie. Qed.

(** (b) for ANY coefficient oracle: exp(p), -p', -p'' of ONE coefficient list
    p = lstsq(vander(log(V), order + 1), log(w))[0]  (no flip, no sub-sampling), all evaluated at log(v_array) *)
Lemma tie_lsq_poly_one_polynomial {F : Type} {OF : Ops F} (I : @cfamily F) (C : @pfamily F) order (vols freqs grid : list F) :
  den_flow I C order vols freqs grid gen_lsq_poly =
  map (fun v => poly_triple (C PLstsq (Some (S order)) (map fln vols) (map fln freqs)) (fln v)) grid.
Proof. unfold gen_lsq_poly. flow_tie. Qed.

Local Open Scope R_scope.

Theorem tie_lsq_poly_consistent (I : @cfamily R) (C : @pfamily R) order (vols freqs : list R) :
  let p := C PLstsq (Some (S order)) (map ln vols) (map ln freqs) in
  (forall grid, den_flow I C order vols freqs grid gen_lsq_poly = map (fun v => poly_tripleR p (ln v)) grid) /\
  (forall x, consistent_at (poly_tripleR p) x).
Proof.
  intros p. split; [intros grid; exact (tie_lsq_poly_one_polynomial I C order vols freqs grid) | apply poly_consistent].
Qed.

Theorem tie_group_lsq_poly :
  (forall (lib : @library R) order vols freqs grid,
      den_flow (I_model lib) C_model order vols freqs grid gen_lsq_poly = @mode_fn R ROps lib LsqPoly order vols freqs grid) /\
  (forall (I : @cfamily R) (C : @pfamily R) order vols freqs,
      let p := C PLstsq (Some (S order)) (map ln vols) (map ln freqs) in
      (forall grid, den_flow I C order vols freqs grid gen_lsq_poly = map (fun v => poly_tripleR p (ln v)) grid) /\
      (forall x, consistent_at (poly_tripleR p) x)).
Proof. split; [intros; apply tie_lsq_poly_model | exact tie_lsq_poly_consistent]. Qed.
Print Assumptions tie_group_lsq_poly.
