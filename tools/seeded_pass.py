#!/usr/bin/env python3
"""Confirmation pass over /verif/seeded: every kept change is applied to /repo ITSELF (git apply), the property's
registered quick check is run, and the change is undone straight afterwards (git apply -R; git checkout -- .).
Writes seeded/PASS.json.  /repo must be clean before and is verified clean after every step.
The evidence files written during this pass describe changed code: run tools/run_all.sh afterwards."""
import json
import re
import subprocess
import sys
import time
from pathlib import Path

V = Path("/verif")
REPO = "/repo"


def sh(*a, **k):
    return subprocess.run(a, capture_output=True, text=True, **k)


def clean():
    return sh("git", "-C", REPO, "status", "--porcelain").stdout.strip() == ""


def main():
    only = set(sys.argv[1:])
    if not clean():
        sys.exit("refusing: /repo has uncommitted changes")
    out = {}
    if only and (V / "seeded" / "PASS.json").exists():       # partial re-run: keep the other entries
        out = json.loads((V / "seeded" / "PASS.json").read_text())
    for d in sorted((V / "seeded").iterdir()):
        if not (d / "patch.diff").exists() or (only and d.name not in only):
            continue
        meta = json.loads((d / "meta.json").read_text())
        checks = sorted(set([meta["property"]] + list(meta.get("detected_by", []))))
        r = sh("git", "-C", REPO, "apply", str(d / "patch.diff"))
        if r.returncode:
            out[d.name] = dict(applied=False, err=r.stderr[-300:])
            continue
        res = {}
        try:
            for c in checks:
                t0 = time.time()
                p = sh(str(V / "check"), c, "--tier", "quick", timeout=3000)
                lines = [ln for ln in p.stdout.splitlines() if ln.startswith("VIOLATION")]
                res[c] = dict(exit=p.returncode, violations=len(lines),
                              no_failing_input=sum("no-failing-input-found" in ln for ln in lines),
                              wall=round(time.time() - t0, 1))
        finally:
            sh("git", "-C", REPO, "apply", "-R", str(d / "patch.diff"))
            sh("git", "-C", REPO, "checkout", "--", ".")
            for ln in sh("git", "-C", REPO, "status", "--porcelain").stdout.splitlines():
                m = re.match(r"\?\? (.*)", ln)
                if m:
                    sh("rm", "-rf", REPO + "/" + m.group(1))
        out[d.name] = dict(applied=True, checks=res, detected=[c for c, v in res.items() if v["exit"] == 1],
                           repo_clean_after=clean())
        print(d.name, out[d.name]["detected"], {c: v["wall"] for c, v in res.items()}, flush=True)
        (V / "seeded" / "PASS.json").write_text(json.dumps(out, indent=1))
    print("missed:", [k for k, v in out.items() if v.get("applied") and meta and not (set(v["detected"]) & {k[:3]})])


if __name__ == "__main__":
    main()
