"""Fail-closed translator for the eigenvector tools of cij (C20).

    cij/misc/evec_sort.py       evec_sort        (dimension check, overlap matrix, greedy loop, returned list)
    cij/misc/evec_disp2eig.py   evec_disp2eig    (mass weighting, normalisation; translated twice: real / complex dtype)
    cij/misc/evec_load.py       the two regex constants and the column slices of _read_vecs
  ->  Gallina definitions over the class `Ops F` (Gen_evec.v), written against tools/tie_evec/EvecTieBase.v (complex
      numbers as pairs, numpy arrays as lists of rows) and proved equal to theories/EvecSortModel.v, Disp2EigModel.v,
      MatdynModel.v by tools/tie_evec/Tie_evec_*.v.

The statement level (assignments, augmented assignments, stores into a local array, if / raise, for over range(n)
with computed loop-carried state, return) is translate_core.FunTr.  EXPRESSION GRAMMAR (anything else raises
TranslateError naming file, line and construct); M = 2-D array, v = 1-D array, r / c = a [nax, :] / [:, nax] view:

  evec_sort      len(x)                                   x a Python list (items, list of vectors) or a set
                 [None] * n                               -> repeat None n
                 [e, .., *[len(i) for i in (A + B)]]      -> a list of naturals (A + B: list concatenation)
                 set(l) ; {e, .., *(len(i) for i in X)}   -> py_set (duplicate-free); a starred generator is exhausted on the
                                                             spot, in order - a generator expression anywhere else is refused
                 len(s) != 1 ; n not in s                 -> set_len, set_mem
                 numpy.array(A)                           -> np_array A (rows become the rows of a complex matrix)
                 numpy.conj(M) ; M1 @ M2.T                -> cm_conj ; cm_matmul_nt M1 M2 (entry i j = sum_k M1[i][k] * M2[j][k];
                                                             `@` is accepted ONLY with a `.T` right operand)
                 numpy.abs / numpy.absolute (M)           -> cm_abs (moduli)
                 numpy.argmax(R)                          -> np_argmax2 (first maximum of the flattened array)
                 M.shape ; numpy.unravel_index(k, M.shape)-> (k / ncols, k mod ncols)
                 idx[0], idx[1] or `row, col = numpy.unravel_index(..)` ; M[i, :] = 0 ; M[:, j] = 0 ;
                 L[i] = items[j]  (IndexError = None) ; range(n)
                 `if filter:` / `threshold and ...` are decided statically: the translation is specialised to the defaults
                 filter=None, threshold=None (the model does not cover them either)
  evec_disp2eig  len(mass) ; numpy.repeat(mass, K) ; numpy.copy(a) ; a.shape[1] == e ; K * n ; n * K
                 v[nax, :] / v[None, :] (row view) ; v[:, nax] (column view) ; numpy.sqrt on v / r / c
                 M * r, M *= r (each row times the vector) ; M / c, M /= c (row i divided by c[i]) ; M / r (wrong axis, kept
                 distinguishable) ; numpy.conj(M) ; M1 @ M2.T ; numpy.diag(M) ; v.real
                 complex dtype: the same operations on pairs (c_mul, c_conj, c_sqrt = principal root, c_div)
  evec_load      Q_COORDS_REGEX / MODE_INDEX_REGEX = re.compile(r"...") : the pattern text is parsed (Python's own
                 re._parser) and every node is translated: literal -> Ch, \\s \\d -> class, * + ? (greedy, on one literal or
                 class) -> Star / Plus / Opt, ( ) -> Open / Close (numbered groups, not nested)
                 _read_vecs: `line = next(fp).strip()` and a yield of tuples `float(line[a:b]) + float(line[c:d]) * 1j`, or of calls
                 helper(line, INT) of a straight-line module-level helper returning such an expression (inlined; locals may hold
                 line[a:b], float(line[a:b]) or integers; slice bounds are sums / differences of integer literals and of
                 parameters bound to literals, folded exactly); `tuple(<elt> for k in (<int literals>))` is unrolled
  all functions  straight-line module-level helpers are inlined at their call sites (translate_core.inline_call)

ONLY PATTERN-CHECKED (exact text; no semantics in Coq) - glue:
  * module-level `import numpy`, `from numpy import newaxis as nax`, `import re` ...; docstrings; type annotations are ignored
  * evec_sort: parameters (target_arr, target_evecs, base_evecs, filter=None, threshold=None); the text of the RuntimeError
  * evec_load: the generator / loop structure of _read_modes, _read_q_points, evec_load is NOT translated (the C20 shards
    exercise it); only the regex constants and the vector-line reader are
"""
import ast
import re

from translate_core import (TranslateError, FunTr, Val, src_of, parse, body_no_doc, coq_str, find_function, plain_params,
                            forbid_dynamic, module_imports, assigned_names, builtins_unshadowed)

SORT = "cij/misc/evec_sort.py"
DISP = "cij/misc/evec_disp2eig.py"
LOAD = "cij/misc/evec_load.py"

NUMERIC = {"rmat", "cmat", "rvec", "cvec", "rrow", "crow", "rcol", "ccol"}


def is_full_slice(n):
    return isinstance(n, ast.Slice) and n.lower is None and n.upper is None and n.step is None


class EvecTr(FunTr):
    mutable_types = frozenset(["cmat", "rmat", "solist"])       # the types the grammar has in-place operations for

    def constant(self, e):
        if e.value is None:
            return Val("None", "none")
        if type(e.value) is int and e.value >= 0:
            return Val("%d" % e.value, "intlit", e.value)
        self.bail(e, "literal %r" % (e.value,))

    def nat(self, v, e, what):
        if v.ty not in ("nat", "intlit"):
            self.bail(e, "%s of type %s (expected a natural number)" % (what, v.ty))
        return v.term

    def vals(self, args, env, B):
        return [self.expr(a, env, B) for a in args]

    def no_kwargs(self, kwargs, e, what):
        if kwargs:
            self.bail(e, "%s with keyword arguments (%s)" % (what, ", ".join(kwargs)))

    def global_attr(self, q, e, env, B):
        if q == "numpy.newaxis":
            return Val("", "newaxis")
        return None

    def name(self, e, env, B):
        return None

    # ---- builtins / numpy ----------------------------------------------------------------------------------
    def call(self, q, args, kwargs, e, env, B):
        self.no_kwargs(kwargs, e, q)
        if q == "len":
            a = self.vals(args, env, B)
            if len(a) == 1 and a[0].ty in ("listA", "cml", "rvec", "cvec", "solist"):
                return Val("(List.length %s)" % a[0].term, "nat")
            if len(a) == 1 and a[0].ty == "setnat":
                return Val("(set_len %s)" % a[0].term, "nat")
            self.bail(e, "len(%s)" % ", ".join(x.ty for x in a))
        if q == "set":
            a = self.vals(args, env, B)
            if len(a) == 1 and a[0].ty == "listnat":
                return Val("(py_set %s)" % a[0].term, "setnat")
            self.bail(e, "set(%s)" % ", ".join(x.ty for x in a))
        if q == "range":
            a = self.vals(args, env, B)
            if len(a) == 1 and a[0].ty in ("nat", "intlit"):
                return Val("(seq 0 %s)" % a[0].term, "listnat")
            self.bail(e, "range(%s) (only range(n))" % ", ".join(x.ty for x in a))
        if q == "numpy.array":
            a = self.vals(args, env, B)
            if len(a) == 1 and a[0].ty == "cml":
                return Val("(np_array %s)" % a[0].term, "cmat")
            self.bail(e, "numpy.array(%s)" % ", ".join(x.ty for x in a))
        if q in ("numpy.conj", "numpy.conjugate"):
            a = self.vals(args, env, B)
            if len(a) == 1 and a[0].ty in ("cmat", "rmat"):
                return Val("(%s_conj %s)" % (a[0].ty[0] + "m", a[0].term), a[0].ty)
            self.bail(e, "%s(%s)" % (q, ", ".join(x.ty for x in a)))
        if q in ("numpy.abs", "numpy.absolute"):
            a = self.vals(args, env, B)
            if len(a) == 1 and a[0].ty == "cmat":
                return Val("(cm_abs %s)" % a[0].term, "rmat")
            self.bail(e, "%s(%s)" % (q, ", ".join(x.ty for x in a)))
        if q == "numpy.argmax":
            a = self.vals(args, env, B)
            if len(a) == 1 and a[0].ty == "rmat":
                return Val("(np_argmax2 %s)" % a[0].term, "nat")
            self.bail(e, "numpy.argmax(%s)" % ", ".join(x.ty for x in a))
        if q == "numpy.unravel_index":
            a = self.vals(args, env, B)
            if len(a) == 2 and a[0].ty == "nat" and a[1].ty == "shape2":
                return Val("(np_unravel %s %s)" % (a[0].term, a[1].term), "idx2")
            self.bail(e, "numpy.unravel_index(%s)" % ", ".join(x.ty for x in a))
        if q == "numpy.repeat":
            a = self.vals(args, env, B)
            if len(a) == 2 and a[0].ty == "rvec" and a[1].ty == "intlit":
                return Val("(np_repeat %s %s)" % (a[0].term, a[1].term), "rvec")
            self.bail(e, "numpy.repeat(%s)" % ", ".join(x.ty for x in a))
        if q == "numpy.copy":
            a = self.vals(args, env, B)
            if len(a) == 1 and a[0].ty in ("rmat", "cmat"):
                return Val(a[0].term, a[0].ty)          # a fresh array with the same entries
            self.bail(e, "numpy.copy(%s)" % ", ".join(x.ty for x in a))
        if q == "numpy.sqrt":
            a = self.vals(args, env, B)
            if len(a) == 1 and a[0].ty in ("rvec", "rrow", "rcol"):
                return Val("(map fsqrt %s)" % a[0].term, a[0].ty)
            if len(a) == 1 and a[0].ty in ("cvec", "crow", "ccol"):
                return Val("(map c_sqrt %s)" % a[0].term, a[0].ty)
            self.bail(e, "numpy.sqrt(%s)" % ", ".join(x.ty for x in a))
        if q == "numpy.diag":
            a = self.vals(args, env, B)
            if len(a) == 1 and a[0].ty == "rmat":
                return Val("(np_diag zero %s)" % a[0].term, "rvec")
            if len(a) == 1 and a[0].ty == "cmat":
                return Val("(np_diag c_zero %s)" % a[0].term, "cvec")
            self.bail(e, "numpy.diag(%s)" % ", ".join(x.ty for x in a))
        return self.unknown_call(q, args, kwargs, e, env, B)

    def method(self, v, attr, args, kwargs, e, env, B):
        if attr == "copy" and not args and not kwargs and v.ty in ("rmat", "cmat"):
            return Val(v.term, v.ty)
        if attr in ("conj", "conjugate") and not args and not kwargs and v.ty in ("rmat", "cmat"):
            return Val("(%s_conj %s)" % (v.ty[0] + "m", v.term), v.ty)
        self.bail(e, "method `.%s(...)` of a value of type %s" % (attr, v.ty))

    def attribute(self, v, attr, e, env, B):
        if attr == "shape" and v.ty in ("cmat", "rmat"):
            return Val("(mat_shape %s)" % v.term, "shape2")
        if attr == "real" and v.ty == "cvec":
            return Val("(map fst %s)" % v.term, "rvec")
        if attr == "real" and v.ty == "rvec":
            return v
        if attr == "T":
            self.bail(e, "`.T` outside `M1 @ M2.T`")
        self.bail(e, "attribute `.%s` of a value of type %s" % (attr, v.ty))

    def matmul(self, l, right, e, env, B):
        if not (isinstance(right, ast.Attribute) and right.attr == "T"):
            self.bail(e, "`@` whose right operand is not of the form M.T: `%s`" % src_of(e)[:80])
        r = self.expr(right.value, env, B)
        if l.ty == "cmat" and r.ty == "cmat":
            return Val("(cm_matmul_nt %s %s)" % (l.term, r.term), "cmat")
        if l.ty == "rmat" and r.ty == "rmat":
            return Val("(rm_matmul_nt %s %s)" % (l.term, r.term), "rmat")
        self.bail(e, "@ on (%s, %s.T)" % (l.ty, r.ty))

    def subscript(self, v, sl, e, env, B):
        if v.ty == "idx2" or v.ty == "shape2":
            k = self.expr(sl, env, B)
            if k.ty == "intlit" and k.extra in (0, 1):
                if v.ty == "shape2":
                    return Val("(%s %s)" % ("fst" if k.extra == 0 else "snd", v.term), "nat")
                return Val("(%s %s)" % ("fst" if k.extra == 0 else "snd", v.term), "nat")
            self.bail(e, "index `%s` of a pair (only the literals 0 and 1)" % src_of(sl))
        if v.ty == "listA":
            k = self.expr(sl, env, B)
            return Val(self.bind(B, "item", "(nth_error %s %s)" % (v.term, self.nat(k, e, "list index"))), "A")
        if v.ty in ("rvec", "cvec") and isinstance(sl, ast.Tuple) and len(sl.elts) == 2:
            a, b = sl.elts
            na = (not isinstance(a, ast.Slice)) and self.expr(a, env, B).ty in ("newaxis", "none")
            nb = (not isinstance(b, ast.Slice)) and self.expr(b, env, B).ty in ("newaxis", "none")
            if na and is_full_slice(b):
                return Val(v.term, v.ty[0] + "row")
            if is_full_slice(a) and nb:
                return Val(v.term, v.ty[0] + "col")
        self.bail(e, "subscript `%s` on a value of type %s" % (src_of(e)[:80], v.ty))

    def store(self, v, sl, value, s, env, B):
        if v.ty == "cmat" and isinstance(sl, ast.Tuple) and len(sl.elts) == 2:
            if not (value.ty == "intlit" and value.extra == 0):
                self.bail(s, "store of `%s` into a row / column (only the literal 0)" % src_of(s.value))
            a, b = sl.elts
            if is_full_slice(b) and not isinstance(a, ast.Slice):
                i = self.expr(a, env, B)
                return Val("(mat_set_row %s %s c_zero)" % (v.term, self.nat(i, s, "row index")), "cmat")
            if is_full_slice(a) and not isinstance(b, ast.Slice):
                j = self.expr(b, env, B)
                return Val("(mat_set_col %s %s c_zero)" % (v.term, self.nat(j, s, "column index")), "cmat")
        if v.ty == "solist" and value.ty == "A" and not isinstance(sl, (ast.Slice, ast.Tuple)):
            i = self.expr(sl, env, B)
            return Val(self.bind(B, "stored", "(py_list_set %s %s (Some %s))" % (v.term, self.nat(i, s, "list index"), value.term)), "solist")
        self.bail(s, "store `%s` (value %s into %s)" % (src_of(s)[:80], value.ty, v.ty))

    def binop(self, op, l, r, e):
        if isinstance(op, ast.Mult):
            if l.ty == "nonelist" and r.ty in ("nat", "intlit"):
                return Val("(repeat None %s)" % r.term, "solist")
            if {l.ty, r.ty} <= {"nat", "intlit"}:
                return Val("(%s * %s)" % (l.term, r.term), "nat")
        if isinstance(op, ast.Add) and l.ty == "cml" and r.ty == "cml":
            return Val("(%s ++ %s)" % (l.term, r.term), "cml")
        if isinstance(op, (ast.Mult, ast.Div)):
            return self.arith(op, l, r, e)
        self.bail(e, "operator %s on (%s, %s) in `%s`" % (type(op).__name__, l.ty, r.ty, src_of(e)[:60]))

    def augop(self, op, l, r, s):
        if isinstance(op, (ast.Mult, ast.Div)):
            return self.arith(op, l, r, s)
        self.bail(s, "augmented operator %s on (%s, %s)" % (type(op).__name__, l.ty, r.ty))

    def arith(self, op, l, r, e):
        mul = isinstance(op, ast.Mult)
        if l.ty == "rmat":
            if mul and r.ty in ("rrow", "rvec"):
                return Val("(rm_mul_row %s %s)" % (l.term, r.term), "rmat")
            if not mul and r.ty == "rcol":
                return Val("(rm_div_col %s %s)" % (l.term, r.term), "rmat")
            if not mul and r.ty in ("rrow", "rvec"):
                return Val("(rm_div_row %s %s)" % (l.term, r.term), "rmat")
        if l.ty == "cmat":
            if mul and r.ty in ("rrow", "rvec"):
                return Val("(cm_scale_row %s %s)" % (l.term, r.term), "cmat")
            if not mul and r.ty == "ccol":
                return Val("(cm_div_col %s %s)" % (l.term, r.term), "cmat")
            if not mul and r.ty == "rcol":
                return Val("(cm_div_col_r %s %s)" % (l.term, r.term), "cmat")
            if not mul and r.ty in ("crow", "cvec"):
                return Val("(cm_div_row %s %s)" % (l.term, r.term), "cmat")
        self.bail(e, "operator %s on (%s, %s): not one of array*row-vector, array/column-vector"
                  % ("*" if mul else "/", l.ty, r.ty))

    def compare(self, op, l, r, e):
        nat = ("nat", "intlit")
        if l.ty in nat and r.ty in nat and isinstance(op, (ast.Eq, ast.NotEq)):
            t = "(Nat.eqb %s %s)" % (l.term, r.term)
            return Val(t if isinstance(op, ast.Eq) else "(negb %s)" % t, "bool")
        if l.ty in nat and r.ty == "setnat" and isinstance(op, (ast.In, ast.NotIn)):
            t = "(set_mem %s %s)" % (l.term, r.term)
            return Val(t if isinstance(op, ast.In) else "(negb %s)" % t, "bool")
        self.bail(e, "comparison %s on (%s, %s)" % (type(op).__name__, l.ty, r.ty))

    def other_expr(self, e, env, B):
        if isinstance(e, ast.Set):
            # {a, b, *xs} is set([a, b, *xs]): the elements are evaluated left to right, duplicates collapse
            v = self.other_expr(ast.copy_location(ast.List(elts=e.elts, ctx=ast.Load()), e), env, B)
            if v.ty != "listnat":
                self.bail(e, "set display of %s" % v.ty)
            return Val("(py_set %s)" % v.term, "setnat")
        if isinstance(e, ast.List):
            if len(e.elts) == 1 and isinstance(e.elts[0], ast.Constant) and e.elts[0].value is None:
                return Val("[None]", "nonelist")
            parts = []
            for x in e.elts:
                if isinstance(x, ast.Starred):
                    parts.append(("star", self.len_comprehension(x.value, env, B)))
                else:
                    v = self.expr(x, env, B)
                    parts.append(("elt", self.nat(v, x, "list element")))
            if not parts:
                self.bail(e, "empty list display")
            if parts[-1][0] == "star":
                t = parts[-1][1]
                parts = parts[:-1]
            else:
                t = "[]"
            for kind, p in reversed(parts):
                t = "(%s :: %s)" % (p, t) if kind == "elt" else "(%s ++ %s)" % (p, t)
            return Val(t, "listnat")
        if isinstance(e, ast.ListComp):
            return Val(self.len_comprehension(e, env, B), "listnat")
        self.bail(e)         # a generator expression outside a * (it is consumed lazily): refused

    def len_comprehension(self, c, env, B):
        """[len(i) for i in X] / (len(i) for i in X) unpacked by *, with X a list of vectors -> map (@length _) X
        (a starred generator is exhausted on the spot, in order, exactly like the list comprehension)"""
        if not (isinstance(c, (ast.ListComp, ast.GeneratorExp)) and len(c.generators) == 1):
            self.bail(c, "`%s` (only [len(i) for i in <list of vectors>])" % src_of(c)[:80])
        g = c.generators[0]
        if g.ifs or g.is_async or not isinstance(g.target, ast.Name) or \
                src_of(c.elt) != "len(%s)" % g.target.id or g.target.id in env:
            self.bail(c, "`%s` (only [len(i) for i in <list of vectors>], i a fresh name)" % src_of(c)[:80])
        it = self.expr(g.iter, env, B)
        if it.ty != "cml":
            self.bail(c, "comprehension over a value of type %s" % it.ty)
        return "(map (@List.length _) %s)" % it.term

    def unpack(self, v, n, node, ident):
        if v.ty == "idx2" and n == 2:          # numpy.unravel_index of a 2-D shape gives a 2-tuple (row, column)
            return [Val("(fst %s)" % ident, "nat"), Val("(snd %s)" % ident, "nat")]
        self.bail(node, "unpacking of a value of type %s into %d names" % (v.ty, n))

    def iterable(self, v, e):
        if v.ty == "listnat":
            return v.term, "nat"
        self.bail(e, "iteration over a value of type %s" % v.ty)


# ==========================================================================================================
# evec_sort
# ==========================================================================================================

def translate_sort(source):
    mod = parse(source)
    aliases = module_imports(mod, SORT, {"numpy": ("import numpy", "numpy")})
    fn = find_function(mod, SORT, "evec_sort")
    a = plain_params(fn, SORT, ["target_arr", "target_evecs", "base_evecs", "filter", "threshold"])
    if len(a.defaults) != 2 or any(not (isinstance(d, ast.Constant) and d.value is None) for d in a.defaults) or fn.decorator_list:
        raise TranslateError(SORT, fn, "evec_sort: the defaults of filter / threshold are not None (or decorators present)")
    forbid_dynamic(fn, SORT)
    body = body_no_doc(fn)
    tr = EvecTr(SORT, source)
    tr.aliases = dict(aliases)
    tr.module_aliases = dict(aliases)
    tr.helpers = {x.name: (x, mod) for x in mod.body if isinstance(x, ast.FunctionDef) and x.name != "evec_sort"}
    tr.function_locals = frozenset(assigned_names(body))
    tr.protected = frozenset(["target_arr", "target_evecs", "base_evecs", "filter", "threshold"])
    builtins_unshadowed(mod, SORT, {"len", "set", "range"})
    env = {"target_arr": Val("target_arr", "listA", "param"), "target_evecs": Val("target_evecs", "cml", "param"),
           "base_evecs": Val("base_evecs", "cml", "param"), "filter": Val("None", "none"), "threshold": Val("None", "none")}
    term = tr.block(body, env, lambda e2: tr.bail(fn, "evec_sort can end without `return`"))
    txt = ("  (* %s: evec_sort(target_arr, target_evecs, base_evecs), specialised to filter=None, threshold=None.\n"
           "     None = RuntimeError / IndexError *)\n"
           "  Definition ge_evec_sort {A : Type} (target_arr : list A) (target_evecs base_evecs : list (list cplx))\n"
           "    : option (list (option A)) :=\n    %s.\n" % (SORT, term.replace("\n", "\n    ")))
    return txt, dict(facts=tr.facts, loops=getattr(tr, "loops", []))


# ==========================================================================================================
# evec_disp2eig
# ==========================================================================================================

def translate_disp(source):
    mod = parse(source)
    aliases = module_imports(mod, DISP, {"numpy": ("import numpy", "numpy"),
                                         "nax": ("from numpy import newaxis as nax", "numpy.newaxis")})
    fn = find_function(mod, DISP, "evec_disp2eig")
    a = plain_params(fn, DISP, ["a", "mass"])
    if a.defaults or fn.decorator_list:
        raise TranslateError(DISP, fn, "evec_disp2eig has defaults / decorators")
    forbid_dynamic(fn, DISP)
    builtins_unshadowed(mod, DISP, {"len"})
    body = body_no_doc(fn)
    out, facts, loops = [], [], []
    for dt, mt, name in (("r", "list (list F)", "real"), ("c", "list (list cplx)", "complex")):
        tr = EvecTr(DISP, source)
        tr.aliases = dict(aliases)
        tr.module_aliases = dict(aliases)
        tr.helpers = {x.name: (x, mod) for x in mod.body if isinstance(x, ast.FunctionDef) and x.name != "evec_disp2eig"}
        tr.function_locals = frozenset(assigned_names(body))
        tr.protected = frozenset(["mass"])
        env = {"a": Val("a", dt + "mat", "param"), "mass": Val("mass", "rvec", "param")}
        term = tr.block(body, env, lambda e2: tr.bail(fn, "evec_disp2eig can end without `return`"))
        out.append("  (* %s: evec_disp2eig(a, mass) for a %s array a (rows = displacement vectors); None = RuntimeError *)\n"
                   "  Definition ge_disp2eig_%s (a : %s) (mass : list F) : option (%s) :=\n    %s.\n"
                   % (DISP, name, dt, mt, mt, term.replace("\n", "\n    ")))
        facts += tr.facts
        loops += getattr(tr, "loops", [])
    return "\n".join(out), dict(facts=facts, loops=loops)


# ==========================================================================================================
# evec_load: regex constants and the vector-line reader
# ==========================================================================================================

def regex_atoms(pattern, file, node):
    """Python regex text -> list of Gallina atoms of MatdynModel (Ch / Star / Plus / Opt / Open / Close)"""
    try:
        import re._parser as sp
        import re._constants as sc
    except ImportError:                                  # Python < 3.11
        import sre_parse as sp
        import sre_constants as sc
    try:
        tree = sp.parse(pattern)
    except re.error as e:
        raise TranslateError(file, node, "regex %r does not parse: %s" % (pattern, e))

    def bail(what):
        raise TranslateError(file, node, "regex %r: %s" % (pattern, what))

    def pred(item):
        op, arg = item
        if op is sc.LITERAL:
            if not 32 <= arg < 127:
                bail("non-ASCII literal %r" % arg)
            ch = chr(arg)
            return '(is_c "%s"%%char)' % ('""' if ch == '"' else ch)
        if op is sc.IN and len(arg) == 1 and arg[0][0] is sc.CATEGORY:
            if arg[0][1] is sc.CATEGORY_SPACE:
                return "is_space"
            if arg[0][1] is sc.CATEGORY_DIGIT:
                return "is_digit"
        bail("construct %s %s (only literals, \\s, \\d)" % (op, arg))

    out = []
    ngroups = [0]

    def walk(items, depth):
        for op, arg in items:
            if op is sc.SUBPATTERN:
                group, add, delf, sub = arg
                if depth or group is None or add or delf:
                    bail("nested / non-capturing / flagged group")
                ngroups[0] += 1
                if group != ngroups[0]:
                    bail("group numbering")
                out.append("Open")
                walk(sub, depth + 1)
                out.append("Close")
            elif op is sc.MAX_REPEAT:
                lo, hi, sub = arg
                if len(sub) != 1:
                    bail("quantifier on more than one item")
                p = pred(sub[0])
                if (lo, hi) == (0, sc.MAXREPEAT):
                    out.append("Star %s" % p)
                elif (lo, hi) == (1, sc.MAXREPEAT):
                    out.append("Plus %s" % p)
                elif (lo, hi) == (0, 1):
                    out.append("Opt %s" % p)
                else:
                    bail("quantifier {%s,%s}" % (lo, hi))
            elif op in (sc.LITERAL, sc.IN):
                out.append("Ch %s" % pred((op, arg)))
            else:
                bail("construct %s (only literals, \\s, \\d, * + ?, capturing groups)" % op)
    walk(tree, 0)
    return out, ngroups[0]


def translate_load(source):
    mod = parse(source)
    module_imports(mod, LOAD, {"re": ("import re", "re")})
    builtins_unshadowed(mod, LOAD, {"float", "next", "range", "tuple"})
    defs = []
    for name in ("Q_COORDS_REGEX", "MODE_INDEX_REGEX"):
        stores = [n for n in ast.walk(mod) if isinstance(n, ast.Name) and n.id == name and isinstance(n.ctx, (ast.Store, ast.Del))]
        top = [s for s in mod.body if isinstance(s, ast.Assign) and len(s.targets) == 1 and src_of(s.targets[0]) == name]
        if len(stores) != 1 or len(top) != 1:
            raise TranslateError(LOAD, top[0] if top else None, "%s is not bound exactly once, at module level" % name)
        v = top[0].value
        if not (isinstance(v, ast.Call) and src_of(v.func) == "re.compile" and len(v.args) == 1 and not v.keywords
                and isinstance(v.args[0], ast.Constant) and isinstance(v.args[0].value, str)):
            raise TranslateError(LOAD, top[0], "%s is not re.compile(<one string literal>) without flags" % name)
        atoms, ng = regex_atoms(v.args[0].value, LOAD, top[0])
        defs.append("(* %s = re.compile(%s): %d groups *)\nDefinition ge_%s : list atom :=\n  [%s].\n"
                    % (name, repr(v.args[0].value).replace("*)", "* )").replace('"', "''"), ng, name, ";\n   ".join(atoms)))
    # a decorator replaces the function by something else: none of the readers may carry one (pattern check)
    for nm in ("_read_vecs", "_read_modes", "_read_q_points", "evec_load"):
        f = find_function(mod, LOAD, nm)
        if f.decorator_list:
            raise TranslateError(LOAD, f, "function %s is decorated with `%s` (the readers are modelled as plain functions "
                                          "of the file content)" % (nm, src_of(f.decorator_list[0])[:60]))
    # _read_vecs
    fn = find_function(mod, LOAD, "_read_vecs")
    plain_params(fn, LOAD, ["fp", "np"])
    body = body_no_doc(fn)
    if len(body) != 1 or not isinstance(body[0], ast.For) or src_of(body[0].iter) != "range(np // 3)" or body[0].orelse:
        raise TranslateError(LOAD, fn, "_read_vecs is not a single `for .. in range(np // 3):` loop")
    lb = body[0].body
    if len(lb) != 2 or src_of(lb[0]) != "line = next(fp).strip()" or not (isinstance(lb[1], ast.Expr) and isinstance(lb[1].value, ast.Yield)):
        raise TranslateError(LOAD, body[0], "_read_vecs loop body is not `line = next(fp).strip()` followed by one yield")
    tup = lb[1].value.value
    unrolled = (isinstance(tup, ast.Call) and isinstance(tup.func, ast.Name) and tup.func.id == "tuple" and not tup.keywords
                and len(tup.args) == 1 and isinstance(tup.args[0], ast.GeneratorExp) and len(tup.args[0].generators) == 1)
    if unrolled:
        g = tup.args[0].generators[0]
        unrolled = (not g.ifs and not g.is_async and isinstance(g.target, ast.Name) and g.target.id != "line"
                    and isinstance(g.iter, (ast.Tuple, ast.List)) and g.iter.elts
                    and all(isinstance(k, ast.Constant) and type(k.value) is int for k in g.iter.elts))
    if not unrolled and (not isinstance(tup, ast.Tuple) or not tup.elts):
        raise TranslateError(LOAD, lb[1], "_read_vecs does not yield a tuple display or tuple(<expr> for k in (<int literals>))")

    LINE = object()          # marker: the stripped line
    # values of the little evaluator: LINE | int | ("slice", a, b) = line[a:b] | str = a Gallina term `parse_float (..)`

    def ev_int(e, env):
        v = ev_value(e, env)
        if type(v) is not int:
            raise TranslateError(LOAD, e, "`%s` is not an integer literal / parameter / sum of them" % src_of(e)[:60])
        return v

    def ev_value(e, env):
        if isinstance(e, ast.Constant) and type(e.value) is int:
            return e.value
        if isinstance(e, ast.Name) and e.id in env:
            return env[e.id]
        if isinstance(e, ast.BinOp) and isinstance(e.op, (ast.Add, ast.Sub)):
            l, r = ev_int(e.left, env), ev_int(e.right, env)      # integers only, folded exactly
            return l + r if isinstance(e.op, ast.Add) else l - r
        if isinstance(e, ast.Subscript) and isinstance(e.slice, ast.Slice) and e.slice.step is None \
                and e.slice.lower is not None and e.slice.upper is not None and ev_value(e.value, env) is LINE:
            lo, hi = ev_int(e.slice.lower, env), ev_int(e.slice.upper, env)
            if lo < 0 or hi < 0:
                raise TranslateError(LOAD, e, "negative slice bound in `%s`" % src_of(e)[:60])
            return ("slice", lo, hi)
        if isinstance(e, ast.Call) and isinstance(e.func, ast.Name) and e.func.id == "float" and "float" not in env \
                and len(e.args) == 1 and not e.keywords:
            v = ev_value(e.args[0], env)
            if isinstance(v, tuple) and v[0] == "slice":
                return "(parse_float (slice %d %d l))" % (v[1], v[2])
        raise TranslateError(LOAD, e, "`%s` (only the line, integer literals and their sums, line[a:b], float(line[a:b]), "
                                      "locals bound to these)" % src_of(e)[:60])

    def ev_float(e, env):
        v = ev_value(e, env)
        if not isinstance(v, str):
            raise TranslateError(LOAD, e, "`%s` is not float(line[a:b])" % src_of(e)[:60])
        return v

    def ev_complex(c, env, depth=0):
        """re + im * 1j   |   helper(args) with a straight-line body ending in such an expression"""
        if isinstance(c, ast.Call) and isinstance(c.func, ast.Name) and c.func.id not in env and not c.keywords:
            hs = [x for x in mod.body if isinstance(x, ast.FunctionDef) and x.name == c.func.id]
            if len(hs) == 1 and depth < 2:
                h = find_function(mod, LOAD, c.func.id)
                ha = h.args
                if h.decorator_list or ha.defaults or ha.vararg or ha.kwarg or ha.kwonlyargs or ha.posonlyargs \
                        or len(ha.args) != len(c.args):
                    raise TranslateError(LOAD, c, "helper `%s`: decorators / defaults / arity" % h.name)
                forbid_dynamic(h, LOAD)
                henv = {}
                for p_, x in zip(ha.args, c.args):
                    henv[p_.arg] = ev_value(x, env)
                hb = body_no_doc(h)
                if not hb or not isinstance(hb[-1], ast.Return) or hb[-1].value is None:
                    raise TranslateError(LOAD, h, "helper `%s` does not end in `return <expression>`" % h.name)
                for st in hb[:-1]:
                    if not (isinstance(st, ast.Assign) and len(st.targets) == 1 and isinstance(st.targets[0], ast.Name)):
                        raise TranslateError(LOAD, st, "statement `%s` in helper `%s` (only `local = <line slice / float of it / "
                                                       "integer expression>`)" % (src_of(st)[:60], h.name))
                    henv[st.targets[0].id] = ev_value(st.value, henv)
                return ev_complex(hb[-1].value, henv, depth + 1)
        ok = isinstance(c, ast.BinOp) and isinstance(c.op, ast.Add) and isinstance(c.right, ast.BinOp) and isinstance(c.right.op, ast.Mult)
        if ok:
            im, unit = c.right.left, c.right.right
            if isinstance(im, ast.Constant) and isinstance(im.value, complex):
                im, unit = unit, im
            ok = isinstance(unit, ast.Constant) and isinstance(unit.value, complex) and unit.value == 1j
        if not ok:
            raise TranslateError(LOAD, c, "`%s` (only float(line[a:b]) + float(line[c:d]) * 1j, or a straight-line helper "
                                          "returning that)" % src_of(c)[:80])
        return ev_float(c.left, env), ev_float(im, env)

    env0 = {"line": LINE}
    if isinstance(tup, ast.Tuple) and tup.elts:
        comps = [ev_complex(c, env0) for c in tup.elts]
    else:
        # tuple(<elt> for k in (i1, i2, ..)): the generator over a LITERAL tuple / list of integers is consumed on the spot,
        # in order - the same tuple as the one written out with k replaced by i1, i2, ..
        g = tup.args[0].generators[0]
        comps = [ev_complex(tup.args[0].elt, dict(env0, **{g.target.id: k.value})) for k in g.iter.elts]
    names = ["x%d" % k for k in range(2 * len(comps))]
    scrut = ", ".join(t for pair in comps for t in pair)
    pat = ", ".join("Some %s" % n for n in names)
    res = "; ".join("(%s, %s)" % (names[2 * k], names[2 * k + 1]) for k in range(len(comps)))
    defs.append("(* one pass of the loop of _read_vecs: `line = next(fp).strip()`, then the yielded tuple; None = float() raises *)\n"
                "Definition ge_read_vec_line (l0 : line) : option (list cnum) :=\n  let l := strip l0 in\n"
                "  match %s with\n  | %s => Some [%s]\n  | %s => None\n  end.\n"
                % (scrut, pat, res, ", ".join("_" for _ in names)))
    defs.append("Definition ge_read_vecs_lines_per_mode (np : nat) : nat := np / 3.   (* range(np // 3) *)\n")
    return "\n".join(defs), dict(facts=["%s: only the two regex constants and _read_vecs are translated" % LOAD])


GEN_HEADER = """(* GENERATED by tools/translate_evec.py from the current source tree - do not edit *)
From Coq Require Import List Bool Arith Ascii String.
From Cij Require Import Ops MatdynModel.
From CijGen Require Import EvecTieBase.
Import ListNotations.

"""


def translate_all(root):
    """-> (Gen_evec.v text, errors {piece: message}, info); pieces: sort, disp, load"""
    import os
    sec, tail, errors, info = [], [], {}, {}
    for key, file, fun in (("sort", SORT, translate_sort), ("disp", DISP, translate_disp), ("load", LOAD, translate_load)):
        try:
            txt, inf = fun(open(os.path.join(str(root), file)).read())
            (tail if key == "load" else sec).append(txt)
            info[key] = inf
        except TranslateError as e:
            errors[key] = "TranslateError: %s" % e
            sec.append("  (* %s: NOT TRANSLATED - %s *)\n" % (key, str(e).replace("*)", "* )")))
        except (SyntaxError, OSError, ValueError) as e:
            errors[key] = "%s cannot be read/parsed: %r" % (file, e)
    out = [GEN_HEADER, "Section GenEvec.", "  Context {F : Type} {OF : Ops F}.", "  Local Notation cplx := (@cplx F).", ""]
    out += sec
    out.append("End GenEvec.\n")
    out += tail
    return "\n".join(out), errors, info


if __name__ == "__main__":
    import sys
    txt, errors, info = translate_all(sys.argv[1] if len(sys.argv) > 1 else "/repo")
    for k, e in errors.items():
        print("(* ERROR %s: %s *)" % (k, e))
    print(txt)
