(** static tie, group HILL: the Voigt-Reuss-Hill averages generated from cij/core/calculator.py
    are the model's (everything unfolded down to the matrix cells, so this group stands alone). *)
From Coq Require Import Reals ZArith List Lra.
From Cij Require Import Ops ROps VRHModel.
From CijGen Require Import VRHTieBase Gen_vrh.
Local Open Scope R_scope.

Definition reuss_den_K (s : Z -> Z -> R) : R :=
  s 1%Z 1%Z + s 2%Z 2%Z + s 3%Z 3%Z + 2 * (s 1%Z 2%Z + s 2%Z 3%Z + s 1%Z 3%Z).
Definition reuss_den_G (s : Z -> Z -> R) : R :=
  4 * (s 1%Z 1%Z + s 2%Z 2%Z + s 3%Z 3%Z) - 4 * (s 1%Z 2%Z + s 2%Z 3%Z + s 1%Z 3%Z)
  + 3 * (s 4%Z 4%Z + s 5%Z 5%Z + s 6%Z 6%Z).

Lemma tie_bulk_modulus_voigt_reuss_hill (ry M V : R) (c s : Z -> Z -> R) :
  reuss_den_K s <> 0 ->
  g_bulk_modulus_voigt_reuss_hill ry M V c s = bulk_vrh c s.
Proof.
  unfold reuss_den_K. intros HK.
  unfold g_bulk_modulus_voigt_reuss_hill, g_bulk_modulus_voigt, g_bulk_modulus_reuss,
         bulk_vrh, bulk_voigt, bulk_reuss.
  tie_field.
Qed.

Lemma tie_shear_modulus_voigt_reuss_hill (ry M V : R) (c s : Z -> Z -> R) :
  reuss_den_G s <> 0 ->
  g_shear_modulus_voigt_reuss_hill ry M V c s = shear_vrh c s.
Proof.
  unfold reuss_den_G. intros HG.
  unfold g_shear_modulus_voigt_reuss_hill, g_shear_modulus_voigt, g_shear_modulus_reuss,
         shear_vrh, shear_voigt, shear_reuss.
  tie_field.
Qed.

Theorem tie_group_hill : forall (ry M V : R) (c s : Z -> Z -> R),
  (reuss_den_K s <> 0 -> g_bulk_modulus_voigt_reuss_hill ry M V c s = bulk_vrh c s) /\
  (reuss_den_G s <> 0 -> g_shear_modulus_voigt_reuss_hill ry M V c s = shear_vrh c s).
Proof. intros. split; [apply tie_bulk_modulus_voigt_reuss_hill | apply tie_shear_modulus_voigt_reuss_hill]. Qed.
Print Assumptions tie_group_hill.
