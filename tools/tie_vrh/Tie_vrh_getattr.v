(** static tie, group GETATTR-DISPATCH: CijVolumeBaseInterface.__getattr__, regenerated as the decision
    tree [g_getattr], is the specification below; every accessor name the translated formulas use reads
    the dictionary / canonical key the formula translation assumed, and raises when the key is missing.
    The canonical key of "IJ" is computed by the regenerated voigt model (Gen_voigt.mod_create, C10). *)
From Coq Require Import ZArith List Bool Ascii String.
From Cij Require Import VoigtBase.
From CijGen Require Import VRHTieBase Gen_vrh Gen_voigt.
Import ListNotations.
Local Open Scope string_scope.

(** cNN / cNNs -> modulus_adiabatic[key], cNNt -> modulus_isothermal[key], sNN -> _compliances[key];
    a key that is not there, or a name the regex rejects, raises AttributeError (never reads as 0) *)
Definition spec_getattr (matched : bool) (g1 g3 : option string) (key : Z * Z) (in_mod in_compl : bool) : outcome :=
  if negb matched then RaiseAttr
  else if grp_eqb g1 "c" then
         (if in_mod then Read (if grp_eqb g3 "t" then Isothermal else Adiabatic) key else RaiseAttr)
  else if grp_eqb g1 "s" then
         (if in_compl then Read Compliance key else RaiseAttr)
  else RaiseAttr.

(** group 1 of REGEX_CIJ is the first parenthesis of its text, which reads ^(c|s): whenever the regex matches,
    group 1 is "c" or "s" (a syntactic fact about the regex text, checked by the translator) *)
Lemma tie_regex_group1 : g_regex_group1_is_c_or_s = true.
Proof. reflexivity. Qed.

Lemma tie_getattr : forall matched g1 g3 key in_mod in_compl,
  (matched = true -> g1 = Some "c" \/ g1 = Some "s") ->
  g_getattr matched g1 g3 key in_mod in_compl = spec_getattr matched g1 g3 key in_mod in_compl.
Proof.
  intros matched g1 g3 key in_mod in_compl Hg1. unfold g_getattr, spec_getattr.
  destruct matched; [destruct (Hg1 eq_refl) as [-> | ->] | ]; cbn;
    destruct in_mod, in_compl; cbn; try reflexivity;
    destruct g3 as [y|]; cbn; try reflexivity;
    destruct (String.eqb_spec y "t") as [-> | Ht]; cbn; try reflexivity;
    destruct (String.eqb_spec y "s") as [-> | Hs]; cbn; try reflexivity.
Qed.

Corollary tie_getattr_missing_raises : forall g3 key b,
  g_getattr true (Some "c") g3 key false b = RaiseAttr /\ g_getattr true (Some "s") g3 key b false = RaiseAttr.
Proof.
  intros g3 key b. rewrite !tie_getattr by (intros _; auto). unfold spec_getattr. cbn. split; reflexivity.
Qed.

(** c_("IJ") = ModulusRepresentation.create(I, J) = from_voigt(I, J), then .voigt *)
Definition key_of (ds : list Z) : Z * Z :=
  match mod_create ds with Some m => mod_voigt m | None => (0, 0)%Z end.

Definition name_ok (u : used_name) : bool :=
  let '(name, (g1, ds, g3), (d, k)) := u in
  outcome_eqb (g_getattr true g1 g3 (key_of ds) true true) (Read d k)
  && outcome_eqb (g_getattr true g1 g3 (key_of ds) false false) RaiseAttr
  && match name with
     | String "c"%char _ => vsrc_eqb d Adiabatic
     | String "s"%char _ => vsrc_eqb d Compliance
     | _ => false
     end.

Lemma tie_used_names : forallb name_ok g_used_names = true.
Proof. vm_compute. reflexivity. Qed.

(** the canonical key does not depend on the order of the two digits (so self.s31 is self.s13) *)
Lemma key_of_sorted :
  forallb (fun ij : Z * Z => let '(i, j) := ij in
             let k := key_of [i; j] in
             ((fst k =? Z.min i j) && (snd k =? Z.max i j))%Z)
          (list_prod [1; 2; 3; 4; 5; 6]%Z [1; 2; 3; 4; 5; 6]%Z) = true.
Proof. vm_compute. reflexivity. Qed.

Theorem tie_group_getattr :
  g_regex_group1_is_c_or_s = true
  /\ (forall matched g1 g3 key in_mod in_compl,
       (matched = true -> g1 = Some "c" \/ g1 = Some "s") ->
       g_getattr matched g1 g3 key in_mod in_compl = spec_getattr matched g1 g3 key in_mod in_compl)
  /\ forallb name_ok g_used_names = true.
Proof. split; [exact tie_regex_group1 | split; [exact tie_getattr | exact tie_used_names]]. Qed.
Print Assumptions tie_group_getattr.
