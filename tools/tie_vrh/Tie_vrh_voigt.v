(** static tie, group VOIGT: the Voigt averages generated from cij/core/calculator.py
    (CijVolumeBaseInterface.bulk_modulus_voigt / shear_modulus_voigt) are the model's. *)
From Coq Require Import Reals ZArith List Lra.
From Cij Require Import Ops ROps VRHModel.
From CijGen Require Import VRHTieBase Gen_vrh.
Local Open Scope R_scope.

Lemma tie_bulk_modulus_voigt (ry M V : R) (c s : Z -> Z -> R) :
  g_bulk_modulus_voigt ry M V c s = bulk_voigt c.
Proof. unfold g_bulk_modulus_voigt, bulk_voigt. tie_field. Qed.

Lemma tie_shear_modulus_voigt (ry M V : R) (c s : Z -> Z -> R) :
  g_shear_modulus_voigt ry M V c s = shear_voigt c.
Proof. unfold g_shear_modulus_voigt, shear_voigt. tie_field. Qed.

Theorem tie_group_voigt : forall (ry M V : R) (c s : Z -> Z -> R),
  g_bulk_modulus_voigt ry M V c s = bulk_voigt c /\ g_shear_modulus_voigt ry M V c s = shear_voigt c.
Proof. intros. split; [apply tie_bulk_modulus_voigt | apply tie_shear_modulus_voigt]. Qed.
Print Assumptions tie_group_voigt.
