(** Shared vocabulary of the static VRH tie (copied into the per-run directory by
    tools/props/vrh_static.py; logical path CijGen).  Hand-written; the generated file
    Gen_vrh.v and the Tie_vrh_*.v lemma files are written against it. *)
From Coq Require Import Reals ZArith List Bool String Lra.
From Cij Require Import Ops ROps VRHModel.
Import ListNotations.

(** which dictionary of the calculator an accessor name reads *)
Inductive vsrc := Adiabatic | Isothermal | Compliance.
(** what [CijVolumeBaseInterface.__getattr__] does with a name *)
Inductive outcome := Read (d : vsrc) (k : Z * Z) | RaiseAttr.

(** [res.group(n) == "lit"]; a group that did not participate is Python's None *)
Definition grp_eqb (g : option string) (lit : string) : bool :=
  match g with Some x => String.eqb x lit | None => false end.

Definition vsrc_eqb (a b : vsrc) : bool :=
  match a, b with
  | Adiabatic, Adiabatic | Isothermal, Isothermal | Compliance, Compliance => true
  | _, _ => false
  end.
Definition outcome_eqb (a b : outcome) : bool :=
  match a, b with
  | Read d k, Read d' k' => vsrc_eqb d d' && (fst k =? fst k')%Z && (snd k =? snd k')%Z
  | RaiseAttr, RaiseAttr => true
  | _, _ => false
  end.

(** (attribute name, (group 1, digits of group 2, group 3), (dictionary, cell) used by the translated formula) *)
Definition used_name := (string * (option string * list Z * option string) * (vsrc * (Z * Z)))%type.

(** a list-of-rows matrix (StaticModel's representation) as a [mat]: 1-based indices *)
Definition nth_row {A} (m : list (list A)) (i : nat) : list A := nth i m [].

(* ------------------------------------------------------------------------------------ *)
(** * tactics for the tie lemmas (goals over R) *)
Local Open Scope R_scope.

(** side conditions left by [field]: every one must follow from the stated hypotheses *)
Ltac tie_side :=
  repeat match goal with |- _ /\ _ => split end;
  try assumption; try lra;
  try (intro; match goal with H : _ <> 0 |- False => apply H; lra end).

(** let-bound locals / inlined helper parameters of the generated code, model-side constants *)
Ltac tie_consts := cbv zeta; unfold two, three, N_A, milli, ofQ' in *.

(** close [L = R] where both sides are field expressions over atoms *)
Ltac tie_field := tie_consts; rops; field; tie_side.

(** close [.. sqrt A .. = .. sqrt B ..] (one radical on each side): first A = B as field
    expressions, then the rest *)
Ltac tie_sqrt :=
  tie_consts; rops;
  first
    [ reflexivity
    | match goal with
      | |- ?L = ?R =>
          match L with
          | context [sqrt ?A] =>
              match R with
              | context [sqrt ?B] =>
                  let E := fresh "E" in
                  assert (E : A = B) by (first [reflexivity | field; tie_side]);
                  try rewrite E; first [reflexivity | field; tie_side]
              end
          end
      end ].
