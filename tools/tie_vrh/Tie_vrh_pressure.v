(** static tie, group PRESSURE-DELEGATION: CijPressureBaseInterface does not re-implement the averages;
    each of its nine properties returns the property OF THE SAME NAME of calculator.volume_base, passed
    through self.v2p (mass: returned as is), and unknown names are forwarded by __getattr__ through v2p. *)
From Coq Require Import ZArith List Bool String.
From CijGen Require Import VRHTieBase Gen_vrh.
Import ListNotations.
Local Open Scope string_scope.

Definition spec_pressure_delegation : list (string * string * bool) :=
  map (fun n => (n, n, negb (String.eqb n "mass")))
      ["bulk_modulus_voigt"; "bulk_modulus_reuss"; "bulk_modulus_voigt_reuss_hill";
       "shear_modulus_voigt"; "shear_modulus_reuss"; "shear_modulus_voigt_reuss_hill";
       "mass"; "primary_velocities"; "secondary_velocities"]
  ++ [("*", "*", true)].

Theorem tie_group_pressure : g_pressure_delegation = spec_pressure_delegation.
Proof. reflexivity. Qed.
Print Assumptions tie_group_pressure.
