(** static tie, group VELOCITIES: mass, primary_velocities, secondary_velocities generated from
    cij/core/calculator.py are the model's [mass], [v_primary], [v_secondary]
    (ry = the Ry -> kg km^2 s^-2 factor of the pint conversion, M = cell mass, V = cell volume). *)
From Coq Require Import Reals ZArith List Lra.
From Cij Require Import Ops ROps VRHModel.
From CijGen Require Import VRHTieBase Gen_vrh.
Local Open Scope R_scope.

Definition reuss_den_K (s : Z -> Z -> R) : R :=
  s 1%Z 1%Z + s 2%Z 2%Z + s 3%Z 3%Z + 2 * (s 1%Z 2%Z + s 2%Z 3%Z + s 1%Z 3%Z).
Definition reuss_den_G (s : Z -> Z -> R) : R :=
  4 * (s 1%Z 1%Z + s 2%Z 2%Z + s 3%Z 3%Z) - 4 * (s 1%Z 2%Z + s 2%Z 3%Z + s 1%Z 3%Z)
  + 3 * (s 4%Z 4%Z + s 5%Z 5%Z + s 6%Z 6%Z).

Lemma tie_mass (ry M V : R) (c s : Z -> Z -> R) :
  g_mass ry M V c s = mass M.
Proof. unfold g_mass, mass. cbv zeta. tie_field. Qed.

Ltac unfold_all :=
  unfold g_primary_velocities, g_secondary_velocities, g_mass,
         g_bulk_modulus_voigt_reuss_hill, g_bulk_modulus_voigt, g_bulk_modulus_reuss,
         g_shear_modulus_voigt_reuss_hill, g_shear_modulus_voigt, g_shear_modulus_reuss,
         v_primary, v_secondary, mass, bulk_vrh, bulk_voigt, bulk_reuss, shear_vrh, shear_voigt, shear_reuss;
  cbv zeta.

Lemma tie_primary_velocities (ry M V : R) (c s : Z -> Z -> R) :
  M <> 0 -> reuss_den_K s <> 0 -> reuss_den_G s <> 0 ->
  g_primary_velocities ry M V c s = v_primary ry M V c s.
Proof. unfold reuss_den_K, reuss_den_G. intros HM HK HG. unfold_all. tie_sqrt. Qed.

Lemma tie_secondary_velocities (ry M V : R) (c s : Z -> Z -> R) :
  M <> 0 -> reuss_den_G s <> 0 ->
  g_secondary_velocities ry M V c s = v_secondary ry M V c s.
Proof. unfold reuss_den_G. intros HM HG. unfold_all. tie_sqrt. Qed.

(** non-vacuity of the side conditions: an isotropic compliance and a positive mass *)
Example tie_velocities_side_conditions_satisfiable :
  exists (M : R) (s : Z -> Z -> R), M <> 0 /\ reuss_den_K s <> 0 /\ reuss_den_G s <> 0.
Proof.
  exists 1, (fun i j => if (i =? j)%Z then 1 else 0). unfold reuss_den_K, reuss_den_G. cbn. repeat split; lra.
Qed.

Theorem tie_group_velocities : forall (ry M V : R) (c s : Z -> Z -> R),
  g_mass ry M V c s = mass M /\
  (M <> 0 -> reuss_den_K s <> 0 -> reuss_den_G s <> 0 -> g_primary_velocities ry M V c s = v_primary ry M V c s) /\
  (M <> 0 -> reuss_den_G s <> 0 -> g_secondary_velocities ry M V c s = v_secondary ry M V c s).
Proof.
  intros. split; [apply tie_mass | split; [apply tie_primary_velocities | apply tie_secondary_velocities]].
Qed.
Print Assumptions tie_group_velocities.
