(** static tie, group REUSS: the Reuss averages generated from cij/core/calculator.py are the
    model's, wherever the model's denominators do not vanish. *)
From Coq Require Import Reals ZArith List Lra.
From Cij Require Import Ops ROps VRHModel.
From CijGen Require Import VRHTieBase Gen_vrh.
Local Open Scope R_scope.

(** the denominators of the model's Reuss averages *)
Definition reuss_den_K (s : Z -> Z -> R) : R :=
  s 1%Z 1%Z + s 2%Z 2%Z + s 3%Z 3%Z + 2 * (s 1%Z 2%Z + s 2%Z 3%Z + s 1%Z 3%Z).
Definition reuss_den_G (s : Z -> Z -> R) : R :=
  4 * (s 1%Z 1%Z + s 2%Z 2%Z + s 3%Z 3%Z) - 4 * (s 1%Z 2%Z + s 2%Z 3%Z + s 1%Z 3%Z)
  + 3 * (s 4%Z 4%Z + s 5%Z 5%Z + s 6%Z 6%Z).

Lemma tie_bulk_modulus_reuss (ry M V : R) (c s : Z -> Z -> R) :
  reuss_den_K s <> 0 ->
  g_bulk_modulus_reuss ry M V c s = bulk_reuss s.
Proof. unfold reuss_den_K. intros HK. unfold g_bulk_modulus_reuss, bulk_reuss. tie_field. Qed.

Lemma tie_shear_modulus_reuss (ry M V : R) (c s : Z -> Z -> R) :
  reuss_den_G s <> 0 ->
  g_shear_modulus_reuss ry M V c s = shear_reuss s.
Proof. unfold reuss_den_G. intros HG. unfold g_shear_modulus_reuss, shear_reuss. tie_field. Qed.

Theorem tie_group_reuss : forall (ry M V : R) (c s : Z -> Z -> R),
  (reuss_den_K s <> 0 -> g_bulk_modulus_reuss ry M V c s = bulk_reuss s) /\
  (reuss_den_G s <> 0 -> g_shear_modulus_reuss ry M V c s = shear_reuss s).
Proof. intros. split; [apply tie_bulk_modulus_reuss | apply tie_shear_modulus_reuss]. Qed.
Print Assumptions tie_group_reuss.
