(** static tie, group STATIC-VRH: the VRH / velocity block of cij/cli/static.py (run-static), as
    regenerated in Gen_vrh.v, computes the row [s_vrh_row] of the C18 model (StaticModel.v), i.e.
    s_bmV s_bmR s_avg s_GV s_GR s_avg s_vp s_vs s_vphi, from the whole 6x6 matrix, its whole
    inverse and the density column.  [cl] / [sl] are arbitrary list-of-rows matrices: no symmetry is
    assumed, a cell is the cell the code reads. *)
From Coq Require Import Reals ZArith List Lra String.
From Cij Require Import Ops ROps VRHModel StaticModel.
From CijGen Require Import VRHTieBase Gen_vrh.
Import ListNotations.
Local Open Scope R_scope.

(** StaticModel's matrices (1-based [s_el]) seen as the [mat] the generated code reads *)
Definition matof (m : list (list R)) : Z -> Z -> R := fun i j => s_el m (Z.to_nat i) (Z.to_nat j).

Definition st_den_K (sl : list (list R)) : R :=
  s_el sl 1 1 + s_el sl 2 2 + s_el sl 3 3 + 2 * (s_el sl 1 2 + s_el sl 2 3 + s_el sl 1 3).
Definition st_den_G (sl : list (list R)) : R :=
  4 * (s_el sl 1 1 + s_el sl 2 2 + s_el sl 3 3) - 4 * (s_el sl 1 2 + s_el sl 2 3 + s_el sl 1 3)
  + 3 * (s_el sl 4 4 + s_el sl 5 5 + s_el sl 6 6).

Ltac norm_idx :=
  unfold matof;
  repeat match goal with
         | |- context [Z.to_nat (Zpos ?p)] =>
             let n := eval vm_compute in (Z.to_nat (Zpos p)) in change (Z.to_nat (Zpos p)) with n
         end.
Ltac model_unfold :=
  unfold s_vrh_row, s_bmV, s_bmR, s_GV, s_GR, s_avg, s_vp, s_vs, s_vphi, s_to_kms; cbv zeta.

(** numpy.linalg.inv is applied to the whole filled 6x6 cij *)
Lemma tie_static_inverse_of_whole_matrix : g_st_inverse_of = "whole 6x6 cij"%string.
Proof. reflexivity. Qed.

(** the loop that fills cij reads, for cell (i, j), the column c<min i j><max i j>: the table of keys obtained by
    evaluating the loop's key expression on all 36 cells is the one of StaticModel.s_cmat
    ([s_lookup (Nat.min i j, Nat.max i j)]) *)
Lemma tie_static_fill_keys :
  g_st_fill_keys = map (fun ij : Z * Z => (fst ij, snd ij, Z.min (fst ij) (snd ij), Z.max (fst ij) (snd ij)))
                       (list_prod [1; 2; 3; 4; 5; 6]%Z [1; 2; 3; 4; 5; 6]%Z).
Proof. vm_compute. reflexivity. Qed.

Notation GEN f cl sl rho0 := (f s_to_gcm3 s_to_kms rho0 (matof cl) (matof sl)) (only parsing).
Ltac start := g_st_unfold; model_unfold; norm_idx.

Lemma tie_st_bm_V cl sl rho0 : GEN g_st_bm_V cl sl rho0 = s_bmV cl.
Proof. start. tie_field. Qed.

Lemma tie_st_G_V cl sl rho0 : GEN g_st_G_V cl sl rho0 = s_GV cl.
Proof. start. tie_field. Qed.

Lemma tie_st_bm_R cl sl rho0 : st_den_K sl <> 0 -> GEN g_st_bm_R cl sl rho0 = s_bmR sl.
Proof. unfold st_den_K. intros HK. start. tie_field. Qed.

Lemma tie_st_G_R cl sl rho0 : st_den_G sl <> 0 -> GEN g_st_G_R cl sl rho0 = s_GR sl.
Proof. unfold st_den_G. intros HG. start. tie_field. Qed.

Lemma tie_st_bm_VRH cl sl rho0 : st_den_K sl <> 0 -> GEN g_st_bm_VRH cl sl rho0 = s_avg (s_bmV cl) (s_bmR sl).
Proof. unfold st_den_K. intros HK. start. tie_field. Qed.

Lemma tie_st_G_VRH cl sl rho0 : st_den_G sl <> 0 -> GEN g_st_G_VRH cl sl rho0 = s_avg (s_GV cl) (s_GR sl).
Proof. unfold st_den_G. intros HG. start. tie_field. Qed.

(** the density column the velocity block divides by is the entry density converted by _to_gcm3 *)
Lemma tie_st_density cl sl rho0 : GEN g_st_density cl sl rho0 = s_to_gcm3 rho0.
Proof. g_st_unfold. reflexivity. Qed.

Lemma tie_st_v_p cl sl rho0 : st_den_K sl <> 0 -> st_den_G sl <> 0 -> s_to_gcm3 rho0 <> 0 ->
  GEN g_st_v_p cl sl rho0 = s_vp (s_avg (s_bmV cl) (s_bmR sl)) (s_avg (s_GV cl) (s_GR sl)) (s_to_gcm3 rho0).
Proof.
  unfold st_den_K, st_den_G. intros HK HG Hrho. start. set (rho := s_to_gcm3 rho0) in *. clearbody rho. tie_sqrt.
Qed.

Lemma tie_st_v_s cl sl rho0 : st_den_G sl <> 0 -> s_to_gcm3 rho0 <> 0 ->
  GEN g_st_v_s cl sl rho0 = s_vs (s_avg (s_GV cl) (s_GR sl)) (s_to_gcm3 rho0).
Proof.
  unfold st_den_G. intros HG Hrho. start. set (rho := s_to_gcm3 rho0) in *. clearbody rho. tie_sqrt.
Qed.

Lemma tie_st_v_phi cl sl rho0 : st_den_K sl <> 0 -> s_to_gcm3 rho0 <> 0 ->
  GEN g_st_v_phi cl sl rho0 = s_vphi (s_avg (s_bmV cl) (s_bmR sl)) (s_to_gcm3 rho0).
Proof.
  unfold st_den_K. intros HK Hrho. start. set (rho := s_to_gcm3 rho0) in *. clearbody rho. tie_sqrt.
Qed.

(** the nine columns, in the order of [s_vrh_row] *)
Theorem tie_group_static_vrh (cl sl : list (list R)) (rho0 : R) :
  st_den_K sl <> 0 -> st_den_G sl <> 0 -> s_to_gcm3 rho0 <> 0 ->
  let C := matof cl in let S := matof sl in
  map (fun f => f s_to_gcm3 s_to_kms rho0 C S)
      [g_st_bm_V; g_st_bm_R; g_st_bm_VRH; g_st_G_V; g_st_G_R; g_st_G_VRH; g_st_v_p; g_st_v_s; g_st_v_phi]
  = s_vrh_row cl sl (s_to_gcm3 rho0).
Proof.
  intros HK HG Hrho C S. subst C S. cbn [map]. unfold s_vrh_row.
  rewrite (tie_st_bm_V cl sl rho0), (tie_st_bm_R cl sl rho0 HK), (tie_st_bm_VRH cl sl rho0 HK),
          (tie_st_G_V cl sl rho0), (tie_st_G_R cl sl rho0 HG), (tie_st_G_VRH cl sl rho0 HG),
          (tie_st_v_p cl sl rho0 HK HG Hrho), (tie_st_v_s cl sl rho0 HG Hrho), (tie_st_v_phi cl sl rho0 HK Hrho).
  reflexivity.
Qed.

(** non-vacuity of the side conditions *)
Example tie_static_side_conditions_satisfiable :
  exists (sl : list (list R)) (rho0 : R), st_den_K sl <> 0 /\ st_den_G sl <> 0 /\ s_to_gcm3 rho0 <> 0.
Proof.
  exists [[1;0;0;0;0;0];[0;1;0;0;0;0];[0;0;1;0;0;0];[0;0;0;1;0;0];[0;0;0;0;1;0];[0;0;0;0;0;1]], 1.
  unfold st_den_K, st_den_G, s_el, s_nth, s_to_gcm3, s_gcm3_factor, s_NA_1e23, s_bohr3, s_bohr_A, ofQ'. cbn. rops.
  repeat split; lra.
Qed.

Print Assumptions tie_group_static_vrh.
