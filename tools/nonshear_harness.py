"""Shared harness for C01 / C02 / C12: duck-typed calculator around the real
Longitudinal/OffDiagonal phonon-contribution classes, exported to Coq shards."""
import importlib
import math
from decimal import Decimal, getcontext
from types import SimpleNamespace

import numpy

from vlib import fhex, flist, flist2, flist3, zlit, blit

getcontext().prec = 60

CODATA = dict(
    h=Decimal("6.62607015e-34"), c=Decimal("299792458"), kB=Decimal("1.380649e-23"),
    e=Decimal("1.602176634e-19"), NA=Decimal("6.02214076e23"),
    Rinf=Decimal("10973731.568160"),   # 1/m
)
CODATA["Ry_J"] = CODATA["h"] * CODATA["c"] * CODATA["Rinf"]
CODATA["hdk_cmK"] = CODATA["h"] * CODATA["c"] / CODATA["kB"] * 100
CODATA["hc_Ry_cm"] = CODATA["h"] * CODATA["c"] * 100 / CODATA["Ry_J"]
CODATA["k_Ry_K"] = CODATA["kB"] / CODATA["Ry_J"]


def impl_constants():
    import cij.core.phonon_contribution.nonshear as NS
    from cij.util import units
    h = units.Quantity(NS._h, units.J * units.m).to(units.rydberg * units.cm).magnitude
    k = units.Quantity(NS._k, units.eV / units.K).to(units.rydberg / units.K).magnitude
    return float(NS.h_div_k), float(h), float(k)


class Spectrum:
    """analytic spectrum w_qm(V) = w0 (V/V0)^(-g) exp(-h/2 ln^2(V/V0)):  gamma = g + h ln(V/V0), V dgamma/dV = h"""

    def __init__(self, rng, nq, np_, v0, generic=True):
        self.v0 = v0
        self.par = [[(rng.uniform(30.0, 1500.0), rng.uniform(-1.0, 3.0), rng.uniform(-2.0, 2.0) if generic else 0.0)
                     for _ in range(np_)] for _ in range(nq)]

    def arrays(self, vols, rng):
        nv = len(vols)
        nq, np_ = len(self.par), len(self.par[0])
        fr = numpy.zeros((nv, nq, np_))
        ga = numpy.zeros((nv, nq, np_))
        vd = numpy.zeros((nv, nq, np_))
        for iv, v in enumerate(vols):
            x = math.log(v / self.v0)
            for q in range(nq):
                for m in range(np_):
                    w0, g, h = self.par[q][m]
                    fr[iv, q, m] = w0 * math.exp(-g * x - 0.5 * h * x * x)
                    ga[iv, q, m] = g + h * x
                    vd[iv, q, m] = h
        return fr, ga, vd

    def w_dec(self, q, m, v):
        w0, g, h = self.par[q][m]
        x = (Decimal(v) / Decimal(self.v0)).ln()
        return Decimal(w0) * (-Decimal(g) * x - Decimal(h) * x * x / 2).exp()


def make_case(rng, nq=None, na=None, nv=None, temps=None, generic=True, gamma_garbage=True):
    nq = nq or rng.choice([1, 2, 3, 4])
    na = na or rng.choice([1, 2, 3])
    np_ = 3 * na
    nv = nv or rng.choice([2, 3])
    v0 = rng.uniform(60.0, 500.0)
    vols = sorted([v0 * rng.uniform(0.8, 1.15) for _ in range(nv)], reverse=True)
    if temps is None:
        temps = [0.0] + sorted(rng.uniform(5.0, 3000.0) for _ in range(rng.choice([1, 2, 3])))
        if rng.random() < 0.5:
            temps[1] = rng.uniform(5.0, 30.0)
            temps = [temps[0]] + sorted(temps[1:])
        # the property quantifies over ALL grids with T >= 0: not only ascending ones starting at 0
        r = rng.random()
        if r < 0.2:
            temps = temps[::-1]                       # descending, 0 K last
        elif r < 0.4:
            rng.shuffle(temps)                        # 0 K anywhere
        elif r < 0.5:
            temps.insert(rng.randrange(len(temps) + 1), 0.0)   # 0 K listed twice
        elif r < 0.6:
            temps = temps[1:]                         # no 0 K at all
    sp = Spectrum(rng, nq, np_, v0, generic)
    fr, ga, vd = sp.arrays(vols, rng)
    if gamma_garbage:
        # acoustic modes at Gamma carry arbitrary (non-zero) numbers: the mask must remove them
        fr[:, 0, :3] = [[rng.uniform(-5, 5) for _ in range(3)] for _ in range(nv)]
        ga[:, 0, :3] = [[rng.uniform(-50, 50) for _ in range(3)] for _ in range(nv)]
        vd[:, 0, :3] = [[rng.uniform(-50, 50) for _ in range(3)] for _ in range(nv)]
    weights = [float(rng.choice([1, 2, 3, 4, 6, 8, 12])) * rng.choice([1.0, 0.125, 1.0 / 3]) for _ in range(nq)]
    ei = [rng.uniform(0.05, 0.9) for _ in range(nv)]
    ej = [rng.uniform(0.05, 0.9) for _ in range(nv)]
    nt = len(temps)
    P = [[rng.uniform(-0.002, 0.02) for _ in range(nv)] for _ in range(nt)]
    Pst = [rng.uniform(-0.002, 0.02) for _ in range(nv)]
    cv = [[rng.uniform(1e-5, 5e-4) * na for _ in range(nv)] for _ in range(nt)]
    return dict(nq=nq, na=na, np=np_, nv=nv, vols=vols, temps=temps, sp=sp, freq=fr, gam=ga, vdr=vd,
                weights=weights, ei=ei, ej=ej, P=P, Pst=Pst, cv=cv)


def duck_calculator(c):
    vb = SimpleNamespace(heat_capacity=numpy.array(c["cv"]), pressures=numpy.array(c["P"]))
    qc = SimpleNamespace(volume_base=vb)
    qi = SimpleNamespace(weights=[((0.0, 0.0, 0.0), w) for w in c["weights"]])
    return SimpleNamespace(
        qha_calculator=qc, nv=c["nv"], np=c["np"], nq=c["nq"], na=c["na"],
        v_array=numpy.array(c["vols"]), t_array=numpy.array(c["temps"]),
        freq_array=numpy.array(c["freq"]), qha_input=qi,
        mode_gamma=[numpy.array(c["vdr"]), numpy.array(c["gam"]), numpy.array(c["gam"]) ** 2],
        static_p_array=numpy.array(c["Pst"]))


def observe(c, longitudinal, rng=None):
    """run the real contribution class; returns dict of arrays.  The five observables are read in a random
    order and then read AGAIN: an observable must not change because another one was evaluated
    (they are cached properties of one object) - differences are returned under 'alias'."""
    import cij.core.phonon_contribution.nonshear as NS
    calc = duck_calculator(c)
    e = (numpy.array(c["ei"]), numpy.array(c["ei"] if longitudinal else c["ej"]))
    cls = NS.LongitudinalElasticModulusPhononContribution if longitudinal \
        else NS.OffDiagonalElasticModulusPhononContribution
    names = dict(zp="zero_point_contribution", th="thermal_contribution", iso="value_isothermal",
                 gap="isothermal_to_adiabatic", adi="value_adiabatic")
    order = list(names)
    if rng is not None:
        rng.shuffle(order)
    with numpy.errstate(all="ignore"):
        o = cls(calc, e)
        first = {k: numpy.array(getattr(o, names[k]), copy=True) for k in order}
        alias = []
        for k in names:
            again = numpy.array(getattr(o, names[k]))
            if not numpy.array_equal(first[k], again, equal_nan=True):
                alias.append(dict(observable=names[k], read_order=[names[x] for x in order],
                                  max_change=float(numpy.nanmax(numpy.abs(first[k] - again)))))
    first["alias"] = alias
    return first


def reload_impl():
    import cij.core.phonon_contribution.nonshear as NS
    importlib.reload(NS)


HEADER = r"""
From Coq Require Import ZArith List Bool Uint63 PrimFloat.
From Cij Require Import Ops FOps NonShearModel.
Import ListNotations.
Local Open Scope float_scope.

Record case := {
  lg : bool; G : @grid float; K : @consts float;
  o_zp : list float; o_th : list (list float); o_iso : list (list float);
  o_gap : list (list float); o_adi : list (list float) }.

Definition maxabs (l : list (list float)) : float :=
  fold_right (fun r acc => fold_right (fun x a => if a <? abs x then abs x else a) acc r) 0 l.
Definition cl (scale : float) := close 0x1.12e0be826d695p-27 (0x1.19799812dea11p-40 * scale + 0x1p-150). (* 8e-9 rel *)
Definition chk (Q1 Q2 : float -> float) (c : case) : bool :=
  let g := G c in
  let zp := tab_zero_point (K c) (lg c) g in
  let th := tab_thermal (K c) Q1 Q2 (lg c) g in
  let iso := tab_isothermal (K c) Q1 Q2 (lg c) g in
  let gp := tab_gap (K c) Q2 g in
  let adi := zipw (zipw PrimFloat.add) iso gp in
  let s := maxabs (o_iso c) in
  all_close (cl s) zp (o_zp c) && all_close2 (cl s) th (o_th c) && all_close2 (cl s) iso (o_iso c) &&
  all_close2 (cl (maxabs (o_gap c))) gp (o_gap c) && all_close2 (cl (maxabs (o_adi c))) adi (o_adi c).
"""


def coq_case(c, longitudinal, obs, consts):
    hdk, h, k = consts
    ej = c["ei"] if longitudinal else c["ej"]
    g = ("{| g_t := %s; g_v := %s;\n g_freq := %s;\n g_gam := %s;\n g_vdr := %s;\n g_w := %s; g_na := %s;\n"
         " g_ei := %s; g_ej := %s; g_p := %s; g_pst := %s; g_cv := %s |}") % (
        flist(c["temps"]), flist(c["vols"]), flist3(c["freq"]), flist3(c["gam"]), flist3(c["vdr"]),
        flist(c["weights"]), zlit(c["na"]), flist(c["ei"]), flist(ej), flist2(c["P"]), flist(c["Pst"]),
        flist2(c["cv"]))
    return ("{| lg := %s; G := %s;\n K := {| c_hdk := %s; c_h := %s; c_k := %s |};\n o_zp := %s; o_th := %s;\n"
            " o_iso := %s; o_gap := %s; o_adi := %s |}") % (
        blit(longitudinal), g, fhex(hdk), fhex(h), fhex(k), flist(obs["zp"]), flist2(obs["th"]),
        flist2(obs["iso"]), flist2(obs["gap"]), flist2(obs["adi"]))


# ---------------------------------------------------------------------------------------------
# independent oracle: A/(5e^2)+P/(3e) etc. from numerical derivatives of the exact F_ph in Decimal
# ---------------------------------------------------------------------------------------------

def F_ph(c, T, V, part):
    """vibrational free energy per cell in Ry (Decimal); part in {'zp','th','all'}; Gamma acoustic excluded"""
    sp = c["sp"]
    hc = CODATA["hc_Ry_cm"]
    k = CODATA["k_Ry_K"]
    hdk = CODATA["hdk_cmK"]
    wsum = sum(Decimal(w) for w in c["weights"])
    tot = Decimal(0)
    for q in range(c["nq"]):
        s = Decimal(0)
        for m in range(c["np"]):
            if q == 0 and m < 3:
                continue
            w = sp.w_dec(q, m, V)
            if part in ("zp", "all"):
                s += hc * w / 2
            if part in ("th", "all") and T > 0:
                Q = hdk * w / Decimal(T)
                s += k * Decimal(T) * (1 - (-Q).exp()).ln()
        tot += Decimal(c["weights"][q]) / wsum * s
    return tot


def derivs(f, x, h):
    """first and second derivative by 6th-order central differences in Decimal"""
    x = Decimal(x)
    h = Decimal(h)
    f0 = f(x)
    fp = [f(x + i * h) for i in (1, 2, 3)]
    fm = [f(x - i * h) for i in (1, 2, 3)]
    d1 = (Decimal(3) / 4 * (fp[0] - fm[0]) - Decimal(3) / 20 * (fp[1] - fm[1]) + Decimal(1) / 60 * (fp[2] - fm[2])) / h
    d2 = (Decimal(3) / 2 * (fp[0] + fm[0]) - Decimal(3) / 20 * (fp[1] + fm[1]) + Decimal(1) / 90 * (fp[2] + fm[2])
          - Decimal(49) / 18 * f0) / (h * h)
    return d1, d2


def oracle_value(c, T, iv, longitudinal, part):
    """A/(5 e^2) + P/(3 e)  or  A/(15 ei ej)  (without the supplied-pressure term)"""
    V = c["vols"][iv]
    d1, d2 = derivs(lambda v: F_ph(c, T, v, part), V, Decimal(V) * Decimal("1e-4"))
    P = -d1
    A = Decimal(V) * d2 - P
    ei = Decimal(c["ei"][iv])
    if longitudinal:
        return A / (5 * ei * ei) + P / (3 * ei)
    ej = Decimal(c["ej"][iv])
    return A / (15 * ei * ej)


def oracle_dPdT(c, T, iv):
    V = c["vols"][iv]
    hT = Decimal(T) * Decimal("1e-4")

    def P_of_T(t):
        d1, _ = derivs(lambda v: F_ph(c, t, v, "th"), V, Decimal(V) * Decimal("1e-4"))
        return -d1
    d1, _ = derivs(P_of_T, T, hT)
    return d1
