(** static tie, group KEYS: get_fictitious_strain_energy_keys, regenerated as the left fold
    [gen_energy_keys], is the model's [energy_keys] - the SAME LIST, element by element and in the same
    order (not merely as multisets), for every zero test, strain array and target.  Consequently
    get_modulus_keys / get_modulus_keys_rotated of the class are the model's [keys_orig] / [keys_rot]. *)
From Coq Require Import Reals List Bool Arith ZArith Lia Lra.
From Cij Require Import Ops ROps VoigtBase Voigt ShearModel.
From CijGen Require Import Gen_voigt ShearTieBase ShearTieLemmas Gen_shear.
Import ListNotations.
Local Open Scope R_scope.

Definition model_keys (t : option vkey) (ij kl : nat * nat) : list vkey :=
  let key := canon4 (fst ij) (snd ij) (fst kl) (snd kl) in
  if is_target t key then [] else [key].

Lemma gen_keys_key_canon4 :
  forallb (fun t : nat * nat * nat * nat => let '(i, j, k, l) := t in
             vkey_eqb (gen_keys_key i j k l) (canon4 i j k l)) idx81 = true.
Proof. vm_compute. reflexivity. Qed.

Lemma tie_energy_keys (isz : R -> bool) (e : nat -> nat -> R) (t : option vkey) :
  gen_energy_keys isz e t = energy_keys isz e t.
Proof.
  unfold gen_energy_keys.
  set (p := fun ij : nat * nat => negb (isz (e (fst ij) (snd ij)))).
  rewrite (fold_left_app_list _ (fun x : nat * nat * nat * nat => let '(i, j, k, l) := x in
             if p (i, j) && p (k, l) then model_keys t (i, j) (k, l) else [])).
  - unfold idx81. rewrite (flat_guarded_prod p (model_keys t)). unfold energy_keys, nz. fold p.
    reflexivity.
  - intros acc [[[i j] k] l] Hin.
    pose proof (proj1 (forallb_forall _ _) gen_keys_key_canon4 _ Hin) as Hkey.
    cbn beta iota in Hkey. apply vkey_eqb_eq in Hkey.
    subst p. cbn beta iota. cbn [fst snd]. rewrite Hkey.
    unfold model_keys, key_is, is_target. cbn [fst snd].
    destruct (negb (isz (e i j)) && negb (isz (e k l))); [|rewrite app_nil_r; reflexivity].
    destruct t as [t|]; [destruct (vkey_eqb (canon4 i j k l) t)|]; cbv zeta;
      rewrite ?app_nil_r; reflexivity.
Qed.

(** self.fictitious_strain (tie group FICT, re-proved here to keep the groups independent) is only needed
    pointwise: the model reads the strain entry by entry *)
Lemma tie_modulus_keys (isz : R -> bool) (s : gself R) :
  (forall i j, gen_fictitious_strain isz s i j = fict (OF:=ROps) (g_key s) i j) ->
  gen_get_modulus_keys isz s = keys_orig (OF:=ROps) isz (g_key s).
Proof.
  intros Hf. unfold gen_get_modulus_keys, keys_orig. rewrite tie_energy_keys.
  apply energy_keys_ext. exact Hf.
Qed.

Lemma tie_modulus_keys_rotated (isz : R -> bool) (s : gself R) :
  gen_get_modulus_keys_rotated isz s = keys_rot (OF:=ROps) isz (fst (g_eigh s)).
Proof.
  unfold gen_get_modulus_keys_rotated, keys_rot. rewrite tie_energy_keys.
  apply energy_keys_ext. intros i j. reflexivity.
Qed.

Definition tie_group_keys := (gen_keys_key_canon4, tie_energy_keys, tie_modulus_keys, tie_modulus_keys_rotated).
