(** General lemmas of the static shear tie (hand-written, copied into the per-run directory; logical path
    CijGen; independent of the generated files): "a left fold with += / .append over the guarded 81 tuples is
    the model's sum / list", and extensionality of the model's energy in the strain entries. *)
From Coq Require Import Reals List Bool Arith ZArith Lia Lra.
From Cij Require Import Ops ROps VoigtBase Voigt ShearModel.
Import ListNotations.

Lemma shear_keys_all k : In k shear_keys -> In k all_keys.
Proof. unfold shear_keys. intros H. apply filter_In in H. tauto. Qed.

(* ------------------------------------------------------------------------------------------------ *)
(** * the loop: a left fold with [+=] / [.append] over the guarded 81 tuples is the model's sum / list *)
Local Open Scope R_scope.

Lemma Rsum_app (a b : list R) : sum (OF:=ROps) (a ++ b) = sum (OF:=ROps) a + sum (OF:=ROps) b.
Proof. induction a as [|x a IH]; cbn [app sum]; rops; [ring | rewrite IH; ring]. Qed.

Lemma fold_left_sum {X} (step : R -> X -> R) (h : X -> R) (l : list X) (a : R) :
  (forall acc x, In x l -> step acc x = acc + h x) ->
  fold_left step l a = a + sum (OF:=ROps) (map h l).
Proof.
  revert a. induction l as [|x l IH]; intros a H; cbn [fold_left map sum]; rops; [ring|].
  rewrite IH by (intros; apply H; right; assumption).
  rewrite H by (left; reflexivity). ring.
Qed.

Lemma fold_left_app_list {X A} (step : list A -> X -> list A) (h : X -> list A) (l : list X) (a : list A) :
  (forall acc x, In x l -> step acc x = acc ++ h x) ->
  fold_left step l a = a ++ flat_map h l.
Proof.
  revert a. induction l as [|x l IH]; intros a H; cbn [fold_left flat_map]; [rewrite app_nil_r; reflexivity|].
  rewrite IH by (intros; apply H; right; assumption).
  rewrite H by (left; reflexivity). rewrite app_assoc. reflexivity.
Qed.

(** guarded product = product of the filtered lists (same order), for sums and for lists *)
Lemma sum_guarded_prod (p : nat * nat -> bool) (f : nat * nat -> nat * nat -> R) (l1 l2 : list (nat * nat)) :
  sum (OF:=ROps) (map (fun t : nat * nat * nat * nat => let '(i, j, k, l) := t in
                         if p (i, j) && p (k, l) then f (i, j) (k, l) else 0)
                      (flat_map (fun ij => map (fun kl => (fst ij, snd ij, fst kl, snd kl)) l2) l1))
  = sum (OF:=ROps) (flat_map (fun ij => map (fun kl => f ij kl) (filter p l2)) (filter p l1)).
Proof.
  induction l1 as [|[i j] l1 IH]; [reflexivity|].
  cbn [flat_map filter fst snd]. rewrite map_app, Rsum_app, IH. clear IH.
  assert (E : sum (OF:=ROps) (map (fun t : nat * nat * nat * nat => let '(i, j, k, l) := t in
                         if p (i, j) && p (k, l) then f (i, j) (k, l) else 0)
                      (map (fun kl => (i, j, fst kl, snd kl)) l2))
              = if p (i, j) then sum (OF:=ROps) (map (fun kl => f (i, j) kl) (filter p l2)) else 0).
  { induction l2 as [|[k l] l2 IH2]; [destruct (p (i, j)); reflexivity|].
    cbn [map filter fst snd sum]. rewrite IH2. clear IH2.
    destruct (p (i, j)), (p (k, l)); cbn [andb map sum]; rops; ring. }
  rewrite E. destruct (p (i, j)); cbn [flat_map]; [rewrite Rsum_app; reflexivity | ring].
Qed.

Lemma flat_guarded_prod {A} (p : nat * nat -> bool) (f : nat * nat -> nat * nat -> list A) (l1 l2 : list (nat * nat)) :
  flat_map (fun t : nat * nat * nat * nat => let '(i, j, k, l) := t in
              if p (i, j) && p (k, l) then f (i, j) (k, l) else [])
           (flat_map (fun ij => map (fun kl => (fst ij, snd ij, fst kl, snd kl)) l2) l1)
  = flat_map (fun ij => flat_map (fun kl => f ij kl) (filter p l2)) (filter p l1).
Proof.
  induction l1 as [|[i j] l1 IH]; [reflexivity|].
  cbn [flat_map filter fst snd]. rewrite flat_map_app, IH. clear IH.
  assert (E : flat_map (fun t : nat * nat * nat * nat => let '(i, j, k, l) := t in
                         if p (i, j) && p (k, l) then f (i, j) (k, l) else [])
                      (map (fun kl => (i, j, fst kl, snd kl)) l2)
              = if p (i, j) then flat_map (fun kl => f (i, j) kl) (filter p l2) else []).
  { induction l2 as [|[k l] l2 IH2]; [destruct (p (i, j)); reflexivity|].
    cbn [map filter fst snd flat_map]. rewrite IH2. clear IH2.
    destruct (p (i, j)), (p (k, l)); cbn [andb flat_map]; reflexivity. }
  rewrite E. destruct (p (i, j)); cbn [flat_map]; reflexivity.
Qed.

(** the model's energy / key list only read the strain entries and the resolver pointwise *)
Lemma energy_ext (isz : R -> bool) (e e' : nat -> nat -> R) (r r' : vkey -> R) (t : option vkey) :
  (forall i j, e i j = e' i j) -> (forall key, r key = r' key) ->
  energy (OF:=ROps) isz e r t = energy (OF:=ROps) isz e' r' t.
Proof.
  intros He Hr. unfold energy, nz.
  rewrite (filter_ext _ (fun ij => negb (isz (e' (fst ij) (snd ij))))) by (intros; rewrite He; reflexivity).
  f_equal. apply flat_map_ext. intros ij. apply map_ext. intros kl.
  cbv zeta. rewrite !He, Hr. reflexivity.
Qed.
Lemma energy_keys_ext (isz : R -> bool) (e e' : nat -> nat -> R) (t : option vkey) :
  (forall i j, e i j = e' i j) ->
  energy_keys (F:=R) isz e t = energy_keys (F:=R) isz e' t.
Proof.
  intros He. unfold energy_keys, nz.
  rewrite (filter_ext _ (fun ij => negb (isz (e' (fst ij) (snd ij))))) by (intros; rewrite He; reflexivity).
  reflexivity.
Qed.

(** side conditions left by [field] in the ties *)
Ltac shear_side :=
  repeat match goal with |- _ /\ _ => split end;
  try assumption; try lra; try (intro; lra).
