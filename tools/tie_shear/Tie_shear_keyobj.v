(** static tie, group KEYOBJ: the reading of C_ objects as Voigt pairs is faithful with respect to the
    REGENERATED voigt model (Gen_voigt.v, translated from cij/util/voigt.py in this run).  Finite facts,
    decided by vm_compute; the bounds (81 x 81 tuples, 21 keys) are in the statements. *)
From Coq Require Import List Bool Arith ZArith.
From Cij Require Import VoigtBase Voigt.
From CijGen Require Import Gen_voigt ShearTieBase.
Import ListNotations.

(** reading C_ equality (NamedTuple ==) as equality of Voigt pairs is faithful: on all 81 x 81 pairs of
    index tuples the regenerated C_ objects are equal iff their Voigt pairs are *)
Lemma key_eq_faithful :
  forallb (fun t => forallb (fun u =>
    let '(i, j, k, l) := t in let '(p, q, r, s) := u in
    match mod_create [Z.of_nat i + 1; Z.of_nat j + 1; Z.of_nat k + 1; Z.of_nat l + 1]%Z,
          mod_create [Z.of_nat p + 1; Z.of_nat q + 1; Z.of_nat r + 1; Z.of_nat s + 1]%Z with
    | Some m, Some m' =>
        Bool.eqb (modkey_eqb m m')
                 (vkey_eqb (gen_c4 (Z.of_nat i + 1) (Z.of_nat j + 1) (Z.of_nat k + 1) (Z.of_nat l + 1))
                           (gen_c4 (Z.of_nat p + 1) (Z.of_nat q + 1) (Z.of_nat r + 1) (Z.of_nat s + 1)))
    | _, _ => false
    end) idx81) idx81 = true.
Proof. vm_compute. reflexivity. Qed.

(** self.key: the C_ object rebuilt from its Voigt pair has that Voigt pair, for all 21 keys *)
Lemma gen_C_voigt :
  forallb (fun k => let v := mod_voigt (gen_C k) in
             ((fst v =? Z.of_nat (fst k)) && (snd v =? Z.of_nat (snd k)))%Z) all_keys = true.
Proof. vm_compute. reflexivity. Qed.

(** self.key.standard (1-based) is the model's [std_of] of the two Voigt indices (0-based), and
    self.key.multiplicity is the model's [mult], for all 21 keys *)
Lemma gen_C_standard :
  forallb (fun k => let '(i, j, p, q) := mod_standard (gen_C k) in
             let '(s1, s2) := (std_of (fst k), std_of (snd k)) in
             ((i =? Z.of_nat (S (fst s1))) && (j =? Z.of_nat (S (snd s1))) &&
              (p =? Z.of_nat (S (fst s2))) && (q =? Z.of_nat (S (snd s2))) &&
              (multiplicity (gen_C k) =? Z.of_nat (mult k)))%Z) all_keys = true.
Proof. vm_compute. reflexivity. Qed.

(** the key built in the loop for the tuple (i,j,k,l) is the canonical key of the static model *)
Lemma gen_c4_is_canon4 :
  forallb (fun t => let '(i, j, k, l) := t in
     vkey_eqb (gen_c4 (Z.of_nat i + 1) (Z.of_nat j + 1) (Z.of_nat k + 1) (Z.of_nat l + 1)) (canon4 i j k l))
    idx81 = true.
Proof. vm_compute. reflexivity. Qed.

Definition tie_group_keyobj := (key_eq_faithful, gen_C_voigt, gen_C_standard, gen_c4_is_canon4).
