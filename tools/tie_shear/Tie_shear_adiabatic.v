(** static tie, group ADIABATIC (C02, C03): value_adiabatic returns the memoised value of the LazyProperty
    value_isothermal and nothing else - for every number domain, every instance state, in particular
    whatever dictionaries are CURRENTLY bound to self.modulus / self.modulus_rotated.  (A value_adiabatic
    that recomputes from the current dictionaries is not equal to the memoised value for all states.) *)
From Coq Require Import List Bool Arith ZArith.
From Cij Require Import Ops VoigtBase Voigt ShearModel.
From CijGen Require Import Gen_voigt ShearTieBase Gen_shear.

Lemma tie_value_adiabatic {F : Type} {OF : Ops F} (isz : F -> bool) (s : gself F) :
  gen_value_adiabatic isz s = g_iso_cache s.
Proof. reflexivity. Qed.

(** shear components: adiabatic = isothermal, whatever is bound to the dictionaries at the time of the read *)
Corollary tie_adiabatic_is_isothermal {F : Type} {OF : Ops F} (isz : F -> bool) k e eg iso m1 r1 m2 r2 :
  gen_value_adiabatic isz (mk_gself k e eg m1 r1 iso) = iso /\
  gen_value_adiabatic isz (mk_gself k e eg m2 r2 iso) = iso.
Proof. split; reflexivity. Qed.

Definition tie_group_adiabatic := (@tie_value_adiabatic, @tie_adiabatic_is_isothermal).
