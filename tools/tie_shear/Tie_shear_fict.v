(** static tie, group FICT: the four unit assignments of fictitious_strain give the model's [fict] for each
    of the 21 keys and ALL index pairs; fictitious_strain_rotated is diag(component 0 of eigh) and
    transformation_matrix is component 1 of eigh (eigh itself is an oracle). *)
From Coq Require Import Reals List Bool Arith ZArith Lia Lra.
From Cij Require Import Ops ROps VoigtBase Voigt ShearModel.
From CijGen Require Import Gen_voigt ShearTieBase ShearTieLemmas Gen_shear.
Import ListNotations.
Local Open Scope R_scope.

Lemma tie_fict (isz : R -> bool) (s : gself R) : In (g_key s) all_keys ->
  forall i j, gen_fictitious_strain isz s i j = fict (OF:=ROps) (g_key s) i j.
Proof.
  destruct s as [k e eg c crot iso]. cbn [g_key]. intros Hk i j.
  unfold all_keys in Hk. cbn [In] in Hk.
  repeat (destruct Hk as [<- | Hk];
          [unfold gen_fictitious_strain, fict; cbn [g_key]; key_facts;
           destruct i as [|[|[|i]]], j as [|[|[|j]]]; reflexivity|]).
  destruct Hk.
Qed.

Lemma tie_fict_rotated (isz : R -> bool) (s : gself R) i j :
  gen_fictitious_strain_rotated isz s i j = diag3 (fst (g_eigh s)) i j.
Proof. reflexivity. Qed.

Lemma tie_transformation_matrix (isz : R -> bool) (s : gself R) i j :
  gen_transformation_matrix isz s i j = snd (g_eigh s) i j.
Proof. reflexivity. Qed.

(** in the vocabulary of the model: with eigh = (lam, T) *)
Corollary tie_eigh_components (isz : R -> bool) k e (lam : nat -> R) (T : nat -> nat -> R) c crot iso :
  (forall i j, gen_fictitious_strain_rotated isz (mk_gself k e (lam, T) c crot iso) i j = diag3 lam i j) /\
  (forall i j, gen_transformation_matrix isz (mk_gself k e (lam, T) c crot iso) i j = T i j).
Proof. split; reflexivity. Qed.

Definition tie_group_fict := (tie_fict, tie_fict_rotated, tie_transformation_matrix, tie_eigh_components).
