(** static tie, group TARGET: get_target_elastic_modulus (and value_isothermal, which calls it) - the two
    strain-energy properties with their resolvers reading self.modulus_rotated / self.modulus, the tuple
    self.key.standard, the quotient by the two strain entries and by self.key.multiplicity - is the model's
    [solve], for each of the 21 keys, every zero test, every oracle value (lam, T) of eigh and every pair of
    dictionaries.  Hence the property theorem of C03, [shear_solver_exact] (props/Prop_C03.v, proved as
    Shear.shear_solver_exact_l), holds of the GENERATED function: [gen_solver_exact]. *)
From Coq Require Import Reals List Bool Arith ZArith Lia Lra.
From Cij Require Import Ops ROps VoigtBase Voigt ShearModel Shear.
From CijGen Require Import Gen_voigt ShearTieBase ShearTieLemmas Gen_shear Tie_shear_fict Tie_shear_energy Tie_shear_keys.
Import ListNotations.
Local Open Scope R_scope.

(** the dictionary reads *)
Lemma tie_get_elastic_modulus (isz : R -> bool) (s : gself R) key :
  gen_get_elastic_modulus isz s key = g_modulus s key /\
  gen_get_elastic_modulus_rotated isz s key = g_modulus_rotated s key.
Proof. split; reflexivity. Qed.

(** the two strain-energy properties *)
Lemma tie_fse (isz : R -> bool) (s : gself R) : In (g_key s) all_keys ->
  gen_fictitious_strain_energy isz s
  = energy (OF:=ROps) isz (fict (OF:=ROps) (g_key s)) (g_modulus s) (Some (g_key s)).
Proof.
  intros Hk. unfold gen_fictitious_strain_energy. rewrite tie_energy.
  apply energy_ext; [intros; apply tie_fict; exact Hk | intros; reflexivity].
Qed.
Lemma tie_fse_rotated (isz : R -> bool) (s : gself R) :
  gen_fictitious_strain_energy_rotated isz s
  = energy (OF:=ROps) isz (diag3 (fst (g_eigh s))) (g_modulus_rotated s) None.
Proof.
  unfold gen_fictitious_strain_energy_rotated. rewrite tie_energy.
  apply energy_ext; intros; reflexivity.
Qed.

Lemma tie_target (isz : R -> bool) (s : gself R) : In (g_key s) all_keys ->
  gen_get_target_elastic_modulus isz s
  = solve (OF:=ROps) isz (g_key s) (fst (g_eigh s)) (g_modulus s) (g_modulus_rotated s).
Proof.
  intros Hk. unfold gen_get_target_elastic_modulus, solve.
  rewrite (tie_fse isz s Hk), (tie_fse_rotated isz s).
  generalize (energy (OF:=ROps) isz (diag3 (fst (g_eigh s))) (g_modulus_rotated s) None)
             (energy (OF:=ROps) isz (fict (OF:=ROps) (g_key s)) (g_modulus s) (Some (g_key s))).
  intros A B.
  assert (Hf := tie_fict isz s Hk).
  destruct s as [k e eg c crot iso]. cbn [g_key g_eigh g_modulus g_modulus_rotated] in *.
  unfold all_keys in Hk. cbn [In] in Hk.
  repeat (destruct Hk as [<- | Hk];
          [key_facts; rewrite !Hf; unfold fict; key_facts; unfold two; rops; field; shear_side|]).
  all: try (destruct Hk).
Qed.

Lemma tie_value_isothermal (isz : R -> bool) (s : gself R) :
  gen_value_isothermal isz s = gen_get_target_elastic_modulus isz s.
Proof. reflexivity. Qed.

(** key lists, unconditionally *)
Lemma tie_modulus_keys_all (isz : R -> bool) (s : gself R) : In (g_key s) all_keys ->
  gen_get_modulus_keys isz s = keys_orig (OF:=ROps) isz (g_key s).
Proof. intros Hk. apply tie_modulus_keys. apply tie_fict. exact Hk. Qed.

(** C03's property theorem, about the regenerated function *)
Theorem gen_solver_exact :
  forall (c : vkey -> R) (k : vkey) (lam : nat -> R) (T : nat -> nat -> R) (crot : vkey -> R)
         (e : nat -> R) (iso : R),
    In k shear_keys ->
    (forall a b, (a < 3)%nat -> (b < 3)%nat -> recompose T lam a b = fict (OF:=ROps) k a b) ->
    (forall i j, (i < 3)%nat -> (j < 3)%nat -> crot (canon4 i i j j) = rotate T c i j) ->
    gen_get_target_elastic_modulus Ris0 (mk_gself k e (lam, T) c crot iso) = c k.
Proof.
  intros c k lam T crot e iso Hk Hd Hr.
  rewrite tie_target by (apply shear_keys_all; exact Hk).
  cbn [g_key g_eigh g_modulus g_modulus_rotated fst].
  apply shear_solver_exact_l with (T := T); assumption.
Qed.

(** the same with the hypotheses phrased through the generated functions: eigh returned a decomposition
    of the generated fictitious strain, the rotated dictionary holds the rotated tensor *)
Corollary gen_solver_exact' :
  forall (s : gself R) (c : vkey -> R),
    In (g_key s) shear_keys ->
    (forall key, g_modulus s key = c key) ->
    (forall a b, (a < 3)%nat -> (b < 3)%nat ->
       recompose (gen_transformation_matrix Ris0 s) (fst (g_eigh s)) a b = gen_fictitious_strain Ris0 s a b) ->
    (forall i j, (i < 3)%nat -> (j < 3)%nat ->
       g_modulus_rotated s (canon4 i i j j) = rotate (gen_transformation_matrix Ris0 s) c i j) ->
    gen_value_isothermal Ris0 s = c (g_key s).
Proof.
  intros s c Hk Hc Hd Hr. rewrite tie_value_isothermal, tie_target by (apply shear_keys_all; exact Hk).
  unfold solve. rewrite (energy_ext Ris0 _ (fict (OF:=ROps) (g_key s)) (g_modulus s) c (Some (g_key s)))
    by (intros; first [reflexivity | apply Hc]).
  apply (shear_solver_exact_l c (g_key s) (fst (g_eigh s)) (snd (g_eigh s)) (g_modulus_rotated s) Hk).
  - intros a b Ha Hb. rewrite <- (tie_fict Ris0 s (shear_keys_all _ Hk)). apply Hd; assumption.
  - exact Hr.
Qed.

(** non-vacuity of the hypotheses: Tie_shear_frame.v (solver_hypotheses_satisfiable, for every tensor) *)

Definition tie_group_target :=
  (tie_get_elastic_modulus, tie_fse, tie_fse_rotated, tie_target, tie_value_isothermal, tie_modulus_keys_all,
   gen_solver_exact, gen_solver_exact').
