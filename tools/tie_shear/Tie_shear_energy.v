(** static tie, group ENERGY: calculate_fictitious_strain_energy, regenerated as the left fold [gen_energy]
    over the 81 index 4-tuples guarded by the two non-zero tests, is the model's [energy] - for every
    zero test, strain array, resolver and (optional) target; in particular in the original frame with the
    target skipped and in the rotated frame without target. *)
From Coq Require Import Reals List Bool Arith ZArith Lia Lra.
From Cij Require Import Ops ROps VoigtBase Voigt ShearModel.
From CijGen Require Import Gen_voigt ShearTieBase ShearTieLemmas Gen_shear.
Import ListNotations.
Local Open Scope R_scope.

(** summand of the model for one index 4-tuple *)
Definition model_term (e : nat -> nat -> R) (r : vkey -> R) (t : option vkey) (ij kl : nat * nat) : R :=
  let key := canon4 (fst ij) (snd ij) (fst kl) (snd kl) in
  if is_target t key then 0 else r key * e (fst ij) (snd ij) * e (fst kl) (snd kl) / 2.

(** the key the code builds for a tuple - c_(i+1, j+1, k+1, l+1) through the REGENERATED voigt model - is the
    static model's canonical key, on all 81 tuples *)
Lemma gen_energy_key_canon4 :
  forallb (fun t : nat * nat * nat * nat => let '(i, j, k, l) := t in
             vkey_eqb (gen_energy_key i j k l) (canon4 i j k l)) idx81 = true.
Proof. vm_compute. reflexivity. Qed.

Lemma tie_energy (isz : R -> bool) (e : nat -> nat -> R) (r : vkey -> R) (t : option vkey) :
  gen_energy isz e r t = energy (OF:=ROps) isz e r t.
Proof.
  unfold gen_energy.
  set (p := fun ij : nat * nat => negb (isz (e (fst ij) (snd ij)))).
  rewrite (fold_left_sum _ (fun x : nat * nat * nat * nat => let '(i, j, k, l) := x in
             if p (i, j) && p (k, l) then model_term e r t (i, j) (k, l) else 0)).
  - unfold idx81. rewrite (sum_guarded_prod p (model_term e r t)). unfold energy, nz. fold p.
    rops. rewrite Rplus_0_l. reflexivity.
  - intros acc [[[i j] k] l] Hin.
    pose proof (proj1 (forallb_forall _ _) gen_energy_key_canon4 _ Hin) as Hkey.
    cbn beta iota in Hkey. apply vkey_eqb_eq in Hkey.
    subst p. cbn beta iota. cbn [fst snd]. rewrite Hkey.
    unfold model_term, key_is, is_target. cbn [fst snd].
    destruct (negb (isz (e i j)) && negb (isz (e k l))); [|rops; ring].
    destruct t as [t|]; [destruct (vkey_eqb (canon4 i j k l) t)|]; cbv zeta; rops;
      first [ring | field; shear_side].
Qed.

(** the two uses of the class *)
Corollary tie_energy_original (isz : R -> bool) (k : vkey) (e : nat -> nat -> R) (c : vkey -> R) :
  gen_energy isz e c (Some k) = energy (OF:=ROps) isz e c (Some k).
Proof. apply tie_energy. Qed.
Corollary tie_energy_rotated (isz : R -> bool) (lam : nat -> R) (crot : vkey -> R) :
  gen_energy isz (diag3 lam) crot None = energy (OF:=ROps) isz (diag3 lam) crot None.
Proof. apply tie_energy. Qed.

Definition tie_group_energy := (gen_energy_key_canon4, tie_energy, tie_energy_original, tie_energy_rotated).
