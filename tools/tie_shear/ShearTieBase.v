(** Shared vocabulary of the static shear tie (copied into the per-run directory by
    tools/props/shear_static.py; logical path CijGen).  Hand-written; the generated file Gen_shear.v
    (tools/translate_shear.py, regenerated from cij/core/phonon_contribution/shear.py on every run) and
    the lemma files Tie_shear_<group>.v are written against it.

    Reading of the Python objects:
      3x3 ndarray                          nat -> nat -> F    (entries outside 0..2 are never read)
      one row of the (ntv, 3) strain array nat -> F           (leading axes are pointwise)
      C_ object (ModulusRepresentation)    its Voigt pair, a [vkey]; the object itself is rebuilt from the
                                           REGENERATED voigt model (Gen_voigt.v): [gen_C], [gen_c4]
      numpy.linalg.eigh(fictitious_strain) an ORACLE value [g_eigh self] : (eigenvalues, eigenvectors);
                                           only which component is used where is translated
      self                                 the record [gself]: the attributes set by __init__ / by the task
                                           list (modulus, modulus_rotated), the oracle value, and the
                                           memoised value of the LazyProperty value_isothermal *)
From Coq Require Import List Bool Arith ZArith.
From Cij Require Import Ops VoigtBase Voigt ShearModel.
From CijGen Require Import Gen_voigt.
Import ListNotations.

(** c_(a, b, c, d) = ModulusRepresentation.create(a, b, c, d), reported as its Voigt pair *)
Definition gen_c4 (a b c d : Z) : vkey :=
  match mod_create [a; b; c; d] with
  | Some m => (Z.to_nat (fst (mod_voigt m)), Z.to_nat (snd (mod_voigt m)))
  | None => (0, 0)%nat
  end.
(** the C_ object whose Voigt pair is [k] (self.key) *)
Definition gen_C (k : vkey) : modkey :=
  match mod_create [Z.of_nat (fst k); Z.of_nat (snd k)] with
  | Some m => m
  | None => ((0, 0), (0, 0))%Z
  end.
(** [key == target] for an optional target ([target and key == target]: None is falsy, a C_ object - a
    2-tuple - is truthy) *)
Definition key_is (target : option vkey) (key : vkey) : bool :=
  match target with Some t => vkey_eqb key t | None => false end.

(** an integer used as an array index.  Negative indices (numpy wrap-around) are not modelled: they are sent
    outside the 3x3 block, where nothing is ever read or proved *)
Definition zidx (z : Z) : nat := if (z <? 0)%Z then 3%nat else Z.to_nat z.

(** numpy.argwhere order x itertools.product order of the index 4-tuples of a 3x3 array *)
Definition idx81 : list (nat * nat * nat * nat) :=
  flat_map (fun ij => map (fun kl => (fst ij, snd ij, fst kl, snd kl)) idx9) idx9.

Section Base.
  Context {F : Type} {OF : Ops F}.
  Local Open Scope ops_scope.

  Definition eigh_result : Type := ((nat -> F) * (nat -> nat -> F))%type.

  Record gself : Type := mk_gself {
    g_key : vkey;                       (* self.key *)
    g_strain : nat -> F;                (* one row of self.strain *)
    g_eigh : eigh_result;               (* numpy.linalg.eigh(self.fictitious_strain) *)
    g_modulus : vkey -> F;              (* self.modulus, as currently bound *)
    g_modulus_rotated : vkey -> F;      (* self.modulus_rotated, as currently bound *)
    g_iso_cache : F                     (* memoised value of the LazyProperty value_isothermal *)
  }.

  (** numpy.zeros((3, 3)) / numpy.zeros((..., 3, 3)) *)
  Definition mzeros : nat -> nat -> F := fun _ _ => zero.
  (** m[a, b] = v *)
  Definition mstore (m : nat -> nat -> F) (a b : nat) (v : F) : nat -> nat -> F :=
    fun i j => if (i =? a)%nat && (j =? b)%nat then v else m i j.
  (** numpy.diag(v) of a vector; also: zeros with the diagonal view assigned v *)
  Definition mdiag_of (v : nat -> F) : nat -> nat -> F := fun i j => if (i =? j)%nat then v i else zero.
  (** numpy.einsum('...ii -> ...i', m)[...] = v : the diagonal view of m is assigned v *)
  Definition mset_diagonal (m : nat -> nat -> F) (v : nat -> F) : nat -> nat -> F :=
    fun i j => if (i =? j)%nat then v i else m i j.
  (** m.T, a @ b, numpy.diagonal(m, axis1=-2, axis2=-1) *)
  Definition mtrans (m : nat -> nat -> F) : nat -> nat -> F := fun i j => m j i.
  Definition mmul (a b : nat -> nat -> F) : nat -> nat -> F := fun i j => sum3 (fun x => a i x * b x j).
  Definition mdiagonal (m : nat -> nat -> F) : nat -> F := fun i => m i i.
End Base.
Arguments gself F : clear implicits.
Arguments eigh_result F : clear implicits.

(** evaluate, for a concrete key, everything the regenerated voigt model says about it (store indices,
    standard tuple, multiplicity) - used by the FICT and TARGET groups after the case split over the 21 keys *)
Ltac key_facts :=
  cbv [zidx orb gen_C mod_create mod_from_voigt strain_from_voigt zlookup voigt_table obind sort2_by sv rlookup
       strain_eqb mod_standard multiplicity b2z negb andb fst snd Z.of_nat Pos.of_succ_nat Pos.succ
       Z.eqb Z.ltb Z.compare Pos.eqb Pos.compare Pos.compare_cont Z.shiftl Pos.iter Z.mul Pos.mul Z.sub Z.add Z.opp
       Z.pos_sub Pos.pred_double Z.succ_double Z.pred_double Z.double Z.to_nat Pos.to_nat Pos.iter_op Nat.add
       Init.Nat.add std_of mult Nat.eqb Nat.ltb Nat.leb Nat.mul Init.Nat.mul Pos.add Pos.add_carry].
