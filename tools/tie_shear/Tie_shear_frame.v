(** static tie, group TARGET, non-vacuity (independent of the generated definitions; compiled next to
    Tie_shear_target.v): the hypotheses of [shear_solver_exact] / [gen_solver_exact] are satisfiable for EVERY
    tensor c - an explicit frame (lam, T) of the c44 strain (Shear.c44_frame_exists) and the rotated dictionary
    crot = rotate T c, which is well defined on canonical keys because [rotate] is symmetric. *)
From Coq Require Import Reals List Bool Arith ZArith Lia Lra.
From Cij Require Import Ops ROps VoigtBase Voigt ShearModel Shear.
Import ListNotations.
Local Open Scope R_scope.

Lemma rotate_sym (T : nat -> nat -> R) (c : vkey -> R) i j : rotate T c i j = rotate T c j i.
Proof. unfold rotate, sum3, cget, canon4, vsort. cbn [v_of Nat.ltb Nat.leb]. rops. ring. Qed.

Example solver_hypotheses_satisfiable :
  exists (lam : nat -> R) (T : nat -> nat -> R),
    In (4, 4)%nat shear_keys /\
    (forall a b, (a < 3)%nat -> (b < 3)%nat -> recompose T lam a b = fict (OF:=ROps) (4, 4)%nat a b) /\
    (forall (c : vkey -> R) i j, (i < 3)%nat -> (j < 3)%nat ->
       (fun key : vkey => rotate T c (fst key - 1) (snd key - 1)) (canon4 i i j j) = rotate T c i j).
Proof.
  destruct c44_frame_exists as (lam & T & H). exists lam, T.
  split; [unfold shear_keys, all_keys; cbn; tauto|]. split; [exact H|].
  intros c i j Hi Hj.
  destruct i as [|[|[|i]]]; [| | |lia]; destruct j as [|[|[|j]]]; try lia;
    cbn [canon4 vsort v_of Nat.ltb Nat.leb fst snd Nat.sub];
    lazymatch goal with |- ?x = ?x => reflexivity | |- _ => apply rotate_sym end.
Qed.

Definition tie_group_frame := (rotate_sym, solver_hypotheses_satisfiable).
