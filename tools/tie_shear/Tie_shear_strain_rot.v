(** static tie, group STRAIN_ROT: strain_rotated - zeros, diagonal view assigned the axial strains,
    T^T @ strain @ T, diagonal - is the model's per-axis formula sum_a T[a][i] e[a] T[a][i], for every T
    (no orthogonality), every strain row and every axis index. *)
From Coq Require Import Reals List Bool Arith ZArith Lia Lra.
From Cij Require Import Ops ROps VoigtBase Voigt ShearModel.
From CijGen Require Import Gen_voigt ShearTieBase Gen_shear.
Import ListNotations.
Local Open Scope R_scope.

Lemma tie_strain_rotated (isz : R -> bool) (s : gself R) (i : nat) :
  gen_strain_rotated isz s i = strain_rot (OF:=ROps) (snd (g_eigh s)) (g_strain s) i.
Proof.
  unfold gen_strain_rotated, gen_transformation_matrix, strain_rot, mdiagonal, mmul, mtrans, mset_diagonal,
    mdiag_of, mzeros, mstore, sum3.
  cbv zeta. cbn [Nat.eqb andb]. rops. ring.
Qed.

Definition tie_group_strain_rot := (tie_strain_rotated).
