"""Static (translator) DATA-FLOW tie of C05's static part to the current text of cij/core/full_modulus.py and
cij/core/calculator.py.

static_tie(ctx, rd) regenerates Gen_staticfit.v (tools/translate_staticfit.py, fail-closed ast translator: which arrays
feed numpy.polyfit / numpy.polyval / polynomial_least_square_fitting / numpy.gradient, over oracles, with named axes
table / grid / phonon-file) and compiles the lemma files of tools/tie_staticfit/ in the per-run directory `rd`:

    static-fit        get_static_modulus / fit_modulus = TotalModel.fit_with at polyfit(strains of the TABLE volumes
                      relative to the first, table volumes * from_gpa(column), deg 3), on the grid, / v_array
    static-pressure   _calculate_pressure_static = TotalModel.static_p's data flow (phonon-file volumes / energies,
                      order 3, - gradient(E) / gradient(V))

One obligation per group; never calls ctx.failure.  Returns the failed group ids.
"""
from vlib import REPO, VERIF
import translate_staticfit as T
import tie_common

TEMPLATES = VERIF / "tools" / "tie_staticfit"
GROUPS = [
    ("static-fit", "Tie_staticfit_fit.v",
     "get_static_modulus = TotalModel.fit_with at polyfit(eulerian strain of the table's own volumes rel. its first, "
     "volumes * from_gpa(column), deg = order+1 = 3) evaluated on the grid strains (same reference) / v_array"),
    ("static-pressure", "Tie_staticfit_pressure.v",
     "_calculate_pressure_static = -gradient(E_fit)/gradient(V), E_fit = qha least-squares cubic of the phonon file's "
     "energies in eulerian strain rel. its first volume (TotalModel.static_p data flow)"),
]

TRUSTED = (
    "translator tools/translate_staticfit.py (fail-closed ast whitelist: elementwise + - * / between arrays on the same "
    "named axis (table / grid / phonon-file volumes), A[n], calculate_eulerian_strain, numpy.polyfit / polyval / "
    "gradient, polynomial_least_square_fitting, _from_gpa, numpy.add/subtract/multiply/divide/negative as the operators, "
    "re-assignable locals and tuple assignment with all right-hand sides evaluated first) - the library calls are ORACLES "
    "(record StaticFitTieBase.oracles), numpy.polyval / calculate_eulerian_strain / _from_gpa / numpy.gradient are "
    "instantiated with the model's polyval / eulerian / from_gpa / s_grad; only pattern-checked (glue): the property "
    "bodies FullThermalElasticModulus.volumes / v_array, Calculator.__getattr__ forwarding v_array to "
    "QHACalculatorAdapter.v_array = finer_volumes_bohr3, the list comprehensions that read the table column / phonon "
    "volumes / energies, the qha<1.1 tuple branch, modulus_adiabatic / modulus_isothermal = get_static_modulus(key)"
    "[nax, :] + phonon part; lemma files tools/tie_staticfit/*.v (hand-written statements; list induction)"
)


def static_tie(ctx, rd):
    ctx.trusted.append(TRUSTED)
    why = {}
    gen = T.HEADER % (T.FM, T.CALC)
    try:
        res = T.translate((REPO / T.FM).read_text(), (REPO / T.CALC).read_text(), (REPO / T.ADAPTER).read_text())
        gen = T.emit(res)
        for gid in ("static-fit", "static-pressure"):
            if gid in res.errors:
                why[gid] = str(res.errors[gid])
    except (SyntaxError, OSError) as e:
        for gid in ("static-fit", "static-pressure"):
            why[gid] = "source cannot be read/parsed: %r" % (e,)
    return tie_common.run_groups(ctx, rd, "staticfit", "%s + %s" % (T.FM, T.CALC), "Gen_staticfit.v", gen, TEMPLATES,
                                 ["StaticFitTieBase.v"], GROUPS, why, "staticfit")
