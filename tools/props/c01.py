"""C01 - thermal c11..c33, c12, c13, c23 are strain derivatives of the QHA free energy."""
import shutil
from decimal import Decimal

import numpy

from vlib import PROPS, write
import nonshear_harness as H
from props import nonshear_static


def build_cases(ctx, n):
    rng = ctx.rng
    H.reload_impl()
    consts = H.impl_constants()
    cases, meta = [], []
    for i in range(n):
        c = H.make_case(rng, generic=(i % 4 != 0))
        for lg in (True, False):
            try:
                obs = H.observe(c, lg, rng)
            except Exception as ex:
                ctx.failure("nonshear-raises-%s" % ("long" if lg else "off"),
                            "contribution class raised %s: %s" % (type(ex).__name__, ex),
                            input=dict(nq=c["nq"], na=c["na"], temps=c["temps"]))
                continue
            for a in obs.get("alias", []):
                ctx.failure("read-order-%s" % a["observable"],
                            "%s changes (by up to %.3g) after other observables of the same contribution object were "
                            "read in the order %s" % (a["observable"], a["max_change"], a["read_order"]),
                            input=dict(cls="longitudinal" if lg else "off-diagonal", temps=c["temps"], vols=c["vols"]),
                            observed=a)
            nontriv = c["nq"] >= 2 and len(set(c["weights"])) > 1
            ctx.case(dict(lg=lg, freq=c["freq"], gam=c["gam"], vdr=c["vdr"], w=c["weights"], t=c["temps"],
                          v=c["vols"], ei=c["ei"], ej=c["ej"]), nontrivial=nontriv)
            ctx.count("nq=%d" % c["nq"]); ctx.count("np=%d" % c["np"]); ctx.count("nt=%d" % len(c["temps"]))
            ctx.count("class=%s" % ("longitudinal" if lg else "off-diagonal"))
            ctx.count("spectrum=%s" % ("generic" if i % 4 != 0 else "power-law"))
            cases.append(H.coq_case(c, lg, obs, consts))
            meta.append((c, lg, obs))
    return cases, meta, consts


def shards(ctx, rd, cases, per, q1="Q1_neg", q2="Q2_neg", tag="C01"):
    files = []
    for si in range(0, len(cases), per):
        txt = H.HEADER + "\nDefinition cases : list case := [\n" + ";\n".join(cases[si:si + per]) + "].\n" + \
            "Local Close Scope float_scope.\nEval vm_compute in (failing (chk %s %s) cases).\n" % (q1, q2)
        files.append(write(rd / ("cases_%s_%02d.v" % (tag, si // per)), txt))
    return files


def check_constants(ctx, consts):
    hdk, h, k = consts
    for name, got, want in (("h_div_k [cm K]", hdk, H.CODATA["hdk_cmK"]), ("hc [Ry cm]", h, H.CODATA["hc_Ry_cm"]),
                            ("k_B [Ry/K]", k, H.CODATA["k_Ry_K"])):
        rel = abs(Decimal(got) / want - 1)
        ctx.extra.setdefault("constants_vs_CODATA2018", {})[name] = dict(impl=got, codata=float(want), rel=float(rel))
        if rel > Decimal("1e-7"):
            ctx.failure("constant-" + name.split()[0], "%s is %r, CODATA value %s" % (name, got, want),
                        input=name, observed=got, expected=str(want))


def oracle(ctx, meta, limit, which=("zp", "th")):
    """property oracle: value = A/(5e^2)+P/(3e) resp. A/(15 ei ej) (+ P - Pstatic) from derivatives of F_ph"""
    worst = 0.0
    for c, lg, obs in meta[:limit]:
        for ti, T in enumerate(c["temps"]):
            for iv in range(c["nv"]):
                for part in which:
                    got = float(obs[part][iv] if part == "zp" else obs[part][ti][iv])
                    if part == "zp" and ti > 0:
                        continue
                    want = float(H.oracle_value(c, T, iv, lg, part)) if (part == "zp" or T > 0) else 0.0
                    scale = max(abs(want), abs(float(obs["iso"][ti][iv])), 1e-12)
                    err = abs(got - want) / scale
                    worst = max(worst, err)
                    if err > 2e-6 or got != got:
                        ctx.failure("%s-%s" % (part, "long" if lg else "off"),
                                    "%s contribution (%s) is %.10g but strain-derivative formula of F_ph gives %.10g"
                                    % ({"zp": "zero-point", "th": "thermal"}[part],
                                       "longitudinal" if lg else "off-diagonal", got, want),
                                    input=dict(T=T, V=c["vols"][iv], ei=c["ei"][iv], ej=c["ej"][iv],
                                               weights=c["weights"], spectrum=c["sp"].par, na=c["na"]),
                                    expected=want, observed=got)
                # supplied pressure term of the off-diagonal class
                want_iso = float(obs["zp"][iv]) + float(obs["th"][ti][iv]) + \
                    (0.0 if lg else c["P"][ti][iv] - c["Pst"][iv])
                if abs(float(obs["iso"][ti][iv]) - want_iso) > 1e-12 * max(1.0, abs(want_iso)):
                    ctx.failure("iso-sum-%s" % ("long" if lg else "off"),
                                "value_isothermal is not zero-point + thermal%s" % ("" if lg else " + (P - Pstatic)"),
                                input=dict(T=T, V=c["vols"][iv]), expected=want_iso,
                                observed=float(obs["iso"][ti][iv]))
    ctx.extra["oracle_worst_rel_dev"] = worst


def run(ctx):
    rd = ctx.fresh_run_dir()
    ctx.rule = ("duck-typed calculator around the real Longitudinal/OffDiagonal contribution classes; analytic spectra "
                "w(V)=w0 (V/V0)^-g exp(-h/2 ln^2(V/V0)) with 1-4 q-points, 3/6/9 modes, 2-3 volumes, T grids containing "
                "T=0 and T in [5,3000] K, frequencies 30-1500 cm^-1, gamma in [-1,3], V dgamma/dV in [-2,2], e in "
                "(0.05,0.9), unequal weights, garbage in the Gamma-acoustic slots; non-trivial = >=2 q-points with "
                "unequal weights (so weights and mask matter)")
    ctx.trusted += [
        "IEEE rounding of the implementation absorbed by 8e-9 relative tolerance (measured worst deviation in evidence)",
        "f_exp of FOps.v (own exp on primitive floats) - an error there shows up as a disagreement with numpy.exp",
        "pint/scipy unit constants are read from the implementation and compared with CODATA 2018 (1e-7)",
    ]
    ctx.partial += ["that freq/gamma/vdr arrays belong to one interpolant is property C11, here they are inputs"]
    shutil.copy(PROPS / "Prop_C01.v", rd / "Prop_C01.v")
    ctx.prove(rd / "Prop_C01.v", "Prop_C01.v (strain-derivative theorems over R)", "theorem-file", timeout=1800)
    # static tie: model = code text (regenerated + re-proved on every run); failing inputs are searched below
    nonshear_static.static_tie(ctx, rd, groups=nonshear_static.C01_GROUPS)

    n = 40 if ctx.tier == "quick" else 5000
    cases, meta, consts = build_cases(ctx, n)
    check_constants(ctx, consts)
    files = shards(ctx, rd, cases, 20)
    res = ctx.run_shards(files, label="nonshear tie")
    nonshear_static.float_shards(ctx, rd, cases, "C01")
    bad = []
    for fi, f in enumerate(files):
        ok, fl, out = res[f]
        for lst in fl:
            bad += [fi * 20 + i for i in lst if i >= 0]
    for c, lg, obs in meta[:3]:
        ctx.sample(dict(cls="longitudinal" if lg else "off-diagonal", temps=c["temps"], vols=c["vols"],
                        weights=c["weights"], ei=c["ei"], ej=c["ej"], na=c["na"],
                        zero_point=obs["zp"].tolist(), thermal=obs["th"].tolist()))
    # search stage: failing cases first, then a prefix of all cases
    order = [meta[i] for i in bad if i < len(meta)] + meta
    oracle(ctx, order, (len(bad) + (6 if ctx.tier == "quick" else 40)))
