"""C06 - (T,V)->(T,P) conversion evaluates each quantity at the volume where P(T,V)=P.

Static model + theorems (theories/V2PModel.v, V2P.v, props/Prop_C06.v) and a correspondence tie:
  (a) CijPressureBaseInterface on a duck-typed stub, raw qha.v2p.v2p and vectorized_find_nearest
      against the FOps instance of the model (vm_compute, 1e-9 / indices exact / raise <-> None);
  (b) the real Calculator on synthetic data sets: every pressure-base quantity against model
      v2p(volume-base quantity, QHA pressure field, requested grid); V(T,P); the range check decision.
Search stage: an independent oracle written from the property statement (root of P(T,V)=P with a
6-point Neville interpolant along the isotherm, then the same interpolant of the quantity at that volume).
"""
import copy
import importlib
import math
import shutil

import numpy as np

from vlib import PROPS, write, fhex, flist, flist2, blit
import synth

HEADER = r"""
From Coq Require Import ZArith List Bool PrimFloat.
From Cij Require Import Ops FOps V2PModel.
Import ListNotations.
Definition M := list (list float).
(* both NaN (volume-base data already NaN in the stencil) counts as agreement *)
Definition close_nan (a b : float) : bool := (is_nan a && is_nan b) || close9 a b.
Definition agree (model obs : option M) : bool :=
  match model, obs with
  | None, None => true
  | Some a, Some b => all_close2 close_nan a b
  | _, _ => false
  end.
Fixpoint nat_list_eqb (a b : list nat) : bool :=
  match a, b with
  | [], [] => true
  | x :: a', y :: b' => Nat.eqb x y && nat_list_eqb a' b'
  | _, _ => false
  end.
Definition agree_b (model : option bool) (obs : bool) : bool :=
  match model with Some m => Bool.eqb m obs | None => false end.
"""

NAMED = ["bulk_modulus_voigt", "bulk_modulus_reuss", "bulk_modulus_voigt_reuss_hill",
         "shear_modulus_voigt", "shear_modulus_reuss", "shear_modulus_voigt_reuss_hill",
         "primary_velocities", "secondary_velocities"]


# ----------------------------------------------------------------------------------------------
# shard writer
# ----------------------------------------------------------------------------------------------

class Shard:
    """one cases_*.v file: named float literals (deduplicated) + groups of boolean cases"""

    def __init__(self, path):
        self.path = path
        self.defs = []
        self.names = {}
        self.groups = []     # (label, [(coq_bool_term, descr_dict)])

    def _lit(self, arr, kind):
        a = np.ascontiguousarray(np.asarray(arr, dtype=float))
        key = (kind, a.shape, a.tobytes())
        if key not in self.names:
            nm = "%s%d" % (kind, len(self.names))
            if kind == "m":
                self.defs.append("Definition %s : M := %s%%float." % (nm, flist2(a.tolist())))
            else:
                self.defs.append("Definition %s : list float := %s%%float." % (nm, flist(a.tolist())))
            self.names[key] = nm
        return self.names[key]

    def mat(self, arr):
        return self._lit(arr, "m")

    def vec(self, arr):
        return self._lit(arr, "v")

    def obs(self, arr):
        return "None" if arr is None else "(Some %s)" % self.mat(arr)

    def group(self, label):
        g = (label, [])
        self.groups.append(g)
        return g[1]

    def emit(self):
        txt = [HEADER] + self.defs
        for gi, (label, cases) in enumerate(self.groups):
            txt.append("(* %s *)" % label)
            txt.append("Definition g%d : list bool := [\n  %s]." % (gi, ";\n  ".join(t for t, _ in cases)))
            txt.append("Eval vm_compute in (failing (fun b : bool => b) g%d)." % gi)
        write(self.path, "\n".join(txt) + "\n")
        return self.path


def view_term(sh, P, v, pd):
    return "{| vb_pressures := %s; vb_v_array := %s; pb_p_array := %s |}" % (sh.mat(P), sh.vec(v), sh.vec(pd))


# ----------------------------------------------------------------------------------------------
# independent oracle (plain floats, written from the property statement; no Coq model involved)
# ----------------------------------------------------------------------------------------------

def neville(xs, ys, x):
    p = list(ys)
    n = len(xs)
    for m in range(1, n):
        for i in range(n - m):
            p[i] = ((x - xs[i + m]) * p[i] + (xs[i] - x) * p[i + 1]) / (xs[i] - xs[i + m])
    return p[0]


def stencil(n, k, w):
    """w consecutive indices centred on the cell [k, k+1], clipped to [0, n)"""
    s = min(max(k - (w // 2 - 1), 0), n - w)
    return list(range(s, s + w))


def root_volume(v, prow, p, w):
    """V* with P_w(V*) = p where P_w is the w-point polynomial interpolant of the isotherm around the
    cell that brackets p; None if p is outside [P_0, P_last)"""
    n = len(prow)
    k = None
    for i in range(n - 1):
        if prow[i] <= p < prow[i + 1]:
            k = i
            break
    if k is None:
        return None, None
    idx = stencil(n, k, w)
    xs = [v[i] for i in idx]
    ps = [prow[i] for i in idx]
    a, b = v[k], v[k + 1]          # P(a) <= p < P(b)
    if prow[k] == p:
        return a, idx
    for _ in range(200):
        m = 0.5 * (a + b)
        if m == a or m == b:
            break
        if neville(xs, ps, m) <= p:
            a = m
        else:
            b = m
    return 0.5 * (a + b), idx


class Oracle:
    """per pressure field: roots V*(t, p) at two interpolation orders"""

    def __init__(self, v, P, pd):
        self.v = [float(x) for x in v]
        self.P = [[float(x) for x in r] for r in P]
        self.pd = [float(x) for x in pd]
        self.ok = len(self.v) >= 6 and all(len(r) == len(self.v) for r in self.P)
        self.roots = {}
        if self.ok:
            for t, prow in enumerate(self.P):
                for j, p in enumerate(self.pd):
                    self.roots[t, j] = (root_volume(self.v, prow, p, 6), root_volume(self.v, prow, p, 4))

    def in_range(self):
        return self.ok and all(r[0][0] is not None for r in self.roots.values())

    def expected(self, f):
        """per (t, j): (6-point value in V at the 6-point root, spread) where spread is the largest pairwise
        distance between four independent interpolants of the isotherm: orders 6 and 4, parametrised by V
        (evaluated at the root of the same-order interpolant of P) and parametrised by P (evaluated at p).
        None where a stencil holds non-finite data."""
        nt, npd = len(self.P), len(self.pd)
        val = [[None] * npd for _ in range(nt)]
        spread = [[None] * npd for _ in range(nt)]
        for t in range(nt):
            frow = [float(x) for x in f[t]]
            for j in range(npd):
                (v6, i6), (v4, i4) = self.roots[t, j]
                if not all(math.isfinite(frow[i]) for i in i6):
                    continue
                q6v = neville([self.v[i] for i in i6], [frow[i] for i in i6], v6)
                q4v = neville([self.v[i] for i in i4], [frow[i] for i in i4], v4)
                q6p = neville([self.P[t][i] for i in i6], [frow[i] for i in i6], self.pd[j])
                q4p = neville([self.P[t][i] for i in i4], [frow[i] for i in i4], self.pd[j])
                val[t][j] = q6v
                spread[t][j] = max(abs(q6v - q4v), abs(q6p - q4p), abs(q6v - q6p))
        return val, spread


# tolerance of the between-node clause, per grid point:
#   C_TOL * spread(t, j) + R_TOL * max|q| on the isotherm
# (the implementation's own 4-point Lagrange value is mathematically the 4-point interpolant in P, so by the
#  triangle inequality a correct implementation is within 2 * spread of the 6-point value in V: no false alarm)
C_TOL = 4.0
R_TOL = 1e-9


def oracle_compare(orc, f, got):
    """returns (bad, nskipped, tol): bad = list of (t, j, expected, observed, tol) where the property fails"""
    bad, skipped = [], 0
    val, spread = orc.expected(f)
    tols = [[None] * len(val[0]) for _ in val]
    for t in range(len(val)):
        fin = [abs(float(x)) for x in f[t] if math.isfinite(float(x))]
        scale = max(fin) if fin else 1.0
        for j in range(len(val[t])):
            if val[t][j] is None or not math.isfinite(val[t][j]) or not math.isfinite(spread[t][j]):
                skipped += 1
                continue
            tol = C_TOL * spread[t][j] + R_TOL * scale
            tols[t][j] = tol
            g = float(got[t][j])
            if not (abs(g - val[t][j]) <= tol):
                bad.append((t, j, val[t][j], g, tol))
    return bad, skipped, tols


# ----------------------------------------------------------------------------------------------
# helpers
# ----------------------------------------------------------------------------------------------

def observe(fn):
    try:
        r = fn()
    except Exception as e:
        return None, "%s: %s" % (type(e).__name__, str(e)[:120])
    try:
        r = np.asarray(r, dtype=float)
    except Exception as e:
        return None, "not-an-array %s" % type(e).__name__
    if r.ndim != 2:
        return None, "ndim=%d" % r.ndim
    return r, None


class NS:
    def __init__(self, **kw):
        self.__dict__.update(kw)


def smooth_field(rng, nt, v, kind):
    """random smooth function of (t, V/v0) on the grid"""
    v0 = v[0]
    a = [rng.uniform(-1, 1) for _ in range(5)]
    off = rng.uniform(0.5, 3.0) * rng.choice([1, 10, 0.01])
    rows = []
    for t in range(nt):
        row = []
        for x in v:
            u = v0 / x
            row.append(off * (1 + 0.4 * a[0] * u + 0.2 * a[1] * u * u + 0.05 * a[2] * math.sin(3 * u + a[3])
                              + 0.03 * a[4] * t * u))
        rows.append(row)
    return np.array(rows)


def smooth_pressure(rng, nt, v):
    v0 = v[0] * rng.uniform(0.8, 0.95)
    b0 = rng.uniform(0.005, 0.02)
    bp = rng.uniform(3.5, 5.0)
    th = rng.uniform(1e-5, 2e-4)
    rows = []
    for t in range(nt):
        row = []
        for x in v:
            e = (v0 / x) ** (1.0 / 3.0)
            row.append(1.5 * b0 * (e ** 7 - e ** 5) * (1 + 0.75 * (bp - 4) * (e * e - 1)) + th * t * (1 + 0.1 * e))
        rows.append(row)
    return np.array(rows)


def rough_rows(rng, nt, n, scale):
    rows = []
    for t in range(nt):
        x = rng.uniform(-1, 1) * scale
        row = []
        for _ in range(n):
            row.append(x)
            x += rng.uniform(0.02, 1.0) * scale
        rows.append(row)
    return np.array(rows)


def pick_pd(rng, P, npd, mode):
    lo = float(P[:, 0].max())
    hi = float(P[:, -1].min())
    n = P.shape[1]
    if mode == "inside":
        pts = sorted(rng.uniform(lo, hi) for _ in range(npd))
        pts = [p for p in pts if lo <= p < hi]
    elif mode == "edges":
        # first and last cell of some row, exact nodes of row 0
        t = rng.randrange(P.shape[0])
        pts = [lo, rng.uniform(lo, max(lo, float(P[:, 1].min()))), float(np.nextafter(hi, -np.inf))]
        pts += [float(P[0, k]) for k in rng.sample(range(n), min(3, n))]
        pts += [rng.uniform(max(lo, float(P[:, -2].max())), hi) if P[:, -2].max() < hi else hi * 0.999999]
        pts = [p for p in pts if lo <= p < hi]
    else:  # "outside": at least one point outside the range of some row
        pts = [rng.uniform(lo, hi) for _ in range(max(1, npd - 2))]
        pts.append(rng.choice([float(P[:, 0].min()) - abs(lo) * 0.1 - 1e-3, hi, float(P[:, -1].max()) * 1.1 + 1e-3,
                               float(P[rng.randrange(P.shape[0]), -1])]))
        rng.shuffle(pts)
    return np.array(pts if pts else [0.5 * (lo + hi)])


# ----------------------------------------------------------------------------------------------
# (a) stub tie
# ----------------------------------------------------------------------------------------------

def stub_tie(ctx, rd, CALC, nstub):
    import qha.v2p
    import qha.tools
    files = []
    info = []
    per = 6
    for s0 in range(0, nstub, per):
        sh = Shard(rd / ("cases_stub_%02d.v" % (s0 // per)))
        g_iface = sh.group("CijPressureBaseInterface on stubs")
        g_raw = sh.group("raw qha.v2p.v2p")
        g_idx = sh.group("vectorized_find_nearest indices")
        for si in range(s0, min(nstub, s0 + per)):
            nt = ctx.rng.randint(1, 4)
            n = ctx.rng.choice([4, 5, 6, 7, 9, 12, 15])
            if si % 4 == 3 and n <= 9:
                nt = n                      # square field: as many isotherms as volumes
            ctx.count("stub field %s" % ("square (nt == nv)" if nt == n else "rectangular"))
            smooth = n >= 6 and ctx.rng.random() < 0.6
            mode = ctx.rng.choice(["inside", "inside", "edges", "outside"])
            v = np.array([300.0 * (1.25 - 0.5 * k / (n - 1)) for k in range(n)])       # decreasing
            if smooth:
                P = smooth_pressure(ctx.rng, nt, v)
                mk = lambda: smooth_field(ctx.rng, nt, v, "q")
            else:
                P = rough_rows(ctx.rng, nt, n, ctx.rng.choice([1e-3, 1.0, 50.0]))
                mk = lambda: rough_rows(ctx.rng, nt, n, 1.0) * ctx.rng.choice([-1, 1])
            if not np.all(np.diff(P, axis=1) > 0):
                continue
            pd = pick_pd(ctx.rng, P, ctx.rng.randint(1, 8), mode)
            keys = ["k11", "k12", "k44"]
            vbq = {nm: mk() for nm in NAMED + ["c11", "c12s", "c44t", "s11", "anything_else"]}
            mod_s = {k: mk() for k in keys}
            mod_t = {k: mk() for k in keys}
            vtp = mk()[:, :1].repeat(len(pd), axis=1)
            vb = NS(pressures=P, v_array=v, t_array=np.arange(nt) * 100.0, modulus_adiabatic=mod_s,
                    modulus_isothermal=mod_t, mass=1.0, **vbq)
            qvb = NS(pressures=P, v_array=v, t_array=vb.t_array)
            qpb = NS(p_array=pd, t_array=vb.t_array, volumes=vtp)
            stub = NS(qha_calculator=NS(volume_base=qvb, pressure_base=qpb, v_array=v, t_array=vb.t_array),
                      volume_base=vb, volume_based_result=vb, modulus_adiabatic=mod_s, modulus_isothermal=mod_t,
                      modulus_keys=keys)
            pb = CALC.CijPressureBaseInterface(stub)
            stub.pressure_base = stub.pressure_based_result = pb
            view = view_term(sh, P, v, pd)
            orc = Oracle(v, P, pd) if smooth else None
            inr = bool(P[:, 0].max() <= pd.min() and pd.max() < P[:, -1].min())
            ctx.count("stub fields: %s, pd %s" % ("smooth" if smooth else "rough", mode))

            calls = [("v2p(f)", lambda f=vbq["anything_else"]: pb.v2p(f), vbq["anything_else"]),
                     ("v2p(pressures)", lambda: pb.v2p(P), P)]
            for k in keys:
                calls.append(("modulus_adiabatic[%s]" % k, lambda k=k: pb.modulus_adiabatic[k], mod_s[k]))
                calls.append(("modulus_isothermal[%s]" % k, lambda k=k: pb.modulus_isothermal[k], mod_t[k]))
            calls.append(("modulus_adiabatic.items()[last]",
                          lambda: list(pb.modulus_adiabatic.items())[-1][1], mod_s[keys[-1]]))
            for nm in vbq:
                calls.append(("%s" % nm, lambda nm=nm: getattr(pb, nm), vbq[nm]))
            for what, fn, f in calls:
                got, err = observe(fn)
                g_iface.append(("agree (pressure_base %s %s) %s" % (view, sh.mat(f), sh.obs(got)),
                                dict(stub=si, call="pressure_base." + what, raised=err)))
                ctx.case(["stub", si, what], nontrivial=True)
                info.append(dict(kind="stub", stub=si, call=what, f=f, got=got, err=err, orc=orc, inr=inr,
                                 P=P, pd=pd, v=v, exact=(what == "v2p(pressures)")))
            # pass-through of V(T,P)
            got, err = observe(lambda: pb.volumes)
            same = got is not None and got.shape == vtp.shape and np.array_equal(got, vtp)
            ctx.obligation("stub %d: pressure_base.volumes is the QHA pressure-base V(T,P)" % si, "pass-through", same,
                           err or "")
            if not same:
                ctx.failure("pressure_base.volumes", "pressure_base.volumes is not qha pressure_base.volumes on a stub"
                            " (%s)" % (err or "different values"),
                            input=dict(stub=si, qha_pressure_base_volumes=vtp.tolist()), expected=vtp.tolist(),
                            observed=None if got is None else got.tolist())
            try:
                same = pb.p_array is pd and pb.t_array is qpb.t_array
            except Exception as e:
                same = False
            ctx.obligation("stub %d: p_array/t_array are the QHA pressure-base arrays" % si, "pass-through", same)
            if not same:
                ctx.failure("pressure_base.p_array", "p_array/t_array are not the QHA pressure-base arrays",
                            input=dict(stub=si))

            # raw qha.v2p.v2p on the same field (no cij code involved: validates the transcription)
            f = vbq["c11"]
            got, err = observe(lambda: qha.v2p.v2p(f, P, pd))
            g_raw.append(("agree (v2p %s %s %s) %s" % (sh.mat(f), sh.mat(P), sh.vec(pd), sh.obs(got)),
                          dict(stub=si, call="qha.v2p.v2p", raised=err)))
            ctx.case(["raw", si])
            # indices on the padded rows (so that the guards would answer differently from the loop)
            for t in range(nt):
                ext = np.hstack((P[t, 3:4], P[t], P[t, -4:-3]))
                vals = np.concatenate((pd, P[t, :], [P[t, 0] - 1.0, P[t, -1] + 1.0, P[t, 3], P[t, -4]]))
                rs = np.zeros(len(vals))
                qha.tools.vectorized_find_nearest(ext, vals, rs)
                g_idx.append(("nat_list_eqb (find_nearest_all %s %s) [%s]%%nat"
                              % (sh.vec(ext), sh.vec(vals), "; ".join(str(int(x)) for x in rs)),
                              dict(stub=si, call="vectorized_find_nearest", row=t)))
                ctx.case(["idx", si, t])
        files.append(sh)
    return files, info


# The range check uses `<`, the bracket needs p < P_last: a grid whose top EQUALS min_T P[T][last] is accepted and
# then every conversion raises "not enough values to unpack" (theorem C06_accepted_boundary_grid_is_undefined).
# Recorded in the evidence as an observation; set to True to report it through the finding protocol.
REPORT_BOUNDARY_AS_FINDING = False


# ----------------------------------------------------------------------------------------------
# (b) real Calculator
# ----------------------------------------------------------------------------------------------

def hand_qha(settings_path):
    """QHACalculator exactly as QHACalculatorAdapter._load_qha_calculator builds it, up to refine_grid
    (i.e. without the range check)"""
    import cij.io
    import cij.core.qha_adapter as QA
    from qha.settings import DEFAULT_SETTINGS
    cfg = cij.io.apply_default_config(cij.io.read_config(settings_path))
    qi = cij.io.traditional.read_energy(settings_path.parent / cfg["qha"]["input"])
    us = copy.copy(DEFAULT_SETTINGS)
    us.update(cfg["qha"]["settings"])
    q = QA.QHACalculator(us)
    q.read_input(qi)
    q.refine_grid()
    return q


def calc_quantities(c):
    vb, pb = c.volume_base, c.pressure_base
    out = []
    for key in c.modulus_keys:
        v = "%d%d" % tuple(key.voigt)
        out.append(("modulus_adiabatic[c%s]" % v, lambda key=key: pb.modulus_adiabatic[key], vb.modulus_adiabatic[key]))
        out.append(("modulus_isothermal[c%s]" % v, lambda key=key: pb.modulus_isothermal[key],
                    vb.modulus_isothermal[key]))
        out.append(("c%s" % v, lambda v=v: getattr(pb, "c" + v), getattr(vb, "c" + v)))
        out.append(("c%ss" % v, lambda v=v: getattr(pb, "c" + v + "s"), vb.modulus_adiabatic[key]))
        out.append(("c%st" % v, lambda v=v: getattr(pb, "c" + v + "t"), vb.modulus_isothermal[key]))
    for key in sorted(c._compliances.keys(), key=lambda k: tuple(k.voigt)):
        v = "%d%d" % tuple(key.voigt)
        out.append(("s%s" % v, lambda v=v: getattr(pb, "s" + v), getattr(vb, "s" + v)))
    for nm in NAMED:
        out.append((nm, lambda nm=nm: getattr(pb, nm), getattr(vb, nm)))
    out.append(("v2p(volume_base.pressures)", lambda: pb.v2p(vb.pressures), vb.pressures))
    return out


def make_plans(ctx, rd, ncalc):
    """[(ci, dataset, [(label, qha settings)])]: grids whose top is placed relative to the reachable range"""
    plans = []
    for ci in range(ncalc):
        # every second data set has negative mode Grueneisen parameters: thermal pressure falls with T, so the
        # isotherm that bounds the reachable range at the compressed end is the hottest one, not T[0]
        soft = ci % 2 == 1
        ds = synth.make_dataset(ctx.rng, nv=ctx.rng.choice([5, 6, 7]), nq=ctx.rng.choice([1, 2, 3]),
                                spectrum=ctx.rng.choice(["powerlaw", "curved"]),
                                grun=(-2.2, -0.4) if soft else (0.4, 2.2))
        ntv = ctx.rng.choice([8, 10, 12, 15])
        nt = ctx.rng.randint(3, 4) if soft else ctx.rng.randint(1, 4)
        if ci % 3 == 2:      # square grid: as many temperature rows (NT + the 4 rows QHA appends) as pressures / volumes
            nt = ntv - 4
        ctx.count("(T,V) grid %s" % ("square (NT+4 == NTV)" if nt + 4 == ntv else "rectangular"))
        base = dict(NT=nt, NTV=ntv, DT=ctx.rng.choice([100, 250]), volume_ratio=ctx.rng.choice([1.15, 1.2, 1.3]))
        base["DT_SAMPLE"] = base["DT"]
        d = rd / ("calc_%02d" % ci)
        sp = synth.write_case(d, ds, synth.default_settings(qha=dict(settings=dict(base, P_MIN=0, DELTA_P=1.0,
                                                                                    DELTA_P_SAMPLE=1.0))))
        q0 = hand_qha(sp)
        lo_top, hi_top = float(q0.p_tv_gpa[:, -1].min()), float(q0.p_tv_gpa[:, -1].max())
        bot = float(q0.p_tv_gpa[:, 0].max())
        ctx.count("data sets whose min_T P[T][last] is attained at row %s" %
                  ("0 (coldest)" if int(np.argmin(q0.p_tv_gpa[:, -1])) == 0 else ">0 (thermal pressure falls with T)"))
        targets = [("deep-inside", 0.35 * lo_top), ("just-below-min", lo_top * (1 - 1e-4)),
                   ("between-min-and-max", 0.5 * (lo_top + hi_top)), ("just-above-max", hi_top * (1 + 1e-4)),
                   ("far-above", 1.7 * hi_top)]
        if ci % 3 == 0 or ctx.tier != "quick":
            targets.append(("exactly-min", lo_top))      # boundary: top of the grid == min_T P[T][last]
        if ctx.tier != "quick":
            targets += [("inside", ctx.rng.uniform(0.2, 0.95) * lo_top), ("above", ctx.rng.uniform(1.0, 1.3) * hi_top)]
        cases = []
        for label, pmax in targets:
            pmin = ctx.rng.choice([0.0, 0.0, 2.5, max(bot * 0.5, -8.0)])
            if label == "exactly-min":
                pmin = 0.0
            dp = (pmax - pmin) / (ntv - 1)
            cases.append((label, dict(base, P_MIN=pmin, DELTA_P=dp, DELTA_P_SAMPLE=dp)))
        # descending grids (DELTA_P < 0: the grid starts at its highest pressure): same range rule, same conversion
        for label, top in (("descending-inside", 0.6 * lo_top), ("descending-overshoot", 0.5 * (lo_top + hi_top) if hi_top > lo_top
                                                                   else lo_top * (1 + 1e-3)),
                           ("descending-far-above", 1.5 * hi_top)):
            dp = -(top - 0.0) / (ntv - 1)
            cases.append((label, dict(base, P_MIN=top, DELTA_P=dp, DELTA_P_SAMPLE=dp)))
        plans.append((ci, ds, cases))
    return plans


def real_tie(ctx, rd, plans):
    files, info, rinfo = [], [], []
    for ci, ds, cases in plans:
        sh = Shard(rd / ("cases_calc_%02d.v" % ci))
        g_q = sh.group("Calculator.pressure_base.<q> vs model v2p(volume_base.<q>)")
        g_v = sh.group("pressure_base.volumes vs model pb_volumes")
        g_r = sh.group("range check decision")
        d = rd / ("calc_%02d" % ci)
        for label, st in cases:
            sp = synth.write_case(d, ds, synth.default_settings(qha=dict(settings=st)))
            inp = dict(calc=ci, settings=st, target=label)
            qh = hand_qha(sp)
            ptv, dgp = np.array(qh.p_tv_gpa), np.array(qh.desired_pressures_gpa)
            try:
                c = synth.run_calculator(sp)
                raised = None
            except Exception as e:
                c = None
                raised = "%s: %s" % (type(e).__name__, str(e)[:100])
            accepted = c is not None
            is_value_error = raised is not None and raised.startswith("ValueError")
            g_r.append(("agree_b (pressure_status %s %s) %s" % (sh.mat(ptv), sh.vec(dgp), blit(accepted)),
                        dict(inp, call="desired_pressure_status", observed=raised or "accepted")))
            ctx.case(["range", ci, label, st])
            ctx.count("range check: %s" % label)
            rinfo.append(dict(inp=inp, ds=ds, ptv=ptv, dgp=dgp, accepted=accepted, raised=raised,
                              is_value_error=is_value_error))
            if c is None:
                continue
            vb, pb = c.volume_base, c.pressure_base
            P, pd, v = np.array(vb.pressures), np.array(pb.p_array), np.array(vb.v_array)
            # the field the check saw is the field the conversion uses (same object up to units)
            same_field = np.array_equal(np.array(c.qha_calculator.calculator.p_tv_gpa), ptv)
            ctx.obligation("calc %d %s: hand-built QHACalculator reproduces p_tv_gpa" % (ci, label), "harness",
                           same_field)
            inr = bool(P[:, 0].max() <= pd.min() and pd.max() < P[:, -1].min())
            if not inr:
                # accepted although not inside [P_0, P_last) at every T (p_max == min P_last passes the `<` check,
                # or a mutant): the conversions are expected to raise, exactly where the model returns None
                ctx.count("accepted grids not inside [P_0, P_last) at every T")
                _, err = observe(lambda: pb.v2p(vb.pressures))
                ctx.extra.setdefault("accepted_but_not_convertible", []).append(dict(
                    settings=st, target=label, grid_top_gpa=float(dgp.max()), min_T_P_last_gpa=float(ptv[:, -1].min()),
                    grid_top_au=float(pd.max()), min_T_P_last_au=float(P[:, -1].min()),
                    first_conversion=err or "returned"))
                if REPORT_BOUNDARY_AS_FINDING and float(dgp.max()) == float(ptv[:, -1].min()) and err:
                    ctx.failure("boundary:grid-top-equals-min-P-last",
                                "grid whose top equals min_T P[T][last] = %r GPa passes the range check but every "
                                "conversion raises %s" % (float(dgp.max()), err), input=dict(inp, dataset=ds),
                                expected="converted or rejected at construction", observed=err)
            view = view_term(sh, P, v, pd)
            orc = Oracle(v, P, pd)
            for what, fn, f in calc_quantities(c):
                got, err = observe(fn)
                g_q.append(("agree (pressure_base %s %s) %s" % (view, sh.mat(f), sh.obs(got)),
                            dict(inp, call="pressure_base." + what, raised=err)))
                ctx.case(["calc", ci, label, what])
                info.append(dict(kind="calc", inp=inp, ds=ds, call=what, f=np.array(f), got=got, err=err, orc=orc, inr=inr,
                                 P=P, pd=pd, v=v, exact=what.startswith("v2p(volume_base.pressures")))
            got, err = observe(lambda: pb.volumes)
            g_v.append(("agree (pb_volumes %s) %s" % (view, sh.obs(got)), dict(inp, call="pressure_base.volumes",
                                                                                  raised=err)))
            ctx.case(["calc", ci, label, "volumes"])
            info.append(dict(kind="calc", inp=inp, ds=ds, call="volumes", f=np.tile(v, (P.shape[0], 1)), got=got, err=err,
                             orc=orc, inr=inr, P=P, pd=pd, v=v, exact=False, volumes=True))
            ctx.count("calculators converted (nt=%d rows)" % P.shape[0])
            if ci == 0 and label == "deep-inside":
                c11, _ = observe(lambda: pb.c11)
                ctx.sample(dict(settings=st, p_array_au=pd.tolist()[:4], P_row0_au=P[0].tolist()[:4],
                                c11_tp_row0=None if c11 is None else c11[0].tolist()[:4]))
        files.append(sh)
    return files, info, rinfo


# ----------------------------------------------------------------------------------------------
# search stage
# ----------------------------------------------------------------------------------------------

def search(ctx, info, rinfo):
    stats = dict(max_ratio=0.0, max_rel_PV=0.0, max_rel_tol=0.0, n_between=0, n_exact=0, n_mono=0, n_skipped_nonfinite=0, rel_tols=[])
    for r in info:
        site = "pressure_base." + r["call"].split("[")[0].split("(")[0]
        if r["kind"] == "stub":
            inp = dict(stub=r["stub"], call=r["call"], P=r["P"].tolist(), p_array=r["pd"].tolist(),
                       f=np.asarray(r["f"]).tolist())
        else:
            inp = dict(r["inp"], call=r["call"], dataset=r["ds"])
        if not r["inr"]:
            continue        # outside the quantifier of the property (model/impl agreement is the shard's job)
        if r["got"] is None:
            ctx.failure(site + ":raises", "in-range conversion raised %s" % r["err"], input=inp,
                        expected="array", observed=r["err"])
            continue
        got = r["got"]
        nt, npd = r["P"].shape[0], len(r["pd"])
        if got.shape != (nt, npd):
            ctx.failure(site + ":shape", "result has shape %s, expected %s" % (got.shape, (nt, npd)), input=inp,
                        expected=[nt, npd], observed=list(got.shape))
            continue
        if r["exact"]:
            # converting the pressure field itself returns the requested pressures (exact up to rounding)
            stats["n_exact"] += 1
            want = np.tile(r["pd"], (nt, 1))
            scale = np.abs(r["P"]).max()
            if not np.all(np.abs(got - want) <= 1e-9 * scale):
                t, j = np.unravel_index(np.argmax(np.abs(got - want)), got.shape)
                ctx.failure(site + ":pressure-field", "v2p(pressures)[%d][%d] = %r, requested pressure %r"
                            % (t, j, float(got[t, j]), float(want[t, j])), input=inp, expected=float(want[t, j]),
                            observed=float(got[t, j]))
            continue
        orc = r["orc"]
        if orc is None or not orc.ok:
            continue
        bad, skipped, tols = oracle_compare(orc, r["f"], got)
        stats["n_between"] += 1
        stats["n_skipped_nonfinite"] += skipped
        val, spread = orc.expected(r["f"])
        for t in range(nt):
            for j in range(npd):
                if tols[t][j]:
                    rel = abs(float(got[t][j]) - val[t][j]) / tols[t][j]
                    stats["max_ratio"] = max(stats["max_ratio"], rel)
                    fin = [abs(float(x)) for x in r["f"][t] if math.isfinite(float(x))]
                    stats["max_rel_tol"] = max(stats["max_rel_tol"], tols[t][j] / (max(fin) or 1.0))
                    stats["rel_tols"].append(tols[t][j] / (max(fin) or 1.0))
        if bad:
            t, j, want, g, tol = bad[0]
            ctx.failure(site, "%s at (t=%d, p=%r): %r, but the volume-base quantity at the volume where P(T,V)=p "
                        "is %r (tolerance %.3g)" % (r["call"], t, float(r["pd"][j]), g, want, tol),
                        input=dict(inp, t=t, j=j), expected=want, observed=g)
        if r.get("volumes"):
            # P(T, V(T,P)) = P and V decreasing in P  (measured)
            stats["n_mono"] += 1
            pdv = r["pd"]
            order = np.argsort(pdv, kind="stable")
            for t in range(nt):
                vs = got[t][order]
                ps = pdv[order]
                for a in range(len(vs) - 1):
                    if ps[a] < ps[a + 1] and not vs[a] > vs[a + 1]:
                        ctx.failure("volumes:not-decreasing", "V(T,P) not decreasing in P at t=%d: V(%r)=%r, V(%r)=%r"
                                    % (t, float(ps[a]), float(vs[a]), float(ps[a + 1]), float(vs[a + 1])),
                                    input=dict(inp, t=t), expected="decreasing", observed=[float(vs[a]), float(vs[a + 1])])
                        break
                for j in range(npd):
                    (v6, i6), _ = orc.roots[t, j]
                    if tols[t][j] is None:
                        continue
                    x = float(got[t][j])
                    pv = neville([orc.v[i] for i in i6], [orc.P[t][i] for i in i6], x)
                    slope = max(abs((orc.P[t][i6[a + 1]] - orc.P[t][i6[a]]) / (orc.v[i6[a + 1]] - orc.v[i6[a]]))
                                for a in range(5))
                    tol_p = 2.0 * slope * tols[t][j]
                    scale = max(abs(orc.P[t][i]) for i in i6)
                    stats["max_rel_PV"] = max(stats["max_rel_PV"], abs(pv - orc.pd[j]) / scale)
                    if not abs(pv - orc.pd[j]) <= tol_p:
                        ctx.failure("volumes:P(V(T,P))", "P(T,V(T,P)) = %r differs from P = %r at t=%d (tolerance %.3g)"
                                    % (pv, orc.pd[j], t, tol_p), input=dict(inp, t=t, j=j), expected=orc.pd[j],
                                    observed=pv)
                        break
    # range check, from the statement: reject iff the grid extends above the pressure reachable at every
    # temperature, i.e. some requested pressure exceeds P[t][last] for some t
    for r in rinfo:
        r["inp"] = dict(r["inp"], dataset=r["ds"])
        over = any(p > row[-1] for row in r["ptv"].tolist() for p in r["dgp"].tolist())
        if over and r["accepted"]:
            ctx.failure("range-check:accepted-overshoot",
                        "grid up to %r GPa accepted although min_T P[T][last] = %r GPa"
                        % (float(r["dgp"].max()), float(r["ptv"][:, -1].min())), input=r["inp"],
                        expected="ValueError", observed="accepted")
        elif over and not r["is_value_error"]:
            ctx.failure("range-check:wrong-error", "over-range grid raised %s instead of ValueError" % r["raised"],
                        input=r["inp"], expected="ValueError", observed=r["raised"])
        elif not over and not r["accepted"]:
            ctx.failure("range-check:rejected-in-range",
                        "grid up to %r GPa rejected (%s) although every P[T][last] >= %r GPa"
                        % (float(r["dgp"].max()), r["raised"], float(r["ptv"][:, -1].min())), input=r["inp"],
                        expected="accepted", observed=r["raised"])
    return stats


# ----------------------------------------------------------------------------------------------

def run(ctx):
    rd = ctx.fresh_run_dir()
    quick = ctx.tier == "quick"
    ctx.rule = ("(a) random duck-typed stubs: nt 1..4 rows, 4..15 columns, strictly increasing pressure rows that are "
                "either smooth (Birch-Murnaghan-like) or rough (random positive increments), a distinct random field "
                "for every quantity name, requested pressures inside / at nodes and in the first and last cell / partly "
                "outside (both sides must then fail); (b) synthetic data sets (tools/synth.py) run through the real "
                "Calculator with NT<=4, NTV<=15 and pressure grids whose top is placed deep inside, just below "
                "min_T P[T][last], between min and max of P[T][last], just above and far above. A case is one converted "
                "quantity matrix (or one index row / one range decision); all are non-trivial.")
    ctx.trusted += [
        "hand transcription of qha 1.1.3 v2p/_lagrange4/vectorized_find_nearest and of the cij accessors into "
        "theories/V2PModel.v - validated on every run by the correspondence shards (indices exact, values 1e-9, "
        "raise <-> None)",
        "IEEE binary64 evaluation of the model by Coq primitive floats vs numba/numpy: compared with rel 1e-9 + abs 1e-12",
        "model covers equal shapes of quantity and pressure field and NaN-free data; numpy broadcasting of "
        "mismatched shapes is not modelled",
        "the QHA computation of P(T,V) itself (free energy fit, pressure derivative) is an input here (see C05)",
    ]
    ctx.partial += [
        "between-node accuracy for non-cubic data is a MEASUREMENT: pressure_base.q is compared with a 6-point "
        "Neville evaluation of volume_base.q at the root of the 6-point interpolant of P(T,V)=P, tolerance per grid "
        "point %g x spread + %g x max|q| where spread is the largest distance between the 6- and 4-point "
        "interpolants parametrised by V and by P (grid points whose stencil holds NaN are skipped and counted); "
        "the theorems cover cubic data (exact) and nodes (exact)" % (C_TOL, R_TOL),
        "monotone decrease of V(T,P) in P and P(T,V(T,P))=P between nodes are MEASURED on every run "
        "(properties of the data, not of the conversion); at nodes P(T,V(T,P))=P is the theorem v2p_at_node",
    ]
    ctx.assumptions += [
        "rows of the pressure field strictly increasing along the volume index (QHA volumes decreasing)",
        "requested pressures inside [max_T P[T][0], min_T P[T][last]) for the conversion theorems",
    ]

    import logging
    logging.disable(logging.CRITICAL)
    import cij.core.calculator as CALC
    importlib.reload(CALC)

    import time
    tm = {}
    t0 = time.time()
    shards, info = stub_tie(ctx, rd, CALC, 18 if quick else 600)
    tm["stub_tie_s"] = round(time.time() - t0, 2)
    t0 = time.time()
    plans = make_plans(ctx, rd, 6 if quick else 120)
    rp = getattr(ctx, "replay_in", None)
    fi = ((rp or {}).get("failing_input") or {}).get("input")
    if isinstance(fi, dict) and "dataset" in fi and "settings" in fi:
        # ./check C06 --replay file: re-run the recorded data set and settings first
        ds = fi["dataset"]
        ds["qha"]["weights"] = [(tuple(c), w) for c, w in ds["qha"]["weights"]]
        for v in ds["qha"]["volumes"]:
            v["q_points"] = [(tuple(c), m) for c, m in v["q_points"]]
        plans.insert(0, (99, ds, [("replay", fi["settings"])]))
    cshards, cinfo, rinfo = real_tie(ctx, rd, plans)
    tm["calculator_tie_s"] = round(time.time() - t0, 2)
    files = [sh.emit() for sh in shards + cshards]

    shutil.copy(PROPS / "Prop_C06.v", rd / "Prop_C06.v")
    ctx.prove(rd / "Prop_C06.v", "Prop_C06.v (theorems about V2PModel at ROps)", "theorem-file")
    # static tie: the raise condition of desired_pressure_status re-translated and proved equal to pressure_status
    from props import prange_static
    prange_static.static_tie(ctx, rd)

    tm["theorems_s"] = round(time.time() - t0 - tm["calculator_tie_s"], 2)
    t0 = time.time()
    res = ctx.run_shards(files, label="tie")
    tm["shards_coq_s"] = round(time.time() - t0, 2)
    t0 = time.time()
    tie_failing = []
    for sh in shards + cshards:
        ok, fl, out = res[sh.path]
        for (label, cases), idxs in zip(sh.groups, fl):
            for i in idxs:
                tie_failing.append(dict(group=label, **{k: v for k, v in cases[i][1].items()}))
    if tie_failing:
        ctx.extra["tie_failing"] = tie_failing[:40]

    stats = search(ctx, info + cinfo, rinfo)
    tm["search_stage_s"] = round(time.time() - t0, 2)
    ctx.extra["timings"] = tm
    ctx.extra["measured"] = dict(
        between_node_worst_deviation_over_tolerance=stats["max_ratio"], tolerance_factor=C_TOL,
        between_node_largest_relative_tolerance=stats["max_rel_tol"],
        between_node_median_relative_tolerance=(sorted(stats["rel_tols"])[len(stats["rel_tols"]) // 2]
                                                if stats["rel_tols"] else None),
        between_node_grid_points=len(stats["rel_tols"]),
        between_node_grid_points_with_relative_tolerance_below_1e_3=sum(1 for x in stats["rel_tols"] if x < 1e-3),
        grid_points_skipped_nonfinite_stencil=stats["n_skipped_nonfinite"],
        P_of_V_of_P_worst_relative_deviation=stats["max_rel_PV"],
        matrices_compared_between_nodes=stats["n_between"], pressure_field_identities=stats["n_exact"],
        volume_matrices_checked_for_monotone_decrease=stats["n_mono"])
