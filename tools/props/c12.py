"""C12 - results are finite and real on the whole grid for every valid configuration.

Tie (a): the real Longitudinal/OffDiagonal contribution classes behind a duck-typed calculator on
temperature grids T_MIN >= 0, DT in {0.5, 1, 5, 50, 500} and arbitrarily low T > 0; the IEEE value CLASS
(finite / nan / +-inf) of every output and, where finite, its value are compared inside Coq with the
binary64 instance of NonShearModel.v, using the Bose-factor form (exp(-Q) or exp(+Q)) that is found in
the source on disk.  Tie (b) / search: real Calculator sweep over the schema's enumerations.
"""
import math
import os
import random
import re
import shutil
import time

import numpy

import vlib
from vlib import PROPS, write
import nonshear_harness as H
import synth

LOG_MAX = 709.782712893384

# ---------------------------------------------------------------------------------------------
# (a) duck-typed contribution classes
# ---------------------------------------------------------------------------------------------

HEADER12 = H.HEADER + r"""
From Cij Require Import BoseModel.
Definition tabs (Q1 Q2 : float -> float) (c : case) :=
  let g := G c in
  let iso := tab_isothermal (K c) Q1 Q2 (lg c) g in
  let gp := tab_gap (K c) Q2 g in
  (tab_zero_point (K c) (lg c) g, tab_thermal (K c) Q1 Q2 (lg c) g, iso, gp, zipw (zipw PrimFloat.add) iso gp).
(* same IEEE class everywhere and, where finite, equal to 8e-9 of the largest finite entry *)
Definition chk12 (Q1 Q2 : float -> float) (c : case) : bool :=
  let '(zp, th, iso, gp, adi) := tabs Q1 Q2 c in
  let s := maxabs_fin (o_iso c) in
  all_close (cclose (cl s)) zp (o_zp c) && all_close2 (cclose (cl s)) th (o_th c) &&
  all_close2 (cclose (cl s)) iso (o_iso c) &&
  all_close2 (cclose (cl (maxabs_fin (o_gap c)))) gp (o_gap c) &&
  all_close2 (cclose (cl (maxabs_fin (o_adi c)))) adi (o_adi c).
(* the property on the float model itself: isothermal finite everywhere; adiabatic finite where C_V > 0 *)
Definition fin12 (Q1 Q2 : float -> float) (c : case) : bool :=
  let '(zp, th, iso, gp, adi) := tabs Q1 Q2 c in
  all_finite zp && all_finite2 th && all_finite2 iso &&
  forallb (fun p => forallb (fun q => if 0 <? snd q then finite (fst q) else true) (combine (fst p) (snd p)))
          (combine adi (g_cv (G c))).
"""


def bose_form():
    """which form of Q1 / Q2 is in the source on disk: 'neg' (exp(-Q)) or 'exp' (exp(+Q)); decided on the whole body
    of the property (docstring removed), so that a rewrite with temporaries is recognised"""
    src = (vlib.REPO / "cij/core/phonon_contribution/nonshear.py").read_text()
    forms = {}
    for name in ("Q1", "Q2"):
        m = re.search(r"def %s\(self\)[^\n]*\n(.*?)(?=\n    @|\n    def |\nclass |\Z)" % name, src, re.S)
        body = m.group(1) if m else ""
        body = re.sub(r"'''.*?'''|\"\"\".*?\"\"\"", "", body, flags=re.S)
        body = re.sub(r"#[^\n]*", "", body)
        body = re.sub(r"\s+", "", body)
        forms[name] = ("neg" if "exp(-" in body else "exp", body[:200])
    return forms


def temperature_grids(rng, tier):
    grids = [[0.0, 0.01, 0.05, 0.2, 0.5, 1.0, 2.5, 3.0],
             [0.0, 0.5, 1.0, 2.5, 5.0, 300.0],
             [0.01, 0.02, 0.1, 0.3, 1.5, 3.04, 3.05]]
    n = 12 if tier == "quick" else 300
    for i in range(n):
        dt = [0.5, 1.0, 5.0, 50.0, 500.0][i % 5]
        tmin = [0.0, 0.0, 0.01, 0.15, 1.0, 3.0, 100.0][rng.randrange(7)] if i % 3 else 0.0
        nt = rng.randint(3, 6)
        grids.append([tmin + dt * k for k in range(nt)])
    return grids


def duck_cases(ctx):
    rng = ctx.rng
    H.reload_impl()
    consts = H.impl_constants()
    hdk = consts[0]
    cases, meta = [], []
    for gi, temps in enumerate(temperature_grids(rng, ctx.tier)):
        c = H.make_case(rng, temps=list(temps), generic=(gi % 4 != 0))
        # the highest frequency at 1500 cm^-1: Q = hdk*1500/T exceeds ln(DBL_MAX) for every T < 3.04 K
        c["freq"][:, c["nq"] - 1, c["np"] - 1] = 1500.0
        cv_mode = ["positive", "positive", "qha-like-zero"][gi % 3]
        if cv_mode == "qha-like-zero":        # QHA reports C_V = 0 at low T: class must still agree with the model
            for ti, T in enumerate(temps):
                if T < 2.0:
                    c["cv"][ti] = [0.0] * c["nv"]
        for lg in (True, False):
            try:
                obs = H.observe(c, lg)
            except Exception as ex:
                ctx.failure("nonshear-raises-%s" % ("long" if lg else "off"),
                            "contribution class raised %s: %s" % (type(ex).__name__, ex),
                            input=dict(temps=temps, nq=c["nq"], na=c["na"]))
                continue
            qmax = hdk * float(numpy.max(c["freq"])) / min([t for t in temps if t > 0] or [1.0])
            ctx.case(dict(lg=lg, freq=c["freq"], gam=c["gam"], vdr=c["vdr"], w=c["weights"], t=temps, v=c["vols"],
                          ei=c["ei"], ej=c["ej"], cv=c["cv"]), nontrivial=qmax > LOG_MAX or min(temps) == 0.0)
            ctx.count("duck: class=%s" % ("longitudinal" if lg else "off-diagonal"))
            ctx.count("duck: max Q %s ln(DBL_MAX)" % (">" if qmax > LOG_MAX else "<="))
            ctx.count("duck: grid %s T=0" % ("with" if min(temps) == 0.0 else "without"))
            ctx.count("duck: C_V %s" % cv_mode)
            cases.append(H.coq_case(c, lg, obs, consts))
            meta.append((c, lg, obs, cv_mode))
    return cases, meta, consts


def duck_shards(rd, cases, per, q1, q2):
    files = []
    for si in range(0, len(cases), per):
        txt = HEADER12 + "\nDefinition cases : list case := [\n" + ";\n".join(cases[si:si + per]) + "].\n" + \
            "Local Close Scope float_scope.\nEval vm_compute in (failing (chk12 %s %s) cases).\n" % (q1, q2) + \
            "Eval vm_compute in (failing (fin12 %s %s) cases).\n" % (q1, q2)
        files.append(write(rd / ("cases_C12_%02d.v" % (si // per)), txt))
    return files


def thermal_bound(c, lg, consts, ti, iv):
    """independent bound from thermal_bounds / bose_decay: |c_th| <= k T / V * 3 na * max_m (Q2b |a| + Q1b |b|)"""
    hdk, _, k = consts
    T = c["temps"][ti]
    ei = c["ei"][iv]
    ej = ei if lg else c["ej"][iv]
    p0 = 1.0 / (5.0 if lg else 15.0) / (ei * ej)
    worst = 0.0
    for q in range(c["nq"]):
        for m in range(c["np"]):
            if q == 0 and m < 3:
                continue
            Q = hdk * c["freq"][iv][q][m] / T
            e = math.exp(-Q) if Q < 745 else 0.0
            q1b = min(1.0, 2 * Q * e) if Q >= math.log(2) else 1.0
            q2b = min(4.0, 4 * Q * Q * e) if Q >= math.log(2) else 4.0
            g, gv = c["gam"][iv][q][m], c["vdr"][iv][q][m]
            a = p0 * g * g
            b = a - p0 * gv + (g / 3.0 / ei if lg else 0.0)
            worst = max(worst, q2b * abs(a) + q1b * abs(b))
    wsum = sum(c["weights"])
    wabs = sum(abs(w) for w in c["weights"])
    return k * T / c["vols"][iv] * 3 * c["na"] * worst * wabs / wsum * (1 + 1e-9)


def duck_oracle(ctx, meta, consts):
    """the property itself on the duck-typed outputs: finite isothermal, finite adiabatic where C_V > 0,
    thermal = 0 at T = 0 and below the proved decay bound elsewhere"""
    hdk = consts[0]
    for c, lg, obs, cv_mode in meta:
        tag = "long" if lg else "off"
        temps = c["temps"]
        for ti, T in enumerate(temps):
            qmax = hdk * float(numpy.max(c["freq"])) / T if T > 0 else float("inf")
            for iv in range(c["nv"]):
                cell = dict(T=T, V=c["vols"][iv], w_max=float(numpy.max(c["freq"])), Q_max=qmax, cls=tag,
                            temps=temps, weights=c["weights"], na=c["na"])
                for name in ("th", "iso"):
                    x = float(obs[name][ti][iv])
                    if not math.isfinite(x):
                        key = "bose-overflow-nan" if (T > 0 and qmax > 690) else "nonfinite-%s-duck" % name
                        ctx.failure(key, "%s of the %s class is %r at T=%r K (highest frequency %.6g cm^-1, Q = h c w / k T = %.6g)"
                                    % ({"th": "thermal_contribution", "iso": "value_isothermal"}[name], tag, x, T,
                                       cell["w_max"], qmax), input=cell, expected="finite", observed=repr(x))
                cvv = c["cv"][ti][iv]
                for name in ("gap", "adi"):
                    x = float(obs[name][ti][iv])
                    if not math.isfinite(x) and (cvv > 0 or T == 0):
                        key = "bose-overflow-nan" if (T > 0 and qmax > 690) else "nonfinite-%s-duck" % name
                        ctx.failure(key, "%s of the %s class is %r at T=%r K although C_V = %r > 0 (Q_max = %.6g)"
                                    % ({"gap": "isothermal_to_adiabatic", "adi": "value_adiabatic"}[name], tag, x, T, cvv, qmax),
                                    input=dict(cell, cv=cvv), expected="finite", observed=repr(x))
                th = float(obs["th"][ti][iv])
                if T == 0:
                    if th != 0.0:
                        ctx.failure("thermal-nonzero-at-T0", "thermal_contribution at T=0 is %r, not 0" % th, input=cell,
                                    expected=0.0, observed=th)
                elif math.isfinite(th) and min(c["weights"]) > 0:
                    bnd = thermal_bound(c, lg, consts, ti, iv)
                    if abs(th) > bnd:
                        ctx.failure("thermal-exceeds-bound", "|thermal_contribution| = %r exceeds the bound %r that follows from "
                                    "0<Q1<1, 0<Q2<4 and Q1<=2Qe^-Q, Q2<=4Q^2e^-Q" % (abs(th), bnd), input=cell,
                                    expected="<= %r" % bnd, observed=th)


# ---------------------------------------------------------------------------------------------
# (b) real Calculator sweep
# ---------------------------------------------------------------------------------------------

INTERP = ["lsq_poly", "lagrange", "spline", "krogh", "pchip", "hermite", "akima"]
SYSTEMS = ["triclinic", "monoclinic", "orthorhombic", "tetragonal7", "tetragonal6", "trigonal7", "trigonal6",
           "hexagonal", "cubic"]
INDEP = {
    "cubic": ["11", "12", "44"],
    "hexagonal": ["11", "33", "12", "13", "44"],
    "trigonal6": ["11", "33", "12", "13", "44", "14"],
    "trigonal7": ["11", "33", "12", "13", "44", "14", "15"],
    "tetragonal6": ["11", "33", "12", "13", "44", "66"],
    "tetragonal7": ["11", "33", "12", "13", "44", "66", "16"],
    "orthorhombic": synth.ORTHO,
    "monoclinic": synth.ORTHO + ["15", "25", "35", "46"],
    "triclinic": synth.ORTHO,
}
MIXED_SHEAR = ["14", "15", "16", "24", "25", "26", "34", "35", "36", "45", "46", "56"]
DTS = [0.5, 1.0, 5.0, 50.0, 500.0]


def orders_for(method, nv):
    if method == "spline":
        return [k for k in (2, 3, 4, 5) if k < nv]
    if method == "lsq_poly":
        return [k for k in (1, 2, 3, 4, 5) if k < nv]
    return list(range(2, nv))


def build_configs(rng, tier):
    """(interpolator, order, system, shear keys, T grid) combinations; every interpolator, system and DT occurs"""
    cfgs = []
    nv = 6
    pairs = []
    for m in INTERP:
        os_ = orders_for(m, nv)
        if tier == "quick":
            os_ = rng.sample(os_, min(3 if m != "hermite" else 1, len(os_)))
        elif m == "hermite":
            os_ = os_[:2]
        pairs += [(m, o) for o in sorted(os_)]
    reps = 2 if tier == "quick" else 30
    n = 0
    for rep in range(reps):
        for (m, o) in pairs:
            system = SYSTEMS[(n + rep) % 9]
            dt = DTS[(n + 2 * rep) % 5]
            tmin = 0.0 if n % 4 != 3 else [0.01, 0.2, 2.0][rng.randrange(3)]
            nt = rng.randint(2, 5) if dt < 500 else 2
            keys = list(INDEP[system])
            if system == "triclinic":
                keys += sorted(rng.sample(MIXED_SHEAR, rng.randint(1, len(MIXED_SHEAR))), key=MIXED_SHEAR.index)
            cfgs.append(dict(interpolator=m, order=o, system=system, keys=keys, T_MIN=tmin, DT=dt, NT=nt,
                             NTV=rng.choice([5, 7, 9]), DELTA_P=rng.choice([1.0, 2.0]), nv=nv,
                             nq=rng.choice([2, 3]), na=rng.choice([2, 3]), seed=rng.randrange(1 << 30)))
            n += 1
    # directed: grids that start where Q = h c w_max / k T crosses ln(DBL_MAX) = 709.78 resp. the underflow of exp(-Q)
    for i, qthr in enumerate([720.0, 709.0, 750.0, 690.0] if tier != "quick" else [720.0, 750.0]):
        cfgs.append(dict(interpolator=["lsq_poly", "spline", "pchip", "krogh"][i], order=3, system=SYSTEMS[(2 * i) % 9],
                         keys=list(INDEP[SYSTEMS[(2 * i) % 9]]) + (["14", "25", "46"] if i == 0 else []),
                         T_MIN=("Q_max", qthr), DT=0.5, NT=3, NTV=7, DELTA_P=1.0, nv=nv, nq=2, na=2,
                         seed=rng.randrange(1 << 30)))
    return cfgs


def settings_of(cfg):
    return synth.default_settings(
        qha=dict(settings=dict(T_MIN=cfg["T_MIN"], DT=cfg["DT"], DT_SAMPLE=cfg["DT"], NT=cfg["NT"], NTV=cfg["NTV"],
                               DELTA_P=cfg["DELTA_P"], DELTA_P_SAMPLE=cfg["DELTA_P"], P_MIN=0)),
        elast=dict(settings=dict(mode_gamma=dict(interpolator=cfg["interpolator"], order=cfg["order"]),
                                 symmetry=dict(system=cfg["system"]))))


def first_bad(mask):
    idx = numpy.argwhere(mask)
    return (int(idx[0][0]), int(idx[0][1])) if len(idx) else None


def check_calculator(ctx, cfg, calc, desc, hdk):
    """the property on one completed Calculator"""
    m = cfg["interpolator"]
    t = numpy.asarray(calc.t_array, dtype=float)
    v = numpy.asarray(calc.v_array, dtype=float)
    cv = numpy.asarray(calc.qha_calculator.volume_base.heat_capacity)
    iso, adi = calc.modulus_isothermal, calc.modulus_adiabatic
    stats = dict(cells=int(t.size * v.size), keys=len(iso))
    if not (numpy.all(numpy.isfinite(t)) and numpy.all(numpy.isfinite(v)) and numpy.all(v > 0)):
        ctx.failure("grid-nonfinite-%s" % m, "t_array / v_array of the Calculator are not finite positive", input=desc)
    where_cv = (cv > 0) | (t[:, None] == 0)
    stats["cells_cv_positive"] = int(where_cv.sum())
    for kind, tab in (("isothermal", iso), ("adiabatic", adi)):
        for key, a in tab.items():
            ks = "c%s" % "".join(str(x) for x in key.voigt)
            arr = numpy.asarray(a)
            if arr.dtype != numpy.float64:
                ctx.failure("complex-dtype-%s" % ks if numpy.iscomplexobj(arr) else "dtype-%s" % ks,
                            "modulus_%s[%s] has dtype %s, expected float64" % (kind, ks, arr.dtype),
                            input=dict(desc, key=ks), expected="float64", observed=str(arr.dtype))
                if not numpy.iscomplexobj(arr):
                    continue
                arr = arr.real + numpy.where(arr.imag != 0, numpy.nan, 0.0)
            if arr.shape != (t.size, v.size):
                ctx.failure("shape-%s" % ks, "modulus_%s[%s] has shape %s, grid is %s" % (kind, ks, arr.shape, (t.size, v.size)),
                            input=dict(desc, key=ks))
                continue
            bad = ~numpy.isfinite(arr)
            if kind == "adiabatic":
                bad &= where_cv
            fb = first_bad(bad)
            if fb:
                ti, iv = fb
                ctx.failure("nonfinite-%s-%s" % (kind, m),
                            "modulus_%s[%s] is %r at T=%r K, V=%r bohr^3 (C_V there: %r) with interpolator %s order %d, system %s"
                            % (kind, ks, float(arr[ti, iv]), float(t[ti]), float(v[iv]), float(cv[ti, iv]), m, cfg["order"],
                               cfg["system"]),
                            input=dict(desc, key=ks, T=float(t[ti]), V=float(v[iv]), cell=[ti, iv]),
                            expected="finite real", observed=repr(float(arr[ti, iv])))
    # averages and velocities wherever the (adiabatic) stiffness is finite and positive definite
    C = numpy.zeros((t.size, v.size, 6, 6))
    for key, a in adi.items():
        i, j = key.voigt
        C[:, :, i - 1, j - 1] = numpy.asarray(a).real
        C[:, :, j - 1, i - 1] = numpy.asarray(a).real
    fin = numpy.all(numpy.isfinite(C), axis=(2, 3))
    spd = numpy.zeros_like(fin)
    for ti in range(t.size):
        for iv in range(v.size):
            if fin[ti, iv]:
                ev = numpy.linalg.eigvalsh(C[ti, iv])
                spd[ti, iv] = ev[0] > 1e-9 * ev[-1]
    stats["cells_spd"] = int(spd.sum())
    vb = calc.volume_base
    for name in ("bulk_modulus_voigt", "bulk_modulus_reuss", "bulk_modulus_voigt_reuss_hill", "shear_modulus_voigt",
                 "shear_modulus_reuss", "shear_modulus_voigt_reuss_hill", "primary_velocities", "secondary_velocities"):
        try:
            with numpy.errstate(all="ignore"):
                arr = numpy.asarray(getattr(vb, name))
        except Exception as ex:
            ctx.failure("average-raises-%s" % name, "volume_base.%s raises %s: %s" % (name, type(ex).__name__, ex), input=desc)
            continue
        if arr.dtype != numpy.float64:
            ctx.failure("dtype-%s" % name, "volume_base.%s has dtype %s" % (name, arr.dtype), input=desc)
            continue
        fb = first_bad(~numpy.isfinite(arr) & spd)
        if fb:
            ti, iv = fb
            ctx.failure("nonfinite-%s" % name, "volume_base.%s is %r at T=%r K, V=%r although the stiffness is positive definite"
                        % (name, float(arr[ti, iv]), float(t[ti]), float(v[iv])),
                        input=dict(desc, T=float(t[ti]), V=float(v[iv])), expected="finite", observed=repr(float(arr[ti, iv])))
    # thermal terms vanish at T = 0: exact zero of every non-shear thermal term, isothermal = zero-point (+ P - Pst),
    # and c(T) = c(0) to rounding for every T so low that every Q = h c w / k T > 60
    zero_rows = numpy.where(t == 0)[0]
    wmin = float(numpy.min(calc.freq_array[:, 0, 3:])) if calc.freq_array.shape[1] == 1 else \
        float(min(numpy.min(calc.freq_array[:, 0, 3:]), numpy.min(calc.freq_array[:, 1:, :])))
    stats["t0_rows"] = int(len(zero_rows))
    try:
        tasks = list(calc._full_modulus._phonon_contribution_task_list)
    except Exception:
        tasks = []
    nchk = 0
    for task in tasks:
        o = task.calculator
        if not hasattr(o, "thermal_contribution"):
            continue
        th = numpy.asarray(o.thermal_contribution)
        fb = first_bad(~numpy.isfinite(th))
        if fb:
            ctx.failure("nonfinite-thermal-%s" % m, "thermal_contribution of task %s is %r at T=%r K" %
                        (task.key, float(th[fb]), float(t[fb[0]])), input=dict(desc, key=str(task.key), T=float(t[fb[0]])))
        for ti in zero_rows:
            nchk += 1
            if numpy.any(th[ti] != 0):
                ctx.failure("thermal-nonzero-at-T0", "thermal_contribution of task %s at T=0 is not 0: %r" % (task.key, th[ti].tolist()),
                            input=dict(desc, key=str(task.key)), expected=0.0, observed=th[ti].tolist())
            want = numpy.asarray(o.zero_point_contribution)
            if task.key.is_off_diagonal:
                want = want + (calc.qha_calculator.volume_base.pressures[ti] - calc.static_p_array)
            got = numpy.asarray(o.value_isothermal)[ti]
            if not numpy.allclose(got, want, rtol=1e-12, atol=1e-300, equal_nan=False):
                ctx.failure("isothermal-T0-not-zero-point", "phonon part of %s at T=0 is not the zero-point term%s"
                            % (task.key, " + P - Pstatic" if task.key.is_off_diagonal else ""),
                            input=dict(desc, key=str(task.key)), expected=want.tolist(), observed=got.tolist())
    stats["t0_checks"] = nchk
    if len(zero_rows) and wmin > 0:
        low = [ti for ti in range(t.size) if 0 < t[ti] and hdk * wmin / t[ti] > 60.0]
        stats["low_T_rows"] = len(low)
        for key, a in iso.items():
            arr = numpy.asarray(a).real
            scale = max(float(numpy.max(numpy.abs(arr[zero_rows[0]]))), 1e-6)
            for ti in low:
                d = numpy.abs(arr[ti] - arr[zero_rows[0]])
                if not numpy.all(d <= 1e-9 * scale):
                    iv = int(numpy.argmax(numpy.where(numpy.isnan(d), numpy.inf, d)))
                    ctx.failure("low-T-limit-%s" % m, "modulus_isothermal[%s] at T=%r K differs from its T=0 value by %r "
                                "(scale %r) although every Q = h c w / k T > 60" % (key, float(t[ti]), float(d[iv]), scale),
                                input=dict(desc, key=str(key), T=float(t[ti]), V=float(v[iv])),
                                expected=float(arr[zero_rows[0]][iv]), observed=float(arr[ti][iv]))
                    break
    return stats


def sweep(ctx, rd, hdk):
    rng = ctx.rng
    cfgs = build_configs(rng, ctx.tier)
    done, raised, inadmissible = 0, 0, 0
    tot = dict(cells=0, cells_cv_positive=0, cells_spd=0, t0_checks=0, low_T_rows=0)
    cwd = os.getcwd()
    work = rd / "sweep"
    work.mkdir(parents=True, exist_ok=True)
    os.chdir(work)                     # fill_cij resolves a system name against the cwd first
    t0 = time.time()
    try:
        for ci, cfg in enumerate(cfgs):
            drng = random.Random(cfg["seed"])
            ds = synth.make_dataset(drng, nv=cfg["nv"], nq=cfg["nq"], na=cfg["na"], keys=cfg["keys"],
                                    spectrum="powerlaw" if ci % 2 else "generic")
            if isinstance(cfg["T_MIN"], tuple):       # directed: T_MIN from the highest frequency of this data set
                wmax = max(max(max(m) for _, m in vol["q_points"]) for vol in ds["qha"]["volumes"])
                cfg["T_MIN"] = round(hdk * wmax / cfg["T_MIN"][1], 6)
                ctx.count("calc: directed T_MIN at overflow threshold")
            s = settings_of(cfg)
            d = work / ("cfg%03d" % ci)
            sp = synth.write_case(d, ds, s)
            desc = dict(config=cfg, settings=s, dataset="synth.make_dataset(random.Random(%d), nv=%d, nq=%d, na=%d, keys=%r, "
                        "spectrum=%r)" % (cfg["seed"], cfg["nv"], cfg["nq"], cfg["na"], cfg["keys"],
                                          "powerlaw" if ci % 2 else "generic"), directory=str(d))
            ctx.case(dict(cfg=cfg), nontrivial=True)
            for lab in ("interpolator=%s" % cfg["interpolator"], "system=%s" % cfg["system"], "DT=%g" % cfg["DT"],
                        "T_MIN%s0" % ("=" if cfg["T_MIN"] == 0 else ">"),
                        "mixed shear keys" if any(k in MIXED_SHEAR for k in cfg["keys"]) else "no mixed shear keys"):
                ctx.count("calc: " + lab)
            try:
                with numpy.errstate(all="ignore"):
                    calc = synth.run_calculator(sp)
            except Exception as ex:
                msg = "%s: %s" % (type(ex).__name__, ex)
                if cfg["interpolator"] == "hermite" and isinstance(ex, TypeError):
                    ctx.failure("hermite-typeerror", "Calculator with mode_gamma.interpolator = hermite raises " + msg,
                                input=desc, expected="completes", observed=msg)
                elif isinstance(ex, ValueError) and "DESIRED PRESSURE" in str(ex):
                    inadmissible += 1          # requested pressures outside the computed range: outside the property's domain
                    ctx.count("calc: inadmissible (pressure range)")
                    continue
                else:
                    ctx.failure("calculator-raises-%s" % cfg["interpolator"],
                                "Calculator raises %s for interpolator %s order %d system %s DT %g"
                                % (msg, cfg["interpolator"], cfg["order"], cfg["system"], cfg["DT"]),
                                input=desc, expected="completes", observed=msg)
                raised += 1
                continue
            done += 1
            st = check_calculator(ctx, cfg, calc, desc, hdk)
            for k in tot:
                tot[k] += st.get(k, 0)
            if done <= 2:
                key0 = next(iter(calc.modulus_isothermal))
                ctx.sample(dict(kind="Calculator", config=cfg, t_array=numpy.asarray(calc.t_array).tolist(),
                                first_key=str(key0), isothermal_row0=numpy.asarray(calc.modulus_isothermal[key0])[0].tolist()))
    finally:
        os.chdir(cwd)
    ctx.extra["calculator_sweep"] = dict(configurations=len(cfgs), completed=done, raised=raised, inadmissible=inadmissible,
                                         wall_s=round(time.time() - t0, 1), **tot)
    ctx.obligation("Calculator sweep: %d configurations, %d completed" % (len(cfgs), done), "machinery",
                   done >= (len(cfgs) - raised - inadmissible) and done > len(cfgs) // 2,
                   "completed %d raised %d inadmissible %d" % (done, raised, inadmissible))
    # keep the run directory small
    for p in work.iterdir():
        if p.is_dir():
            shutil.rmtree(p, ignore_errors=True)


def shipped_examples(ctx, rd, hdk):
    """real (slightly noisy) phonon data: the two intact shipped examples with node-based and polynomial
    interpolators at the orders where a wrong node budget makes the extrapolation run away"""
    import yaml
    from vlib import REPO
    quick = ctx.tier == "quick"
    plans = [("akimotoite", "trigonal7", [("krogh", 6), ("lagrange", 5), ("pchip", 4)])] if quick else [
        ("akimotoite", "trigonal7", [(m, o) for m in ("krogh", "lagrange", "pchip", "akima") for o in (2, 3, 4, 5, 6, 7)]
         + [("lsq_poly", o) for o in (1, 2, 3, 4, 5)] + [("spline", o) for o in (2, 3, 4, 5)]),
        ("diopside", "monoclinic", [("krogh", 4), ("lagrange", 6), ("lsq_poly", 3), ("spline", 3)])]
    work = rd / "shipped"
    cwd = os.getcwd()
    done = 0
    for name, system, combos in plans:
        src = REPO / "examples" / name
        base = yaml.safe_load((src / "settings.yaml").read_text())
        for method, order in combos:
            d = work / ("%s_%s_%d" % (name, method, order))
            d.mkdir(parents=True, exist_ok=True)
            for f in ("input01", base["elast"]["input"]):
                shutil.copy(src / f, d / f)
            s = dict(base)
            s["qha"] = dict(input="input01", settings=dict(base["qha"]["settings"], NT=4, DT=400, DT_SAMPLE=400, NTV=11,
                                                           DELTA_P=2.0, DELTA_P_SAMPLE=2.0))
            s["elast"] = dict(input=base["elast"]["input"], settings=dict(mode_gamma=dict(interpolator=method, order=order),
                                                                          symmetry=dict(system=system)))
            (d / "settings.yaml").write_text(yaml.safe_dump(s, sort_keys=False))
            cfg = dict(interpolator=method, order=order, system=system, DT=400, T_MIN=0, keys=[], example=name)
            desc = dict(config=cfg, dataset="/repo/examples/%s with interpolator %s order %d" % (name, method, order))
            ctx.case(dict(example=name, method=method, order=order), nontrivial=True)
            ctx.count("calc: shipped example %s" % name)
            os.chdir(d)
            try:
                with numpy.errstate(all="ignore"):
                    calc = synth.run_calculator(d / "settings.yaml")
            except Exception as ex:
                msg = "%s: %s" % (type(ex).__name__, ex)
                ctx.failure("calculator-raises-%s" % method, "Calculator raises %s on the shipped %s example "
                            "(interpolator %s order %d)" % (msg, name, method, order), input=desc,
                            expected="completes", observed=msg)
                continue
            finally:
                os.chdir(cwd)
            done += 1
            check_calculator(ctx, cfg, calc, desc, hdk)
            shutil.rmtree(d, ignore_errors=True)
    ctx.extra["shipped_example_runs"] = done


# ---------------------------------------------------------------------------------------------

def run(ctx):
    rd = ctx.fresh_run_dir()
    ctx.rule = ("(a) duck-typed calculator around the real Longitudinal/OffDiagonal classes: spectra with 1-4 q-points, 3-9 "
                "modes, highest frequency 1500 cm^-1, T grids T_MIN + k DT with T_MIN in {0,0.01,0.15,1,3,100}, DT in "
                "{0.5,1,5,50,500} plus hand-made grids down to 0.01 K; C_V positive or zero at T < 2 K as QHA reports it; "
                "non-trivial = grid contains T = 0 or a T with Q = h c w / k T > ln(DBL_MAX). (b) real Calculator on synthetic "
                "data sets (tools/synth.py) for interpolator x admissible order x crystal system (independent components "
                "only, symmetry fill) x mixed shear key sets (triclinic) x T grids (T_MIN 0 or small, DT 0.5..500)")
    ctx.trusted += [
        "finite-ness over binary64 is established by running the float instance of the model on the sampled grids and "
        "comparing value class + value with the implementation; over R only bounds/limits are theorems (rounding not modelled)",
        "f_exp of FOps.v (own exp on primitive floats); overflow threshold identical to numpy.exp (709.7827)",
        "what qha and the scipy interpolators return is measured (finite-ness checked on the sweep), not proved",
    ]
    ctx.partial += [
        "completion / dtype / finite-ness of the real Calculator: measured on the sweep (quick 40, thorough 274 configurations)",
        "adiabatic gap -> 0 as T -> 0+: proved for the harmonic C_V of the same spectrum (gap_vanishes) and for any C_V with "
        "bounded 1/C_V (gap_vanishes_partial); with the numerically differentiated C_V of qha it is measured (finite where C_V > 0)",
        "averages and velocities: over R proved well defined and strictly positive wherever the stiffness is positive definite (averages_and_velocities_well_defined: no Reuss denominator vanishes, both radicands positive); binary64 finite-ness measured on the sweep",
    ]
    ctx.assumptions += ["positive non-acoustic frequencies, Rsum w <> 0, 3 na modes per q-point, c_hdk > 0 (theorems over R)"]

    shutil.copy(PROPS / "Prop_C12.v", rd / "Prop_C12.v")
    ctx.prove(rd / "Prop_C12.v", "Prop_C12.v (Bose-factor bounds, decay, T->0+ limits, shear divisors)", "theorem-file",
              timeout=1200)

    # (a) duck-typed tie
    forms = bose_form()
    q1 = "Q1_neg" if forms["Q1"][0] == "neg" else "Q1_exp"
    q2 = "Q2_neg" if forms["Q2"][0] == "neg" else "Q2_exp"
    ctx.extra["bose_form_on_disk"] = dict(Q1=forms["Q1"][1], Q2=forms["Q2"][1], model=[q1, q2])
    cases, meta, consts = duck_cases(ctx)
    files = duck_shards(rd, cases, 16, q1, q2)
    res = ctx.run_shards(files, label="class+value tie (%s,%s)" % (q1, q2))
    bad_tie, bad_fin = [], []
    for fi, f in enumerate(files):
        ok, fl, out = res[f]
        if len(fl) >= 1:
            bad_tie += [fi * 16 + i for i in fl[0] if i >= 0]
        if len(fl) >= 2:
            bad_fin += [fi * 16 + i for i in fl[1] if i >= 0]
        if not ok or len(fl) != 2:
            ctx.obligation("shard %s printed both result lists" % f.name, "machinery", False, out[-1500:])
    ctx.extra["duck_tie"] = dict(cases=len(cases), class_or_value_mismatch=bad_tie, model_nonfinite=bad_fin)
    for c, lg, obs, cv_mode in meta[:2]:
        ctx.sample(dict(kind="duck", cls="longitudinal" if lg else "off-diagonal", temps=c["temps"],
                        thermal_col0=[float(r[0]) for r in obs["th"]], gap_col0=[float(r[0]) for r in obs["gap"]],
                        cv_col0=[r[0] for r in c["cv"]]))
    duck_oracle(ctx, meta, consts)
    for i in bad_tie[:1]:
        if i < len(meta):
            c, lg, obs, cv_mode = meta[i]
            ctx.failure("model-mismatch-%s" % ("long" if lg else "off"),
                        "value class or value of the %s class differs from the binary64 model (%s, %s)"
                        % ("longitudinal" if lg else "off-diagonal", q1, q2),
                        input=dict(temps=c["temps"], vols=c["vols"], weights=c["weights"], na=c["na"], cv=c["cv"],
                                   thermal=obs["th"].tolist(), gap=obs["gap"].tolist()))

    # (b) + search: Calculator sweep
    sweep(ctx, rd, consts[0])
    shipped_examples(ctx, rd, consts[0])
