"""C08 - symmetry relations equal the Laue-class invariants; fill returns the invariant.

Also hosts the harness shared with C09 (table generation, export to Coq, oracles)."""
import importlib
import itertools
import math
import shutil
from fractions import Fraction

from vlib import REPO, PROPS, write, qlit, coq_string
import translate_constraints as TC
from translate_constraints import S3, KEYS21, SYMS, NSYM, SYSTEMS, GENS

# ------------------------------------------------------------------------------------------
# independent oracle machinery: Laue groups acting on tensors, exact in Q(sqrt 3)
# (written from the property statement; does not read the constraint files)
# ------------------------------------------------------------------------------------------
_GROUP, _PROJ = {}, {}


def mat_mul(a, b):
    return [[a[i][0] * b[0][j] + a[i][1] * b[1][j] + a[i][2] * b[2][j] for j in range(3)] for i in range(3)]


def group(system):
    """closure of the generators under multiplication"""
    if system not in _GROUP:
        gens = [g for _, g in GENS[system]]
        elems = [TC.G_ID]
        frontier = [TC.G_ID]
        while frontier:
            new = []
            for e in frontier:
                for g in gens:
                    p = mat_mul(g, e)
                    if not any(p == x for x in elems):
                        elems.append(p)
                        new.append(p)
            frontier = new
        _GROUP[system] = elems
    return _GROUP[system]


def action_matrix(g):
    """21x21 matrix (S3 entries) of c -> rotate(g, c) on KEYS21"""
    cols = []
    for kp in KEYS21:
        basis = {k: (TC.ONE if k == kp else TC.Z0) for k in KEYS21}
        cols.append([TC.rotate4(g, basis, k) for k in KEYS21])
    return [[cols[kp][ki] for kp in range(NSYM)] for ki in range(NSYM)]


def projector(system):
    """group average (1/|G|) sum_g M_g : the projector onto the invariant tensors; rational"""
    if system not in _PROJ:
        grp = group(system)
        acc = [[TC.Z0] * NSYM for _ in range(NSYM)]
        for g in grp:
            m = action_matrix(g)
            acc = [[x + y for x, y in zip(r1, r2)] for r1, r2 in zip(acc, m)]
        n = len(grp)
        out = []
        for r in acc:
            row = []
            for x in r:
                assert x.b == 0, "group average is not rational"
                row.append(x.a / n)
            out.append(row)
        _PROJ[system] = out
    return _PROJ[system]


def frank(rows):
    """rank of a Fraction matrix"""
    m = [list(r) for r in rows]
    rk = 0
    ncol = len(m[0]) if m else 0
    for c in range(ncol):
        p = next((i for i in range(rk, len(m)) if m[i][c] != 0), None)
        if p is None:
            continue
        m[rk], m[p] = m[p], m[rk]
        pv = m[rk][c]
        m[rk] = [x / pv for x in m[rk]]
        for i in range(len(m)):
            if i != rk and m[i][c] != 0:
                f = m[i][c]
                m[i] = [x - f * y for x, y in zip(m[i], m[rk])]
        rk += 1
    return rk


def inv_dim(system):
    return frank(projector(system))


def nonvanishing(system):
    """indices of the components that are not identically zero on the invariant subspace"""
    p = projector(system)
    return [i for i in range(NSYM) if any(x != 0 for x in p[i])]


def sufficient(system, S):
    """do the components S determine an invariant tensor?  rank of the projector rows S"""
    if not S:
        return inv_dim(system) == 0
    p = projector(system)
    return frank([p[i] for i in S]) == inv_dim(system)


def random_invariant(system, rng):
    """projection of a random integer tensor: exact Fractions"""
    t = [Fraction(rng.randint(-60, 400)) for _ in range(NSYM)]
    p = projector(system)
    return [sum((p[i][j] * t[j] for j in range(NSYM)), Fraction(0)) for i in range(NSYM)]


def max_noninvariance(system, tensor):
    """tensor: 21 Fractions.  Returns (max |rotate(g,c)_k - c_k|, generator name, key) over the generators"""
    c = {k: S3(v) for k, v in zip(KEYS21, tensor)}
    worst = (0.0, None, None)
    for name, g in GENS[system]:
        for k in KEYS21:
            d = abs(float(TC.rotate4(g, c, k) - c[k]))
            if d > worst[0]:
                worst = (d, name, k)
    return worst


def random_sufficient_set(system, rng, extra=True):
    """random minimal sufficient set (greedy over a random order of the non-vanishing components),
    optionally with a few more components (dependent or vanishing ones)"""
    nv = nonvanishing(system)
    order = nv[:]
    rng.shuffle(order)
    p = projector(system)
    S, rk = [], 0
    for i in order:
        r2 = frank([p[j] for j in S + [i]])
        if r2 > rk:
            S.append(i)
            rk = r2
    if extra:
        rest = [i for i in range(NSYM) if i not in S]
        rng.shuffle(rest)
        S += rest[:rng.choice([0, 0, 1, 2, 4])]
    rng.shuffle(S)
    return S


def random_case(s, rng):
    return s if rng.random() < 0.6 else (s.upper() if rng.random() < 0.7 else s[0].upper() + s[1:])


# ------------------------------------------------------------------------------------------
# export of tables to Coq (exact rationals of the floats)
# ------------------------------------------------------------------------------------------
def safe_num(x):
    """non-finite implementation output -> a sentinel no model value can match (the tie then fails and the
    oracle reports the NaN with its input)"""
    x = float(x)
    return x if math.isfinite(x) else 1.0e300


def coq_table(cols):
    """cols: list of (label, [floats])"""
    return "[" + ";\n    ".join("(%s, [%s])" % (coq_string(l), "; ".join(qlit(safe_num(x)) for x in v))
                                for l, v in cols) + "]"


def df_cols(df):
    return [(str(c), [float(x) for x in df[c].to_numpy()]) for c in df.columns]


SHARD_HEADER = r"""
From Coq Require Import QArith List Bool String Arith.
From Cij Require Import LinSum Q3 FOps FillModel.
From CijGen Require Import Gen_constraints.
Import ListNotations.
Local Open Scope Q_scope.
Local Open Scope string_scope.

Definition qabs (x : Q) : Q := if Qle_bool 0 x then x else - x.
Definition qclose (scale : Q) (a b : Q) : bool := Qle_bool (qabs (a - b)) ((1 # 1000000000) * scale).
Fixpoint vals_close (scale : Q) (a b : list Q) : bool :=
  match a, b with
  | [], [] => true
  | x :: a', y :: b' => qclose scale x y && vals_close scale a' b'
  | _, _ => false
  end.
Fixpoint tables_close (scale : Q) (a b : list (string * list Q)) : bool :=
  match a, b with
  | [], [] => true
  | (l1, v1) :: a', (l2, v2) :: b' => String.eqb l1 l2 && vals_close scale v1 v2 && tables_close scale a' b'
  | _, _ => false
  end.
Inductive obs := OOk (t : list (string * list Q)) | ORaise (k : kind).
Record case := {
  c_rel : list (list Q); c_in : list (string * list Q);
  c_ign_res : bool; c_ign_rank : bool; c_drop : Q; c_tol : Q;
  c_obs : obs; c_scale : Q }.
Definition run_model (c : case) : result (T:=Q) :=
  fill_with_fast (fun x => x) Qle_bool current_variant
    {| ign_res := c_ign_res c; ign_rank := c_ign_rank c; drop_atol := c_drop c; resid_atol := c_tol c |}
    (c_rel c) (c_in c).
Definition chk (c : case) : bool :=
  match run_model c, c_obs c with
  | Ok t, OOk t' => tables_close (c_scale c) t t'
  | Raise k, ORaise k' => kind_eqb k k'
  | _, _ => false
  end.
"""


def coq_case(rel_name, cols_in, obs, scale, ign_res=False, ign_rank=False, drop=1e-8, tol=0.1):
    """obs: ('ok', cols) | ('raise', kind)"""
    if obs[0] == "ok":
        o = "OOk %s" % coq_table(obs[1])
    else:
        o = "ORaise %s" % obs[1]
    return ("{| c_rel := %s; c_in := %s;\n   c_ign_res := %s; c_ign_rank := %s; c_drop := %s; c_tol := %s;\n"
            "   c_obs := %s; c_scale := %s |}" % (
                rel_name, coq_table(cols_in), "true" if ign_res else "false", "true" if ign_rank else "false",
                qlit(float(drop)), qlit(float(tol)), o, qlit(float(scale))))


def write_shards(rd, prefix, cases, per=40):
    files = []
    for si in range(0, len(cases), per):
        txt = SHARD_HEADER + "\nDefinition cases : list case := [\n" + ";\n".join(cases[si:si + per]) + "].\n" + \
            "Eval vm_compute in (failing chk cases).\n"
        files.append(write(rd / ("%s_%02d.v" % (prefix, si // per)), txt))
    return files


def classify_exception(e):
    """Python exception -> model kind name"""
    if isinstance(e, Warning):
        msg = str(e)
        if msg.startswith("Rank of constraints"):
            return "RankWarning"
        if msg.startswith("Residuals seems"):
            return "ResidualWarning"
        return "Warning:" + msg[:40]
    if isinstance(e, ValueError):
        return "ValueErr"
    if isinstance(e, IndexError):
        return "IndexErr"
    if isinstance(e, FileNotFoundError):
        return "FileNotFound"
    return type(e).__name__


KINDS = {"RankWarning", "ResidualWarning", "ValueErr", "IndexErr", "FileNotFound"}


# ------------------------------------------------------------------------------------------
# translator stage shared with C09
# ------------------------------------------------------------------------------------------
def translate_stage(ctx, rd):
    """regenerate Gen_constraints.v, validate rows against sympy exactly, compile it.
    returns (ok, info)"""
    try:
        gen, info = TC.translate(REPO)
    except TC.Untranslatable as e:
        ctx.obligation("translate cij/data/constraints/* -> Gen_constraints.v", "translator", False, str(e))
        return False, None
    write(rd / "Gen_constraints.v", gen)
    bad = []
    for s in SYSTEMS:
        try:
            rows, rhs = TC.sympy_rows(REPO / "cij" / "data" / "constraints" / s)
        except Exception as e:      # sympy cannot read what the translator accepted
            bad.append("%s: sympy raised %s: %s" % (s, type(e).__name__, e))
            continue
        if rows != info[s]["rows"] or any(x != 0 for x in rhs):
            bad.append("%s: translator rows differ from sympy's linear_eq_to_matrix" % s)
    ctx.obligation("translator rows == sympy parse_expr/linear_eq_to_matrix rows, exactly, 9 files",
                   "translator-tie", not bad, "; ".join(bad))
    ok, _ = ctx.prove(rd / "Gen_constraints.v", "translate cij/data/constraints/* -> Gen_constraints.v",
                      "translator", extra_Q=[(rd, "CijGen")])
    return ok and not bad, info


# ------------------------------------------------------------------------------------------
# data of a higher symmetry are consistent data of the lower one: a free component of the declared system is then an
# all-zero column (e.g. c15 of trigonal7 for a trigonal6 crystal) - still supplied, still counted for sufficiency
SUPER = {"trigonal7": "trigonal6", "tetragonal7": "tetragonal6", "trigonal6": "hexagonal", "monoclinic": "orthorhombic",
         "tetragonal6": "cubic", "orthorhombic": "tetragonal6"}


def make_table(system, rng, S, nrows, with_v=True, data_system=None):
    """symmetry-consistent table: columns S (random order = order of S, random letter case),
    optional leading V column; returns (cols, tensors)"""
    tensors = [random_invariant(data_system or system, rng) for _ in range(nrows)]
    cols = []
    if with_v:
        cols.append(("V", [round(60.0 + 7.5 * r + rng.random(), 4) for r in range(nrows)]))
    for i in S:
        cols.append((random_case(SYMS[i], rng), [float(t[i]) for t in tensors]))
    return cols, tensors


def run(ctx):
    import pandas
    import cij.util.fill as F
    import cij.io.traditional.elast_dat as ED
    importlib.reload(F)
    importlib.reload(ED)
    from cij.util import c_
    rd = ctx.fresh_run_dir()
    rng = ctx.rng
    ctx.rule = ("per system: random symmetry-consistent tables = group-average projections of random integer "
                "tensors (exact, independent of the constraint files), 1-6 volume rows, a random minimal sufficient "
                "set of supplied components plus 0-4 extra ones, random column order and letter case, optional V "
                "column; fill_cij and apply_symetry_on_elast_data; a case is non-trivial when at least one "
                "component has to be generated; distinct by (system, table)")
    ctx.trusted += [
        "translator tools/translate_constraints.py (fail-closed grammar) - validated on every run against the rows "
        "sympy parse_expr/linear_eq_to_matrix produce from the same files (exact comparison)",
        "numpy.linalg.lstsq (LAPACK gelsd) is an oracle: its solution is compared on every case with the model's "
        "normal-equation solution computed exactly over Q inside Coq (1e-9)",
        "Gauss-Jordan over Q inside Coq is unverified and only used through checked certificates",
        "pandas column assignment / drop semantics (modelled: first case-insensitive match, append otherwise)",
    ]
    ctx.assumptions += ["table labels are ASCII; values finite floats"]

    ok_gen, info = translate_stage(ctx, rd)
    if ok_gen:
        shutil.copy(PROPS / "Prop_C08.v", rd / "Prop_C08.v")
        ctx.prove(rd / "Prop_C08.v", "Prop_C08.v (relations_eq_invariants for 9 systems by Q(sqrt3) certificates, "
                  "fill_returns_invariant, invariance_under_group, ...)", "theorem-file",
                  extra_Q=[(rd, "CijGen")], timeout=900)
    if info is not None:
        for s in SYSTEMS:
            if info[s]["not_invariant_rows"] or info[s]["missing_inv_rows"]:
                ctx.extra.setdefault("certificate_search", {})[s] = dict(
                    relation_rows_not_invariant=info[s]["not_invariant_rows"],
                    invariance_rows_not_implied=len(info[s]["missing_inv_rows"]))

    ncase = 8 if ctx.tier == "quick" else 40
    cases, meta = [], []
    suff_cases = []       # (system, S, oracle sufficient)
    for system in SYSTEMS:
        for ci in range(ncase):
            nrows = rng.randint(1, 6)
            S = random_sufficient_set(system, rng)
            if ci % 8 == 6:
                # the whole upper triangle written out (vanishing components as zero columns): nothing to fill in,
                # but the vanishing components must still be omitted
                S = list(range(NSYM))
                rng.shuffle(S)
                ctx.count("all 21 components supplied")
            data_system = SUPER.get(system) if ci % 8 == 3 else None
            if data_system:
                S = random_sufficient_set(system, rng, extra=False)
                ctx.count("higher-symmetry data (free component all zero)")
            cols, tensors = make_table(system, rng, S, nrows, with_v=rng.random() < 0.7, data_system=data_system)
            int_table = (ci % 4 == 1)
            if int_table:
                # the same invariant tensor field scaled to whole numbers and held in int64 columns (what
                # pandas.read_table yields for a table written without decimal points)
                from fractions import Fraction as _Fr
                den = 1
                for t in tensors:
                    for x in t:
                        den = den * _Fr(x).denominator // math.gcd(den, _Fr(x).denominator)
                tensors = [[_Fr(x) * den for x in t] for t in tensors]
                cols = [(l, v) if l.lower() == "v" else (l, [int(tensors[r][SYMS.index(l.lower())]) for r in range(nrows)])
                        for l, v in cols]
                ctx.count("integer-typed (int64) table")
            df = pandas.DataFrame(dict(cols), columns=[l for l, _ in cols])
            # row labels are the caller's business: filling works on row POSITIONS.  Present the table
            # with other indexes too (re-sorted labels, arbitrary labels, labelled by volume)
            ikind = rng.choice(["default", "default", "reversed", "shuffled", "offset", "float"])
            if ikind == "reversed":
                df.index = list(range(nrows - 1, -1, -1))
            elif ikind == "shuffled":
                lab = list(range(nrows)); rng.shuffle(lab); df.index = lab
            elif ikind == "offset":
                df.index = [10 + 3 * i for i in range(nrows)]
            elif ikind == "float":
                df.index = [500.5 - 7.25 * i for i in range(nrows)]
            ctx.count("row index:" + ikind)
            scale = max(1.0, max(abs(float(x)) for t in tensors for x in t))
            try:
                out = F.fill_cij(df.copy(), system)
                obs = ("ok", df_cols(out))
            except BaseException as e:
                out = None
                obs = ("raise", classify_exception(e))
            if obs[0] == "ok" and any(not math.isfinite(float(x)) for _, v in obs[1] for x in v):
                ctx.failure("fill-nonfinite-%s-index-%s" % (system, ikind),
                            "fill_cij returned NaN/inf for a symmetry-consistent table (row index kind: %s)" % ikind,
                            input=dict(system=system, table={l: v for l, v in cols}, index=[repr(i) for i in df.index]),
                            observed={l: v for l, v in obs[1]})
            generated = [i for i in nonvanishing(system) if i not in S]
            ctx.case(dict(system=system, cols=cols), nontrivial=bool(generated) or system == "triclinic")
            ctx.count("system:" + system)
            ctx.count("rows:%d" % nrows)
            m = dict(system=system, table={l: v for l, v in cols}, columns=[l for l, _ in cols],
                     supplied=[SYMS[i] for i in S], observed=obs)
            meta.append(m)
            suff_cases.append((system, sorted(S), True))
            if obs[0] == "raise" and obs[1] not in KINDS:
                ctx.failure("%s-fill-raises-%s" % (system, obs[1]), "fill_cij raised %s on a symmetry-consistent "
                            "sufficient table" % obs[1], input=m)
                continue
            cases.append(coq_case("rel_%s" % system, cols, obs, scale))
            oracle_consistent(ctx, system, cols, tensors, S, obs, scale, m)

            # apply_symetry_on_elast_data on the same data (lower-case keys by construction)
            if ci % 2 == 0:
                # every second of these tables is written in other units (x 1/1024: GPa -> roughly Mbar): still the same
                # invariant tensor field, but every constant stays well below 0.1 - and the settings are spelled out
                small = (ci % 4 == 2)
                if small:
                    tensors = [[x / 1024 for x in t] for t in tensors]
                    scale = scale / 1024
                    ctx.count("apply_symetry_on_elast_data: table scaled by 1/1024, explicit settings")
                sym_settings = dict(system=system)
                if small:
                    sym_settings.update(ignore_residuals=False, ignore_rank=False, residual_atol=0.1, drop_atol=1e-8)
                vols = [ED.ElastVolumeData(60.0 + r, dict((c_(*KEYS21[i]), float(tensors[r][i])) for i in S))
                        for r in range(nrows)]
                data = ED.ElastData(60.0, nrows, 100.0, vols, [])
                try:
                    ED.apply_symetry_on_elast_data(data, sym_settings)
                    cols2 = [(SYMS[i], [float(t[i]) for t in tensors]) for i in S]
                    keys_out = list(data.volumes[0].static_elastic_modulus.keys())
                    got = [("c%d%d" % tuple(k.v), [float(v.static_elastic_modulus[k]) for v in data.volumes])
                           for k in keys_out]
                    obs2 = ("ok", got)
                except BaseException as e:
                    cols2 = [(SYMS[i], [float(t[i]) for t in tensors]) for i in S]
                    obs2 = ("raise", classify_exception(e))
                ctx.case(dict(system=system, elast_data=cols2), nontrivial=bool(generated))
                ctx.count("apply_symetry_on_elast_data")
                m2 = dict(system=system, via="apply_symetry_on_elast_data", table={l: v for l, v in cols2},
                          columns=[l for l, _ in cols2], supplied=[SYMS[i] for i in S], observed=obs2)
                if obs2[0] == "raise" and obs2[1] not in KINDS:
                    ctx.failure("%s-apply-symmetry-raises-%s" % (system, obs2[1]),
                                "apply_symetry_on_elast_data raised %s" % obs2[1], input=m2)
                else:
                    cases.append(coq_case("rel_%s" % system, cols2, obs2, scale))
                    meta.append(m2)
                    oracle_consistent(ctx, system, cols2, tensors, S, obs2, scale, m2)
        # a few insufficient sets for the rank-certificate tie
        nv = nonvanishing(system)
        for _ in range(4 if ctx.tier == "quick" else 12):
            k = rng.randint(0, len(nv))
            S = sorted(rng.sample(nv, k))
            suff_cases.append((system, S, sufficient(system, S)))
    for m in meta[:3] + meta[-2:]:
        ctx.sample(dict(system=m["system"], columns=m["columns"], supplied=m["supplied"],
                        observed=(m["observed"][0], [c for c, _ in m["observed"][1]] if m["observed"][0] == "ok"
                                  else m["observed"][1])))

    if ok_gen:
        files = write_shards(rd, "cases_C08", cases)
        res = ctx.run_shards(files, extra_Q=[(rd, "CijGen")], label="fill tie")
        per = 40
        for fi, f in enumerate(files):
            ok, fl, out = res[f]
            for lst in fl:
                for i in lst:
                    if 0 <= i and fi * per + i < len(meta):
                        m = meta[fi * per + i]
                        ctx.extra.setdefault("tie_disagreements", []).append(
                            dict(system=m["system"], columns=m["columns"], observed=str(m["observed"])[:300]))
        sufficient_sets_stage(ctx, rd, suff_cases)


def sufficient_sets_stage(ctx, rd, suff_cases, label="sufficient_sets"):
    """C08.4: the model's two rank certificates are complete (exactly one of them checks) and agree with
    the independent rank computation on the invariant subspace, on the listed sets"""
    if ctx.tier == "thorough":
        for system in SYSTEMS:
            nv = nonvanishing(system)
            if len(nv) > 13:
                # 2^15 / 2^21 subsets: a seeded sample of 4096 (bound visible in the evidence)
                seen = set()
                while len(seen) < 4096:
                    seen.add(tuple(sorted(ctx.rng.sample(nv, ctx.rng.randint(0, len(nv))))))
                subsets = [list(s) for s in sorted(seen)]
                ctx.extra.setdefault("sufficient_sets_bound", {})[system] = "seeded sample of 4096 of the 2^%d subsets of the non-vanishing components" % len(nv)
            else:
                subsets = [list(c) for r in range(len(nv) + 1) for c in itertools.combinations(nv, r)]
                ctx.extra.setdefault("sufficient_sets_bound", {})[system] = "all 2^%d subsets of the non-vanishing components" % len(nv)
            for S in subsets:
                suff_cases.append((system, S, sufficient(system, S)))
    lines = []
    for system, S, suff in suff_cases:
        lines.append("(rel_%s, [%s]%%nat, %s)" % (system, "; ".join(str(i) for i in S), "true" if suff else "false"))
        ctx.count("rank-certificate sets")
    hdr = r"""
From Coq Require Import QArith List Bool Arith.
From Cij Require Import LinSum Q3 FOps FillModel.
From CijGen Require Import Gen_constraints.
Import ListNotations.
Definition chk (c : list (list Q) * list nat * bool) : bool :=
  let '(rel, sup, suff) := c in
  Bool.eqb (determines sup rel) suff && Bool.eqb (underdetermined sup rel) (negb suff) &&
  normal_eq_ok sup rel && min_norm_ok sup rel &&
  (negb (suff && (List.length (Amat sup rel) =? NS)%nat) || square_exact_ok sup rel).
"""
    files = []
    per = 150
    for si in range(0, len(lines), per):
        txt = hdr + "Definition cases : list (list (list Q) * list nat * bool) := [\n " + ";\n ".join(
            lines[si:si + per]) + "].\nEval vm_compute in (failing chk cases).\n"
        files.append(write(rd / ("%s_%03d.v" % (label, si // per)), txt))
    res = ctx.run_shards(files, extra_Q=[(rd, "CijGen")], label="rank certificates complete + agree with oracle rank")
    for fi, f in enumerate(files):
        ok, fl, out = res[f]
        for lst in fl:
            for i in lst:
                if 0 <= i and fi * per + i < len(suff_cases):
                    system, S, suff = suff_cases[fi * per + i]
                    ctx.extra.setdefault("rank_certificate_disagreements", []).append(
                        dict(system=system, supplied=[SYMS[j] for j in S], oracle_sufficient=suff))


def oracle_consistent(ctx, system, cols, tensors, S, obs, scale, m):
    """property oracle for a symmetry-consistent table supplying a sufficient set:
    accepted; output invariant under every generator (exact rotation of the returned floats);
    supplied values unchanged; all non-vanishing components present; vanishing ones omitted;
    non-modulus columns untouched"""
    tol = 1e-7 * scale
    if obs[0] == "raise":
        ctx.failure("%s-refuses-consistent-sufficient" % system,
                    "fill raised %s on a symmetry-consistent table that supplies a sufficient set of components"
                    % obs[1], input=m, expected="filled table", observed=obs[1])
        return
    out = dict((l.lower(), v) for l, v in obs[1])
    out_labels = [l for l, _ in obs[1]]
    nrows = len(tensors)
    if any(not math.isfinite(float(x)) for _, v in obs[1] for x in v):
        return   # reported by the caller as fill-nonfinite-...
    if system == "triclinic" and len(S) < NSYM:
        return   # nothing to generate: every component is independent (see C09 for the refusal clause)
    for r in range(nrows):
        tensor = [Fraction(out[s][r]) if s in out else Fraction(0) for s in SYMS]
        d, gname, key = max_noninvariance(system, tensor)
        if d > tol:
            ctx.failure("%s-filled-not-invariant" % system,
                        "the tensor fill_cij returned is not invariant under the Laue-class generator %s: "
                        "rotated c%d%d differs by %.6g" % (gname, key[0], key[1], d),
                        input=m, expected="rotate(%s, c) = c" % gname,
                        observed=dict(row=r, tensor={s: float(v) for s, v in zip(SYMS, tensor)}))
            return
        for i in range(NSYM):
            want = float(tensors[r][i])
            got = float(tensor[i])
            if abs(want - got) > 1e-9 * scale:
                what = "supplied value moved" if i in S else "generated component wrong"
                ctx.failure("%s-%s" % (system, "supplied-moved" if i in S else "generated-wrong"),
                            "%s: %s row %d is %.12g, the invariant tensor has %.12g" % (what, SYMS[i], r, got, want),
                            input=m, expected=want, observed=got)
                return
    nv = set(nonvanishing(system))
    for i in range(NSYM):
        present = SYMS[i] in out
        if i in nv and not present and any(abs(float(t[i])) > 1e-8 for t in tensors):
            ctx.failure("%s-component-missing" % system, "non-vanishing component %s missing from the output" % SYMS[i],
                        input=m, observed=out_labels)
            return
        if i not in nv and present:
            ctx.failure("%s-vanishing-kept" % system, "vanishing component %s not omitted" % SYMS[i],
                        input=m, observed=out_labels)
            return
    for l, v in cols:
        if l.lower() not in SYMS:
            if l not in dict(obs[1]) or dict(obs[1])[l] != v:
                ctx.failure("%s-passthrough" % system, "non-modulus column %s changed" % l, input=m)
                return
