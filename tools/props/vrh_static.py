"""Static (translator) tie for the Voigt-Reuss-Hill / velocity formulas, shared by C07 and C18.

static_tie(ctx, rd, groups) regenerates Gallina definitions from the CURRENT source tree
(tools/translate_vrh.py, fail-closed), writes them with the lemma templates of tools/tie_vrh/ into the
per-run directory `rd` (logical path CijGen) and compiles one lemma file per group:

    voigt, reuss, hill, velocities      cij/core/calculator.py formulas      = theories/VRHModel.v   (over R)
    getattr-dispatch                    CijVolumeBaseInterface.__getattr__   = its specification
    pressure-delegation                 CijPressureBaseInterface delegates to volume_base through v2p
    static-vrh                          cij/cli/static.py VRH/velocity block = theories/StaticModel.v s_vrh_row

One obligation per group is recorded; the names of the groups that broke are returned.  This function never
calls ctx.failure: a broken static obligation without a concrete failing input is reported by the driver as
`no-failing-input-found` (the C07 / C18 modules search for failing inputs themselves).
"""
import re
from pathlib import Path

import vlib
from vlib import REPO, VERIF, write
import translate_vrh as T
import translate_voigt

TEMPLATES = VERIF / "tools" / "tie_vrh"

CALCULATOR_GROUPS = ["voigt", "reuss", "hill", "velocities", "getattr-dispatch", "pressure-delegation"]
STATIC_GROUPS = ["static-vrh"]

FILE_OF = {"voigt": "Tie_vrh_voigt.v", "reuss": "Tie_vrh_reuss.v", "hill": "Tie_vrh_hill.v",
           "velocities": "Tie_vrh_velocities.v", "getattr-dispatch": "Tie_vrh_getattr.v",
           "pressure-delegation": "Tie_vrh_pressure.v", "static-vrh": "Tie_vrh_static.v"}
# generated functions each lemma file mentions (all must be translated, with their dependencies)
NEEDS = {
    "voigt": ["bulk_modulus_voigt", "shear_modulus_voigt"],
    "reuss": ["bulk_modulus_reuss", "shear_modulus_reuss"],
    "hill": ["bulk_modulus_voigt_reuss_hill", "shear_modulus_voigt_reuss_hill", "bulk_modulus_voigt",
             "shear_modulus_voigt", "bulk_modulus_reuss", "shear_modulus_reuss"],
    "velocities": list(T.PROPS9),
}
WHAT = {
    "voigt": "bulk/shear_modulus_voigt of calculator.py = VRHModel.bulk_voigt/shear_voigt",
    "reuss": "bulk/shear_modulus_reuss of calculator.py = VRHModel.bulk_reuss/shear_reuss (denominators <> 0)",
    "hill": "bulk/shear_modulus_voigt_reuss_hill of calculator.py = VRHModel.bulk_vrh/shear_vrh (denominators <> 0)",
    "velocities": "mass, primary/secondary_velocities of calculator.py = VRHModel.mass/v_primary/v_secondary "
                  "(mass <> 0, denominators <> 0)",
    "getattr-dispatch": "CijVolumeBaseInterface.__getattr__ decision tree = spec (cNN->adiabatic, cNNt->isothermal, "
                        "sNN->compliances, canonical key, missing key raises); every accessor used by the formulas",
    "pressure-delegation": "CijPressureBaseInterface properties = v2p(volume_base.<same name>)",
    "static-vrh": "bm_V..v_phi of cli/static.py = StaticModel.s_vrh_row (whole-matrix inverse, denominators, rho <> 0)",
}

TRUSTED = (
    "translator tools/translate_vrh.py (fail-closed ast whitelist: cIJ/sIJ accessors, the nine averages, + - * /, "
    "numeric literals read as exact decimals, numpy.sqrt, the exact pint call shape "
    "units.Quantity(e, units.rydberg).to(units.kg * units.km ** 2 / units.s ** 2).magnitude read as e * ry, "
    "scipy's 'Avogadro constant' / scipy.constants.Avogadro read as the model's N_A and unit expressions compared up to "
    "the abelian-group laws of pint units (both re-checked per run in the installed scipy / pint), single-assignment locals (also tuple form), calls of "
    "uniquely bound plain helper functions inlined by let-binding their parameters (helper body inside the same "
    "grammar, sees only its parameters); static.py: c[:, I, J] reads, column stores, literal-tuple loops unrolled, "
    "fill-loop key expression evaluated on all 36 cells and checked in Coq, numpy.linalg.inv only of the whole "
    "filled cij) with POINTWISE reading of numpy/pandas "
    "arithmetic; only pattern-checked: REGEX_CIJ is executed by Python's re on the accessor names in use, "
    "c_ = ModulusRepresentation.create, class shape of CijVolumeBaseInterface, the loop filling cij from the "
    "columns, v2p/getattr forwarding of CijPressureBaseInterface, `if input02:` guards; lemma templates "
    "tools/tie_vrh/*.v (hand-written statements, proofs by field/lra over R)"
)


def lemma_at(path: Path, out: str) -> str:
    """name of the lemma in which coqc reported its (first) error"""
    m = re.search(r'File "[^"]*", line (\d+)', out)
    if not m:
        return ""
    lines = path.read_text().splitlines()[:int(m.group(1))]
    for ln in reversed(lines):
        mm = re.match(r"\s*(Lemma|Theorem|Corollary|Example|Definition)\s+([\w']+)", ln)
        if mm:
            return mm.group(2)
    return ""


def runtime_meaning_checks(res):
    """The translator reads named constants / pint unit expressions of calculator.py as the model's N_A / as the unit
    kg km^2 s^-2 (up to the group laws of units).  Check, in the installed scipy / pint, that they mean that:
    returns a list of problems (empty = fine)."""
    bad = []
    try:
        import scipy.constants
        model_na = float(602214076 * 10 ** 15)           # VRHModel.N_A, exact in binary64
        for c in sorted(res.consts):
            if c == T.AVOGADRO:
                val = scipy.constants.physical_constants["Avogadro constant"][0]
            elif c == T.AVOGADRO_ATTR:
                val = scipy.constants.Avogadro
            else:
                bad.append("unknown constant %s" % c)
                continue
            if float(val) != model_na:
                bad.append("%s = %r in the installed scipy, the model's N_A is %r" % (c, val, model_na))
        if res.units:
            from cij.util import units

            def ev(t):
                if t[0] == "u":
                    return getattr(units, t[1])
                if t[0] == "pow":
                    return ev(t[1]) ** t[2]
                return ev(t[1]) * ev(t[2]) if t[0] == "mul" else ev(t[1]) / ev(t[2])
            ref_from, ref_to = units.rydberg, units.kg * units.km ** 2 / units.s ** 2
            ref = units.Quantity(1.0, ref_from).to(ref_to).magnitude
            for src_txt, dst_txt, src_tree, dst_tree in res.units:
                u_from, u_to = ev(src_tree), ev(dst_tree)
                if not (u_from == ref_from and u_to == ref_to):
                    bad.append("pint: %s -> %s is not the unit pair rydberg -> kg km^2 / s^2" % (src_txt, dst_txt))
                elif units.Quantity(1.0, u_from).to(u_to).magnitude != ref:
                    bad.append("pint: conversion factor of %s -> %s differs from the reference spelling" % (src_txt, dst_txt))
    except Exception as e:      # noqa: fail closed
        bad.append("%s: %s" % (type(e).__name__, e))
    return bad


def static_tie(ctx, rd: Path, groups=tuple(CALCULATOR_GROUPS)):
    groups = list(groups)
    ctx.trusted.append(TRUSTED)
    XQ = [(rd, "CijGen")]
    failed = []
    why = {}          # group -> reason it cannot even be compiled

    # ---- 1. translate ------------------------------------------------------------------------------
    calc_groups = [g for g in groups if g in CALCULATOR_GROUPS]
    bodies = []
    res = None
    if calc_groups:
        try:
            res = T.translate_calculator((REPO / T.CALC).read_text(),
                                         (REPO / "cij/util/__init__.py").read_text(),
                                         (REPO / "cij/util/voigt.py").read_text())
            bodies.append(T.emit_calculator(res))
        except (SyntaxError, OSError) as e:
            res = None
            for g in calc_groups:
                why[g] = "%s cannot be read/parsed: %r" % (T.CALC, e)
        if res is not None:
            if "module" in res.errors:
                for g in calc_groups:
                    why[g] = str(res.errors["module"])
            for g, names in NEEDS.items():
                if g in calc_groups and g not in why:
                    bad = [n for n in names if not res.usable(n)]
                    if bad:
                        why[g] = "; ".join(sorted({res.why_not(n) for n in bad}))
            if "getattr-dispatch" in calc_groups and "getattr-dispatch" not in why:
                for k in ("__getattr__", "c_"):
                    if k in res.errors:
                        why["getattr-dispatch"] = str(res.errors[k])
                if not res.names and "getattr-dispatch" not in why:
                    why["getattr-dispatch"] = "%s: no cIJ/sIJ accessor is used by any translated formula" % T.CALC
            if "pressure-delegation" in calc_groups and "pressure" in res.errors and "pressure-delegation" not in why:
                why["pressure-delegation"] = str(res.errors["pressure"])
            if "velocities" in calc_groups and "velocities" not in why:
                probs = runtime_meaning_checks(res)
                ctx.obligation("static tie: constants / units named in calculator.py mean the model's in the installed "
                               "scipy / pint (%s; %s)" % (", ".join(sorted(res.consts)) or "-",
                                                          "; ".join("%s -> %s" % (a, b) for a, b, _, _ in res.units) or "-"),
                               "measured", not probs, "; ".join(probs))
                if probs:
                    why["velocities"] = "named constant / unit check: " + "; ".join(probs)
    if "static-vrh" in groups:
        try:
            txt, info = T.translate_static((REPO / T.STATIC).read_text())
            bodies.append(txt)
            ctx.extra["static_tie_static_py"] = info
        except T.TranslateError as e:
            why["static-vrh"] = str(e)
        except (SyntaxError, OSError) as e:
            why["static-vrh"] = "%s cannot be read/parsed: %r" % (T.STATIC, e)
    if "getattr-dispatch" in groups and "getattr-dispatch" not in why:
        try:
            write(rd / "Gen_voigt.v", translate_voigt.translate((REPO / "cij/util/voigt.py").read_text()))
        except Exception as e:      # Untranslatable, or the voigt translator itself is broken: the group fails closed
            why["getattr-dispatch"] = "cij/util/voigt.py (tools/translate_voigt.py): %s: %s" % (type(e).__name__, e)

    # ---- 2. write and compile the generated definitions ---------------------------------------------
    write(rd / "VRHTieBase.v", (TEMPLATES / "VRHTieBase.v").read_text())
    write(rd / "Gen_vrh.v", T.gen_file(*bodies))
    ok_base, out_base = vlib.coqc(rd / "VRHTieBase.v", extra_Q=XQ, timeout=300)
    pre = [rd / "Gen_vrh.v"] + ([rd / "Gen_voigt.v"] if (rd / "Gen_voigt.v").exists() else [])
    r = vlib.coqc_many(pre, extra_Q=XQ, timeout=300) if ok_base else {p: (False, out_base) for p in pre}
    ok_gen = ok_base and all(v[0] for v in r.values())
    ctx.obligation("static tie: tools/translate_vrh.py -> Gen_vrh.v (regenerated from %s) compiles"
                   % " and ".join(([T.CALC] if calc_groups else []) + ([T.STATIC] if "static-vrh" in groups else [])),
                   "translator", ok_gen, "" if ok_gen else (out_base if not ok_base else "\n".join(v[1] for v in r.values())))

    # ---- 3. one lemma file per group ------------------------------------------------------------------
    todo = []
    for g in groups:
        if g in why or not ok_gen:
            continue
        todo.append(write(rd / FILE_OF[g], (TEMPLATES / FILE_OF[g]).read_text()))
    res2 = vlib.coqc_many(todo, extra_Q=XQ, timeout=300) if todo else {}
    for g in groups:
        name = "static tie [%s]: %s" % (g, WHAT[g])
        if g in why:
            ctx.obligation(name, "translator-tie", False, "TranslateError: " + why[g])
            failed.append(g)
            continue
        if not ok_gen:
            ctx.obligation(name, "translator-tie", False, "Gen_vrh.v / VRHTieBase.v do not compile")
            failed.append(g)
            continue
        ok, out = res2[rd / FILE_OF[g]]
        detail = ""
        if not ok:
            lem = lemma_at(rd / FILE_OF[g], out)
            detail = ("lemma %s of %s does not hold for the regenerated definitions\n" % (lem, FILE_OF[g]) if lem else "") + out
            failed.append(g)
        ctx.obligation(name, "translator-tie", ok, detail)
        for closed, names in vlib.parse_assumptions(out):
            for n in names:
                ctx.axioms[n] = ctx.axioms.get(n, 0) + 1
    if failed:
        det = ctx.extra.setdefault("static_tie_details", {})
        for o in ctx.obligations:
            m = re.match(r"static tie \[([\w-]+)\]", o["name"])
            if m and not o["ok"]:
                det[m.group(1)] = o["detail"][:600]
    ctx.extra["static_tie_failed_groups"] = sorted(set(ctx.extra.get("static_tie_failed_groups", [])) | set(failed))
    return failed
