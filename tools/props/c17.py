"""C17 - input files round-trip: phonon data write/read, static table parse, fill output.

Tie (all comparisons with the model happen inside Coq, on text as list byte):
  A  write_energy output == print_qha_text (byte for byte); read_energy(file) == parse_qha_text(file)
     == round_qha(data)                                                      (cases_qha_*.v)
  B  read_energy on foreign-style / damaged phonon files == parse_qha_text   (cases_qhar.v)
  C  read_elast_data on rendered static tables == parse_elast_text           (cases_elast_*.v)
  D  `cij fill -s SYSTEM FILE` stdout: parses, equals apply_symetry_on_elast_data(read_elast_data(FILE)),
     header / volumes / remainder preserved (Python oracle) and read_elast_data(stdout) ==
     parse_elast_text(stdout)                                                (cases_fill.v)
Search stage: the round trips on the implementation itself, from the property statement, with own
arithmetic (integer mantissas / decimal.Decimal / own Voigt table).
"""
import importlib
import os
import shutil
from decimal import Decimal

from vlib import PROPS, write, zlit, coq_string

# ----------------------------------------------------------------------------------------
# decimal helpers
# ----------------------------------------------------------------------------------------

def dec_of_decimal(d: Decimal):
    """(mantissa, number of fraction digits) of a finite Decimal, exactly"""
    sign, digits, exp = d.as_tuple()
    m = int("".join(map(str, digits)) or "0")
    if sign:
        m = -m
    if exp >= 0:
        return m * 10 ** exp, 0
    return m, -exp


def dec_of_float_exact(x: float):
    return dec_of_decimal(Decimal(x))          # exact binary expansion


def dec_of_float_repr(x: float):
    return dec_of_decimal(Decimal(repr(float(x))))   # shortest round-trip decimal


def dterm(md):
    m, n = md
    if n == 6:
        return "X %s" % zlit(m)
    if n == 4:
        return "Y %s" % zlit(m)
    return "G %s %d" % (zlit(m), n)


def dlist(mds):
    return "[" + "; ".join(dterm(x) for x in mds) + "]"


HEADER_COMMON = r"""
From Coq Require Import ZArith List Bool Strings.Byte String.
From Cij Require Import VoigtBase TextModel QhaInputModel ElastDatModel.
Import ListNotations.
Local Open Scope Z_scope.
Local Open Scope string_scope.
Definition X (m : Z) := mkdec m 6.
Definition Y (m : Z) := mkdec m 4.
Definition G (m : Z) (n : nat) := mkdec m n.
Definition K (a b c d : Z) := KMod ((a, b), (c, d)).
Definition L (s : string) := KStr (lb s).
Definition lbs (l : list string) : bytes := flat_map lb l.
"""


def coq_text(text, chunk=3000):
    """a long text as a Coq `list string` of pieces (one huge literal overflows coqc's stack)"""
    pieces, cur, n = [], [], 0
    for ln in text.splitlines(keepends=True):
        if n + len(ln) > chunk and cur:
            pieces.append("".join(cur))
            cur, n = [], 0
        cur.append(ln)
        n += len(ln)
    if cur:
        pieces.append("".join(cur))
    return "[" + ";\n ".join(coq_string(x) for x in pieces) + "]"


# ----------------------------------------------------------------------------------------
# A. phonon data sets
# ----------------------------------------------------------------------------------------

def draw_mant(rng, D, mode):
    """a value with |x| <= 1e5 as (mantissa, ndec).  mode 'exact': at most D decimals."""
    u = rng.random()
    sgn = rng.choice([-1, 1])
    if mode == "exact":
        if u < 0.04:
            return 0, D
        if u < 0.07:
            return sgn * 10 ** (5 + D), D
        if u < 0.11:
            return sgn * rng.randint(1, 9), D
        if u < 0.15:
            return sgn * (10 ** rng.randint(1, 5 + D) - rng.randint(0, 1)), D    # 9..9 / 10..0 carries
        e = rng.uniform(0, 5 + D)
        return sgn * min(max(int(10 ** e), 1), 10 ** (5 + D)), D
    # 'rounding': arbitrary binary floats, including exact ties of the written precision
    if u < 0.15:
        k = rng.randint(0, 2 ** 20)
        x = sgn * (2 * k + 1) / 2.0 ** rng.choice([7, 8, 9, 10]) if D == 6 else sgn * (2 * k + 1) / 2.0 ** rng.choice([5, 6, 7])
    elif u < 0.25:
        x = sgn * rng.random() * 10.0 ** (-D - rng.randint(0, 2))        # rounds to 0 / last digit
    elif u < 0.35:
        x = sgn * (rng.randint(0, 10 ** 5) + 1 - 10.0 ** (-D) * rng.choice([0.4, 0.5, 0.6]))   # 9999.9999996
    else:
        x = sgn * 10.0 ** rng.uniform(-D, 5) * rng.random()
    x = max(min(x, 1e5), -1e5)
    return dec_of_float_exact(x)


def fval(md):
    m, n = md
    return m / 10 ** n          # int / int true division is correctly rounded


def draw_qha(rng, nv, nq, np_, mode):
    dm = lambda D: draw_mant(rng, D, mode)
    vols = []
    for _ in range(nv):
        qs = []
        for _ in range(nq):
            qs.append(([dm(4) for _ in range(3)], [dm(6) for _ in range(np_)]))
        vols.append((dm(6), dm(6), dm(6), qs))
    ws = [([dm(6) for _ in range(3)], dm(6)) for _ in range(nq)]
    nm = rng.choice([1, 2, 4, rng.randint(0, 99), rng.randint(100, 20000)])
    na = rng.choice([np_ // 3, rng.randint(0, 9999)])
    return dict(nv=nv, nq=nq, np=np_, nm=nm, na=na, weights=ws, volumes=vols)


def qha_term(d):
    ws = "[" + ";\n   ".join("mkw %s (%s)" % (dlist(c), dterm(w)) for c, w in d["weights"]) + "]"
    vs = []
    for p, v, e, qs in d["volumes"]:
        qt = "[" + ";\n    ".join("mkq %s %s" % (dlist(c), dlist(m)) for c, m in qs) + "]"
        vs.append("mkv (%s) (%s) (%s)\n    %s" % (dterm(p), dterm(v), dterm(e), qt))
    return "mkqha %s %s %s %s %s\n  %s\n  [%s]" % (
        zlit(d["nv"]), zlit(d["nq"]), zlit(d["np"]), zlit(d["nm"]), zlit(d["na"]), ws, ";\n   ".join(vs))


def to_impl(Q, d):
    vols = [Q.VolumeData(fval(p), fval(v), fval(e), [Q.QPointData(tuple(fval(c) for c in cs), [fval(m) for m in ms])
                                                    for cs, ms in qs]) for p, v, e, qs in d["volumes"]]
    ws = [Q.QPointWeight(tuple(fval(c) for c in cs), fval(w)) for cs, w in d["weights"]]
    return Q.QHAInputData(d["nv"], d["nq"], d["np"], d["nm"], d["na"], ws, vols)


def obs_qha_term(o):
    """Coq term (option qha) of what read_energy returned (None = it raised)"""
    if o is None:
        return "None"
    try:
        r = dec_of_float_repr
        d = dict(nv=o.nv, nq=o.nq, np=o.np, nm=o.nm, na=o.na,
                 weights=[([r(c) for c in w[0]], r(w[1])) for w in o.weights],
                 volumes=[(r(v[0]), r(v[1]), r(v[2]), [([r(c) for c in q[0]], [r(m) for m in q[1]]) for q in v[3]])
                          for v in o.volumes])
    except Exception:       # inf / nan: not representable, make the shard fail visibly
        return "Some (mkqha (-1) (-1) (-1) (-1) (-1) [] [])"
    return "Some (%s)" % qha_term(d)


def safe_read(fn, path):
    try:
        return fn(str(path)), None
    except BaseException as e:        # RuntimeError(StopIteration), ValueError, IndexError, NameError ...
        return None, "%s: %s" % (type(e).__name__, str(e)[:80])


COMMENTS = ["QHA Input data", "QHA Input data", "", "MgSiO3 pv  LDA  20 atoms", "1 2 3 4 five", "12 3 4 5",
            "nv nq np nm na", "1 2 3 4 5 6", " 7 150 60 2 x20", "a \"quoted\" comment", "two\nlines of comment",
            "tab\tseparated\t1\t2", "P= 1 V= 2 E= 3", "weight", "1 2 3 4 -5"]


def rounded_expect(md, D):
    """own arithmetic: mantissa at D decimals of md rounded half-even (python ints only)"""
    m, n = md
    if n <= D:
        return m * 10 ** (D - n)
    p = 10 ** (n - D)
    a = abs(m)
    q, r = divmod(a, p)
    if 2 * r > p or (2 * r == p and q % 2 == 1):
        q += 1
    return -q if m < 0 else q


def oracle_qha(ctx, d, o, err, tag, comment, text):
    """property statement on the implementation: write -> read gives the same counts, P, V, E, q-coordinates,
    frequencies and weights to the written precision.  Returns True when it holds."""
    inp = dict(data=jsonable_qha(d), comment=comment)
    if o is None:
        ctx.failure("qha-read-raises", "read_energy raises on a file written by write_energy (%s)" % err,
                    input=inp, file_head=text[:600])
        return False
    for nm in ("nv", "nq", "np", "nm", "na"):
        if getattr(o, nm) != d[nm]:
            ctx.failure("qha-count-%s" % nm, "count %s read back as %r, written %r" % (nm, getattr(o, nm), d[nm]),
                        input=inp, expected=d[nm], observed=getattr(o, nm))
            return False
    if len(o.volumes) != d["nv"] or len(o.weights) != d["nq"]:
        ctx.failure("qha-lengths", "read %d volumes / %d weights, written %d / %d"
                    % (len(o.volumes), len(o.weights), d["nv"], d["nq"]), input=inp)
        return False

    def same(x, md, D):
        want = rounded_expect(md, D)
        try:
            return Decimal(repr(float(x))).scaleb(D) == want
        except Exception:
            return False

    for iv, (ov, dv) in enumerate(zip(o.volumes, d["volumes"])):
        for nm, k in (("pressure", 0), ("volume", 1), ("energy", 2)):
            if not same(ov[k], dv[k], 6):
                ctx.failure("qha-%s" % nm, "%s of volume %d read back as %r, written %s e-%d"
                            % (nm, iv, ov[k], dv[k][0], dv[k][1]), input=inp, where=[iv],
                            expected=str(Decimal(rounded_expect(dv[k], 6)).scaleb(-6)), observed=ov[k])
                return False
        if len(ov[3]) != len(dv[3]):
            ctx.failure("qha-nq-block", "volume %d has %d q-points after reading, written %d"
                        % (iv, len(ov[3]), len(dv[3])), input=inp, where=[iv])
            return False
        for iq, (oq, dq) in enumerate(zip(ov[3], dv[3])):
            if len(oq[0]) != len(dq[0]) or not all(same(a, b, 4) for a, b in zip(oq[0], dq[0])):
                ctx.failure("qha-qcoord", "q-point %d of volume %d read back as %r" % (iq, iv, oq[0]),
                            input=inp, where=[iv, iq], expected=[str(Decimal(rounded_expect(b, 4)).scaleb(-4)) for b in dq[0]],
                            observed=list(oq[0]))
                return False
            if len(oq[1]) != len(dq[1]):
                ctx.failure("qha-nmodes", "q-point %d of volume %d has %d frequencies after reading, written %d"
                            % (iq, iv, len(oq[1]), len(dq[1])), input=inp, where=[iv, iq])
                return False
            for im, (a, b) in enumerate(zip(oq[1], dq[1])):
                if not same(a, b, 6):
                    ctx.failure("qha-frequency", "frequency %d of q-point %d of volume %d read back as %r, written %s e-%d"
                                % (im, iq, iv, a, b[0], b[1]), input=inp, where=[iv, iq, im],
                                expected=str(Decimal(rounded_expect(b, 6)).scaleb(-6)), observed=a)
                    return False
    for iq, (ow, dw) in enumerate(zip(o.weights, d["weights"])):
        if len(ow[0]) != 3 or not all(same(a, b, 6) for a, b in zip(ow[0], dw[0])) or not same(ow[1], dw[1], 6):
            ctx.failure("qha-weight", "weight line %d read back as %r" % (iq, (tuple(ow[0]), ow[1])),
                        input=inp, where=[iq],
                        expected=[str(Decimal(rounded_expect(b, 6)).scaleb(-6)) for b in dw[0] + [dw[1]]],
                        observed=list(ow[0]) + [ow[1]])
            return False
    return True


def jsonable_qha(d):
    s = lambda md: "%de-%d" % md
    return dict(nv=d["nv"], nq=d["nq"], np=d["np"], nm=d["nm"], na=d["na"],
                weights=[[[s(c) for c in cs], s(w)] for cs, w in d["weights"]],
                volumes=[[s(p), s(v), s(e), [[[s(c) for c in cs], [s(m) for m in ms]] for cs, ms in qs]]
                         for p, v, e, qs in d["volumes"]])


def own_format(d, comment):
    """independent rendering of the documented file layout with integer arithmetic only (oracle for the
    writer when the byte comparison fails: tells which line differs)"""
    def f(md, W, D):
        m = rounded_expect(md, D)
        s = "%d.%0*d" % (abs(m) // 10 ** D, D, abs(m) % 10 ** D)
        if md[0] < 0:
            s = "-" + s
        return s.rjust(W)
    L = [comment, "", "  nv   nq   np   nm   na",
         " ".join(str(d[k]).rjust(4) for k in ("nv", "nq", "np", "nm", "na")), ""]
    for p, v, e, qs in d["volumes"]:
        L.append("P= %s V= %s E= %s" % (f(p, 12, 6), f(v, 12, 6), f(e, 12, 6)))
        for cs, ms in qs:
            L.append(" ".join(f(c, 10, 4) for c in cs))
            L += [f(m, 12, 6) for m in ms]
    L += ["", "weight"]
    for cs, w in d["weights"]:
        L.append(" ".join(f(c, 10, 6) for c in cs + [w]))
    return "".join(l + "\n" for l in L)


QHA_CHECKS = r"""
Definition chk_write (c : string * qha * list string * option qha) : bool :=
  let '(cm, d, t, o) := c in bytes_eqb (print_qha_text (lb cm) d) (lbs t).
Definition chk_read (c : string * qha * list string * option qha) : bool :=
  let '(cm, d, t, o) := c in oqha_veq (parse_qha_text (lbs t)) o.
Definition chk_round (c : string * qha * list string * option qha) : bool :=
  let '(cm, d, t, o) := c in oqha_veq (parse_qha_text (lbs t)) (Some (round_qha d)).
(* hypothesis of qha_roundtrip: no line of the comment matches the header pattern *)
Definition chk_hyp (c : string * qha * list string * option qha) : bool :=
  let '(cm, d, t, o) := c in
  forallb (fun l => match header_match (strip l) with None => true | Some _ => false end) (split_lines (lb cm)).
Eval vm_compute in (bad_cases chk_write cases).
Eval vm_compute in (bad_cases chk_read cases).
Eval vm_compute in (bad_cases chk_round cases).
Eval vm_compute in (bad_cases chk_hyp cases).
"""


def stage_qha(ctx, rd):
    import cij.io.traditional.qha_input as Q
    importlib.reload(Q)
    rng = ctx.rng
    quick = ctx.tier == "quick"
    nsets = 22 if quick else 150
    max_lines = 1500 if quick else 7400
    shard_lines = 2600
    cases = []
    # make sure the extreme counts occur
    forced = [(1, 1, 3), (12, 10, 3), (12, 2, 60), (1, 10, 60), (3, 1, 3)]
    while len(cases) < nsets:
        if forced:
            nv, nq, np_ = forced.pop(0)
        else:
            nv, nq, np_ = rng.randint(1, 12), rng.randint(1, 10), rng.randint(3, 60)
        nlines = nv * (1 + nq * (np_ + 1)) + nq + 7
        if nlines > max_lines:
            continue
        mode = "rounding" if len(cases) % 4 == 3 else "exact"
        d = draw_qha(rng, nv, nq, np_, mode)
        comment = COMMENTS[len(cases) % len(COMMENTS)] if len(cases) % 3 else "QHA Input data"
        cases.append((d, comment, mode, nlines))

    files = []
    shard, used, recs = [], 0, []

    def flush():
        nonlocal shard, used
        if not shard:
            return
        f = rd / ("cases_qha_%02d.v" % len(files))
        body = ";\n".join("(%s,\n %s,\n %s,\n %s)" % c[0] for c in shard)
        write(f, HEADER_COMMON + "Definition cases : list (string * qha * list string * option qha) := [\n" + body
              + "].\n" + QHA_CHECKS)
        files.append((f, [c[1] for c in shard]))
        shard, used = [], 0

    for i, (d, comment, mode, nlines) in enumerate(cases):
        path = rd / ("qha_%03d.txt" % i)
        data = to_impl(Q, d)
        werr = None
        try:
            if comment == "QHA Input data" and i % 2 == 0:
                Q.write_energy(str(path), data)                 # default comment
            else:
                Q.write_energy(str(path), data, comment)
            raw = path.read_bytes()
            text = raw.decode("ascii")
        except BaseException as e:
            werr = "%s: %s" % (type(e).__name__, e)
            text = ""
        o, err = safe_read(Q.read_energy, path) if werr is None else (None, werr)
        ctx.case(["qha", jsonable_qha(d), comment], nontrivial=True)
        ctx.count("phonon data sets (%s decimals)" % mode)
        ctx.count("phonon file lines", nlines)
        ctx.count("nv=%d" % d["nv"] if d["nv"] in (1, 12) else "nv 2..11")
        ctx.count("np=%d" % d["np"] if d["np"] in (3, 60) else "np 4..59")
        # search stage on every case (cheap)
        if werr is not None:
            ctx.failure("qha-write-raises", "write_energy raises: %s" % werr, input=dict(data=jsonable_qha(d), comment=comment))
        else:
            ok = oracle_qha(ctx, d, o, err, "rt", comment, text)
            want = own_format(d, comment)
            if text != want:
                tl, wl = text.split("\n"), want.split("\n")
                k = next((j for j in range(min(len(tl), len(wl))) if tl[j] != wl[j]), min(len(tl), len(wl)))
                ctx.failure("qha-write-format", "write_energy output differs from the documented fixed format at line %d" % (k + 1),
                            input=dict(data=jsonable_qha(d), comment=comment), line=k + 1,
                            expected=wl[k] if k < len(wl) else None, observed=tl[k] if k < len(tl) else None)
        rec = (coq_string(comment), qha_term(d), coq_text(text), obs_qha_term(o))
        if used + nlines > shard_lines and shard:
            flush()
        shard.append((rec, i))
        used += nlines
        if i < 2:
            ctx.sample(dict(kind="phonon data set", nv=d["nv"], nq=d["nq"], np=d["np"], nm=d["nm"], na=d["na"],
                            decimals=mode, comment=comment, file_head=text[:260]))
    flush()
    return files, cases


# ----------------------------------------------------------------------------------------
# B. reader on foreign-style and damaged files
# ----------------------------------------------------------------------------------------

def foreign_text(rng, d, style):
    """render the data set d the way other producers do (more decimals, other widths, banner lines,
    blank lines, 'weights', trailing blanks, exponent notation)"""
    def num(md, w, dec):
        x = Decimal(md[0]).scaleb(-md[1])
        if style == "exp":
            s = format(x, ".12E") if rng.random() < 0.5 else format(x, ".13e")
        elif style == "plus" and md[0] > 0 and rng.random() < 0.3:
            s = "+" + format(x, ".%df" % dec)
        else:
            s = format(x, ".%df" % dec)
        return s.rjust(w)
    ws = lambda: rng.choice([" ", "  ", "   ", "\t", " \t "])
    L = [" some-material_LDA", " The file contains frequencies and weight factors at the end",
         " Number of volumes (nv), q-vectors (nq), normal modes (np), formula units(nm):"]
    if style == "noheaderlines":
        L = []
    L.append(ws().join(str(d[k]).rjust(rng.choice([1, 4, 12])) for k in ("nv", "nq", "np", "nm", "na")) + rng.choice(["", "  ", "\t"]))
    L.append("")
    for p, v, e, qs in d["volumes"]:
        if rng.random() < 0.5:
            L.append(rng.choice(["", "   ", "\t"]))
        lab = rng.choice([("P", "V", "E"), ("p", "v", "e"), ("P", "V", "F")])
        L.append("%s=%s%s%s%s=%s%s%s%s=%s%s%s" % (lab[0], ws(), num(p, 16, 8), ws(), lab[1], ws(), num(v, 16, 8), ws(),
                                                 lab[2], ws(), num(e, 16, 8), rng.choice(["", "  ", " Ry"])))
        for cs, ms in qs:
            L.append(ws().join(num(c, 14, 7) for c in cs) + rng.choice(["", " "]))
            L += [num(m, 15, 7) + rng.choice(["", " ", "  "]) for m in ms]
    L += [""] * rng.randint(0, 2)
    L.append(rng.choice(["weight", "weights", " weights ", "weight\t"]))
    for cs, w in d["weights"]:
        L.append(ws().join(num(c, 14, 7) for c in cs + [w]) + rng.choice(["", "  ", "  extra 1.0"]))
    if rng.random() < 0.3:
        L.append("")
    return "\n".join(L) + ("\n" if rng.random() < 0.8 else "")


def damage(rng, text):
    """realistic corruptions: lines removed / duplicated / words removed; the reader may raise or shift"""
    L = text.split("\n")
    k = rng.random()
    i = rng.randrange(len(L))
    if k < 0.3:
        del L[i]
    elif k < 0.5:
        L.insert(i, L[i])
    elif k < 0.65:
        L = L[:max(4, i)]
    elif k < 0.8:
        L[i] = " ".join(L[i].split()[:-1])
    else:
        L[i] = L[i].replace("=", " = ", 1) if "=" in L[i] else L[i] + " x"
    return "\n".join(L)


def stage_qha_reader(ctx, rd):
    import cij.io.traditional.qha_input as Q
    rng = ctx.rng
    n = 40 if ctx.tier == "quick" else 600
    recs = []
    for i in range(n):
        nv, nq, np_ = rng.randint(1, 3), rng.randint(1, 3), rng.randint(1, 5)
        d = draw_qha(rng, nv, nq, np_, "exact")
        style = rng.choice(["plain", "plain", "exp", "plus", "noheaderlines"])
        text = foreign_text(rng, d, style)
        damaged = i % 3 == 2
        if damaged:
            text = damage(rng, text)
        path = rd / ("qhar_%03d.txt" % i)
        path.write_text(text, encoding="ascii", newline="")
        o, err = safe_read(Q.read_energy, path)
        ctx.case(["qhar", text])
        ctx.count("foreign-style phonon files" + (" (damaged)" if damaged else ""))
        if damaged:
            ctx.count("damaged files on which read_energy raises" if o is None else "damaged files read without error")
        else:
            # property: a clean foreign-style file holds exactly d
            if o is None or not oracle_plain(o, d):
                ctx.failure("qha-read-foreign", "read_energy does not return the tabulated data of a well-formed phonon file (%s)" % err,
                            input=dict(text=text), expected=jsonable_qha(d))
        recs.append((coq_string(text), obs_qha_term(o)))
        if i == 0:
            ctx.sample(dict(kind="foreign-style phonon file", text=text[:300]))
    f = rd / "cases_qhar.v"
    write(f, HEADER_COMMON + "Definition cases : list (string * option qha) := [\n"
          + ";\n".join("(%s,\n %s)" % r for r in recs) + "].\n"
          + "Eval vm_compute in (bad_cases (fun c => oqha_veq (parse_qha_text (lb (fst c))) (snd c)) cases).\n")
    return f


def oracle_plain(o, d):
    eq = lambda x, md: Decimal(repr(float(x))) == Decimal(md[0]).scaleb(-md[1])
    try:
        if (o.nv, o.nq, o.np, o.nm, o.na) != (d["nv"], d["nq"], d["np"], d["nm"], d["na"]):
            return False
        if len(o.volumes) != d["nv"] or len(o.weights) != d["nq"]:
            return False
        for ov, dv in zip(o.volumes, d["volumes"]):
            if not (eq(ov[0], dv[0]) and eq(ov[1], dv[1]) and eq(ov[2], dv[2])) or len(ov[3]) != len(dv[3]):
                return False
            for oq, dq in zip(ov[3], dv[3]):
                if len(oq[0]) != 3 or len(oq[1]) != len(dq[1]):
                    return False
                if not all(eq(a, b) for a, b in zip(list(oq[0]) + list(oq[1]), dq[0] + dq[1])):
                    return False
        for ow, dw in zip(o.weights, d["weights"]):
            if len(ow[0]) != 3 or not all(eq(a, b) for a, b in zip(list(ow[0]) + [ow[1]], dw[0] + [dw[1]])):
                return False
        return True
    except Exception:
        return False


# ----------------------------------------------------------------------------------------
# C. static tables
# ----------------------------------------------------------------------------------------

VOIGT = {1: (1, 1), 2: (2, 2), 3: (3, 3), 4: (2, 3), 5: (1, 3), 6: (1, 2)}
PAIRS = [(a, b) for a in range(1, 7) for b in range(a, 7)]
PREFIXES = ["c", "C", "C_", "c_", "", "Cij", "cij=", "s", "x-", "c.", "elastic_c"]


def spell(rng, a, b):
    """one of the spellings of component (a,b): Voigt either order, or 4-index standard with minor swaps"""
    k = rng.random()
    if k < 0.6:
        return "%d%d" % (a, b)
    if k < 0.75:
        return "%d%d" % (b, a)
    i, j = VOIGT[a]
    p, q = VOIGT[b]
    if rng.random() < 0.5:
        i, j = j, i
    if rng.random() < 0.5:
        p, q = q, p
    if rng.random() < 0.3:
        i, j, p, q = p, q, i, j
    return "%d%d%d%d" % (i, j, p, q)


def numtok(rng, md):
    x = Decimal(md[0]).scaleb(-md[1])
    k = rng.random()
    if k < 0.7:
        return format(x, ".%df" % md[1])
    if k < 0.8:
        return format(x, ".%df" % (md[1] + rng.randint(1, 3)))
    if k < 0.9:
        return format(x, ".%d%s" % (md[1] + 6, rng.choice("eE")))
    if md[0] > 0:
        return "+" + format(x, ".%df" % md[1])
    return format(x, ".%df" % md[1])


def draw_table(rng, kind):
    nv = rng.randint(1, 8)
    ncol = rng.randint(1, 21)
    comps = rng.sample(PAIRS, ncol)
    if rng.random() < 0.25 and ncol >= 2:
        comps.append(rng.choice(comps))          # the same component twice (other spelling): later column wins
    labels, keys = [], []
    for a, b in comps:
        lab = rng.choice(PREFIXES) + spell(rng, a, b)
        labels.append(lab)
        keys.append(("K", a, b))
    if rng.random() < 0.3:
        pos = rng.randint(0, len(labels))
        lab = rng.choice(["extra", "K_S", "note", "rho"])
        labels.insert(pos, lab)
        keys.insert(pos, ("S", lab))
    first = rng.choice(["V", "V", "v", "volume", "Vol(A^3)"])
    val = lambda hi, nd: (rng.choice([-1, 1]) * rng.randint(0, hi * 10 ** nd), nd)
    rows = []
    for _ in range(nv):
        vol = (rng.randint(1, 5000 * 10 ** 4), 4)
        nvals = len(labels)
        if kind == "short" and rng.random() < 0.5:
            nvals = rng.randint(0, len(labels))
        elif kind == "long" and rng.random() < 0.5:
            nvals = len(labels) + rng.randint(1, 2)
        rows.append((vol, [val(2000, rng.randint(0, 4)) for _ in range(nvals)]))
    lat = None
    if rng.random() < 0.6:
        m = rng.randint(1, 6)
        lat = [[(rng.randint(1, 30 * 10 ** 8), 8) for _ in range(m)] for _ in range(nv)]
    return dict(nv=nv, vref=(rng.randint(1, 5000 * 10 ** 4), 4), mass=(rng.randint(1, 900 * 10 ** 3), 3),
                first=first, labels=labels, keys=keys, rows=rows, lat=lat)


def render_table(rng, t, kind):
    ws = lambda: rng.choice([" ", "  ", "    ", "\t", " \t"])
    lead = lambda: rng.choice(["", "", " ", "   ", "\t"])
    trail = lambda: rng.choice(["", "", " ", "  \t"])
    L = [rng.choice(["V_0 N cellmass formula", "V_0    N     cellmass   Mg2Ca2Si4O12", "", "# static table 1 2 3"])]
    nv_tok = str(t["nv"])
    if kind == "nvplus":
        nv_tok = "+" + nv_tok
    L.append(lead() + ws().join([numtok(rng, t["vref"]), nv_tok, numtok(rng, t["mass"])]
                                + (["trailing", "1.5"] if rng.random() < 0.2 else [])) + trail())
    L.append(lead() + ws().join([t["first"]] + t["labels"]) + trail())
    for vol, vals in t["rows"]:
        L.append(lead() + ws().join([numtok(rng, vol)] + [numtok(rng, v) for v in vals]) + trail())
    if t["lat"] is not None:
        L.append(rng.choice(["lattice_a  lattice_b  lattice_c", "a b c", "---", " lattice parameters "]))
        for r in t["lat"]:
            L.append(lead() + ws().join(numtok(rng, x) for x in r) + trail())
        if rng.random() < 0.3:
            L.append("trailing text that is never read")
    elif rng.random() < 0.4:
        L.append(rng.choice(["", "   ", "\t"]))
        if rng.random() < 0.5:
            L.append("1.0 2.0 3.0")
    return "\n".join(L) + ("\n" if rng.random() < 0.8 else "")


def own_key(a, b):
    return tuple(sorted((a, b)))


def expected_table(t):
    """own reading of the table semantics: {canonical Voigt pair or label -> value}, later column wins"""
    rows = []
    for vol, vals in t["rows"]:
        dct = {}
        for k, v in zip(t["keys"], vals):
            kk = own_key(k[1], k[2]) if k[0] == "K" else k[1]
            dct[kk] = Decimal(v[0]).scaleb(-v[1])
        rows.append((Decimal(vol[0]).scaleb(-vol[1]), dct))
    lat = [[Decimal(x[0]).scaleb(-x[1]) for x in r] for r in (t["lat"] or [])]
    return rows, lat


def obs_elast_term(o):
    if o is None:
        return "None"
    r = dec_of_float_repr

    def kterm(k):
        if isinstance(k, str):
            return "L %s" % coq_string(k)
        return "K %d %d %d %d" % (k.i.i, k.i.j, k.j.i, k.j.j)
    try:
        rows = "[" + ";\n  ".join("(%s, [%s])" % (dterm(r(v.volume)), "; ".join(
            "(%s, %s)" % (kterm(k), dterm(r(x))) for k, x in v.static_elastic_modulus.items())) for v in o.volumes) + "]"
        lat = "[" + "; ".join(dlist([r(x) for x in row]) for row in o.lattice_parmeters) + "]"
        return "Some (mkelast (%s) %s (%s)\n  %s\n  %s)" % (dterm(r(o.vref)), zlit(o.nv), dterm(r(o.cellmass)), rows, lat)
    except Exception:
        return "Some (mkelast (X 0) (-1) (X 0) [] [])"


def compare_elast(o, t):
    """None if read_elast_data's result o is exactly the tabulated data, else a description"""
    rows, lat = expected_table(t)
    D = lambda x: Decimal(repr(float(x)))
    if D(o.vref) != Decimal(t["vref"][0]).scaleb(-t["vref"][1]):
        return "vref", o.vref
    if o.nv != t["nv"]:
        return "nv", o.nv
    if D(o.cellmass) != Decimal(t["mass"][0]).scaleb(-t["mass"][1]):
        return "cellmass", o.cellmass
    if len(o.volumes) != len(rows):
        return "number-of-rows", len(o.volumes)
    for i, (ov, (vol, dct)) in enumerate(zip(o.volumes, rows)):
        if D(ov.volume) != vol:
            return "volume", [i, ov.volume]
        got = {}
        for k, x in ov.static_elastic_modulus.items():
            kk = k if isinstance(k, str) else tuple(k.voigt)
            if kk in got:
                return "duplicate-key", [i, str(kk)]
            got[kk] = D(x)
        if got != dct:
            bad = sorted(str(k) for k in set(got) ^ set(dct)) or sorted(str(k) for k in dct if got[k] != dct[k])
            return "components", [i, bad[:4]]
    olat = [[D(x) for x in r] for r in o.lattice_parmeters]
    if olat != lat:
        return "lattice", [list(r) for r in o.lattice_parmeters][:3]
    return None


def stage_elast(ctx, rd):
    import cij.io.traditional.elast_dat as E
    importlib.reload(E)
    rng = ctx.rng
    n = 120 if ctx.tier == "quick" else 2500
    recs = []
    for i in range(n):
        kind = rng.choice(["plain", "plain", "plain", "short", "long", "nvplus"])
        t = draw_table(rng, kind)
        text = render_table(rng, t, kind)
        bad = None
        if i % 10 == 9:          # tables on which the reader must raise or mis-keys are visible
            bad = rng.choice(["onedigit", "badindex", "threedigits", "fewrows", "firstdigit"])
            L = text.split("\n")
            if bad == "onedigit":
                L[2] = L[2] + " c1"
            elif bad == "badindex":
                L[2] = L[2] + " " + rng.choice(["c17", "c70", "c1141", "c08"])
            elif bad == "threedigits":
                L[2] = L[2] + " c123"
            elif bad == "fewrows":
                L = L[:3 + max(0, t["nv"] - 1)]
            else:
                L[2] = L[2].replace(t["first"], "V0", 1)
            text = "\n".join(L)
        path = rd / ("elast_%03d.dat" % i)
        path.write_text(text, encoding="ascii", newline="")
        o, err = safe_read(E.read_elast_data, path)
        ctx.case(["elast", text])
        ctx.count("static tables" + (" (malformed: %s)" % bad if bad else ""))
        if t["lat"] is not None and not bad:
            ctx.count("static tables with lattice block")
        if bad is None:
            why = ("raises", err) if o is None else compare_elast(o, t)
            if why:
                ctx.failure("elast-%s" % why[0], "read_elast_data does not return the tabulated %s (%r)" % why,
                            input=dict(text=text), labels=t["labels"], observed=why[1])
        recs.append((coq_string(text), obs_elast_term(o)))
        if i < 1:
            ctx.sample(dict(kind="static table", text=text[:400]))
    files = []
    per = 150
    for s in range(0, len(recs), per):
        f = rd / ("cases_elast_%02d.v" % (s // per))
        write(f, HEADER_COMMON + "Definition cases : list (string * option elast) := [\n"
              + ";\n".join("(%s,\n %s)" % r for r in recs[s:s + per]) + "].\n"
              + "Eval vm_compute in (bad_cases (fun c => oelast_veq (parse_elast_text (lb (fst c))) (snd c)) cases).\n")
        files.append(f)
    # the canonical-key table of the static copy against c_() on every 2- and 4-digit spelling
    from cij.util.voigt import ModulusRepresentation as C
    rows = []
    import itertools
    for n_ in (1, 2, 3, 4, 5):
        rngs = [range(0, 8)] * n_ if n_ <= 2 else [range(0, 5 if n_ < 5 else 4)] * n_
        for ds in itertools.product(*rngs):
            s = "".join(map(str, ds))
            try:
                k = C.create(s)
                obs = "Some (K %d %d %d %d)" % (k.i.i, k.i.j, k.j.i, k.j.j)
            except BaseException:
                obs = "None"
            rows.append("(L %s, %s)" % (coq_string("pre" + s), obs))
            ctx.case(["key", s])
    ctx.count("digit strings for the canonical-key table", len(rows))
    f = rd / "cases_keys.v"
    write(f, HEADER_COMMON + "Definition cases : list (key * option key) := [\n" + ";\n".join(rows) + "].\n" + r"""
Definition okey_eqb (a b : option key) := match a, b with Some x, Some y => key_eqb x y | None, None => true | _, _ => false end.
Eval vm_compute in (bad_cases (fun c => match fst c with KStr s => okey_eqb (find_modulus_key s) (snd c) | _ => false end) cases).
""")
    files.append(f)
    return files


# ----------------------------------------------------------------------------------------
# D. fill command
# ----------------------------------------------------------------------------------------

SYSTEMS = ["triclinic", "monoclinic", "orthorhombic", "tetragonal7", "tetragonal6", "trigonal7", "trigonal6",
           "hexagonal", "cubic"]
INDEP = {
    "cubic": ["11", "12", "44"],
    "hexagonal": ["11", "33", "12", "13", "44"],
    "trigonal6": ["11", "33", "12", "13", "44", "14"],
    "trigonal7": ["11", "33", "12", "13", "44", "14", "15"],
    "tetragonal6": ["11", "33", "12", "13", "44", "66"],
    "tetragonal7": ["11", "33", "12", "13", "44", "66", "16"],
    "orthorhombic": ["11", "22", "33", "12", "13", "23", "44", "55", "66"],
    "monoclinic": ["11", "22", "33", "12", "13", "23", "44", "55", "66", "15", "25", "35", "46"],
    "triclinic": ["%d%d" % p for p in PAIRS],
}


def expand_system(system, x):
    """full set of non-zero components implied by the independent ones (own crystal-physics table)"""
    c = dict(x)
    if system in ("cubic",):
        c.update({"22": x["11"], "33": x["11"], "13": x["12"], "23": x["12"], "55": x["44"], "66": x["44"]})
    if system in ("hexagonal", "trigonal6", "trigonal7", "tetragonal6", "tetragonal7"):
        c.update({"22": x["11"], "23": x["13"], "55": x["44"]})
    if system in ("hexagonal", "trigonal6", "trigonal7"):
        c["66"] = (x["11"] - x["12"]) / 2
    if system in ("trigonal6", "trigonal7"):
        c.update({"24": -x["14"], "56": x["14"]})
    if system == "trigonal7":
        c.update({"25": -x["15"], "46": -x["15"]})
    if system == "tetragonal7":
        c["26"] = -x["16"]
    return c


def dtok(x):
    s = format(x, "f")
    return s if "." in s else s + ".0"


def stage_fill(ctx, rd):
    import cij.io.traditional.elast_dat as E
    import cij.cli.fill as F
    importlib.reload(F)
    from click.testing import CliRunner
    rng = ctx.rng
    reps = 2 if ctx.tier == "quick" else 20
    recs = []
    cwd = os.getcwd()
    os.chdir(rd)          # fill_cij looks for a path named like the system in the cwd
    try:
        for rep in range(reps):
            for system in SYSTEMS:
                nv = rng.randint(1, 7)
                rows = []
                for _ in range(nv):
                    x = {}
                    for k in INDEP[system]:
                        big = k in ("11", "22", "33")
                        x[k] = Decimal(rng.randint(2000000, 9000000) if big else rng.randint(100000, 1500000)).scaleb(-4)
                        if k[0] != k[1] and k not in ("12", "13", "23") and rng.random() < 0.5:
                            x[k] = -x[k]
                    rows.append(expand_system(system, x))
                full = list(rows[0].keys())
                extra = [k for k in full if k not in INDEP[system]]
                cols = list(INDEP[system]) + rng.sample(extra, rng.randint(0, len(extra)))
                if rep % 2 == 1 and system != "triclinic":
                    zero = [k for k in INDEP["triclinic"] if k not in full]
                    cols += rng.sample(zero, rng.randint(0, min(3, len(zero))))
                rng.shuffle(cols)
                pre = rng.choice(["c", "C"])
                with_lat = rng.random() < 0.6
                L = ["V_0 N cellmass %s rep%d" % (system, rep),
                     "%s   %d   %s" % (Decimal(rng.randint(1, 9999999)).scaleb(-3), nv, Decimal(rng.randint(1, 999999)).scaleb(-3))]
                L.append("   ".join(["V"] + [pre + k for k in cols]))
                vols = [Decimal(rng.randint(100000, 30000000)).scaleb(-4) for _ in range(nv)]
                for v, r in zip(vols, rows):
                    L.append("  ".join([dtok(v)] + [dtok(r.get(k, Decimal("0.0"))) for k in cols]))
                if with_lat:
                    L.append("lattice_a  lattice_b  lattice_c")
                    for _ in range(nv):
                        L.append("   ".join("%.8f" % rng.uniform(3, 15) for _ in range(3)))
                    if rng.random() < 0.5:
                        L.append("# trailing remark")
                text = "\n".join(L) + "\n"
                name = "fill_%s_%d.dat" % (system, rep)
                (rd / name).write_text(text, encoding="ascii", newline="")
                ctx.case(["fill", system, text])
                ctx.count("fill invocations")
                key = "fill-%s" % system
                inp = dict(system=system, file=text)
                res = CliRunner().invoke(F.main, ["-s", system, name])
                out = res.stdout if hasattr(res, "stdout") else res.output
                ref, rerr = safe_read(E.read_elast_data, rd / name)
                try:
                    E.apply_symetry_on_elast_data(ref, {"system": system})
                except BaseException as e:
                    ref, rerr = None, "%s: %s" % (type(e).__name__, e)
                if res.exit_code != 0 or res.exception is not None:
                    if ref is not None:
                        ctx.failure(key + "-raises", "cij fill -s %s fails (%r) although the symmetry fill of the parsed file succeeds"
                                    % (system, res.exception), input=inp)
                    continue
                oname = "fill_%s_%d.out" % (system, rep)
                (rd / oname).write_text(out, encoding="ascii", newline="")
                o, err = safe_read(E.read_elast_data, rd / oname)
                recs.append((coq_string(out), obs_elast_term(o)))
                if rep == 0 and system == "hexagonal":
                    ctx.sample(dict(kind="cij fill -s hexagonal", input=text[:500], stdout=out[:500]))
                if o is None:
                    ctx.failure(key + "-unparsable", "stdout of cij fill -s %s is not a valid static table (%s)" % (system, err),
                                input=inp, stdout=out)
                    continue
                if ref is None:
                    ctx.failure(key + "-reference", "apply_symetry_on_elast_data fails (%s) while the command succeeds" % rerr, input=inp)
                    continue
                ol, tl = out.split("\n"), text.split("\n")
                if ol[:2] != tl[:2]:
                    ctx.failure(key + "-header", "header lines not preserved", input=inp, observed=ol[:2], expected=tl[:2])
                if ol[3 + nv:] != tl[3 + nv:]:
                    ctx.failure(key + "-remainder", "text after the table (lattice block) not preserved", input=inp,
                                observed=ol[3 + nv:][:4], expected=tl[3 + nv:][:4])
                if (o.vref, o.nv, o.cellmass) != (ref.vref, ref.nv, ref.cellmass) or o.lattice_parmeters != ref.lattice_parmeters:
                    ctx.failure(key + "-meta", "vref/nv/cellmass/lattice of the output differ from the input's", input=inp,
                                observed=[o.vref, o.nv, o.cellmass], expected=[ref.vref, ref.nv, ref.cellmass])
                if len(o.volumes) != len(ref.volumes):
                    ctx.failure(key + "-rows", "output has %d rows, input %d" % (len(o.volumes), len(ref.volumes)), input=inp)
                    continue
                for i, (a, b) in enumerate(zip(o.volumes, ref.volumes)):
                    if abs(a.volume - b.volume) > 5.0001e-7:
                        ctx.failure(key + "-volume", "volume of row %d changed: %r -> %r" % (i, b.volume, a.volume), input=inp)
                        break
                    ka, kb = set(a.static_elastic_modulus), set(b.static_elastic_modulus)
                    if ka != kb:
                        ctx.failure(key + "-keys", "components of row %d: output has %s, symmetry fill of the input has %s"
                                    % (i, sorted(map(repr, ka - kb)), sorted(map(repr, kb - ka))), input=inp, stdout=out)
                        break
                    badk = [repr(k) for k in ka if abs(a.static_elastic_modulus[k] - b.static_elastic_modulus[k]) > 5.0001e-7]
                    if badk:
                        k0 = next(k for k in ka if repr(k) == badk[0])
                        ctx.failure(key + "-values", "row %d component %s: output %r, symmetry fill of the input %r"
                                    % (i, badk[0], a.static_elastic_modulus[k0], b.static_elastic_modulus[k0]),
                                    input=inp, stdout=out)
                        break
        # D8 probe (known defect, planned fix under C09): integer-typed columns
        name = "fill_int.dat"
        text = "V_0 N cellmass test\n100.5 2 50.25\nV C11 c33 c12 c13 C44\n100.5 300 250.5 100 80 70\n90.25 350 290 120 95.125 85\n"
        (rd / name).write_text(text)
        res = CliRunner().invoke(F.main, ["-s", "hexagonal", name])
        ref, _ = safe_read(E.read_elast_data, rd / name)
        try:
            E.apply_symetry_on_elast_data(ref, {"system": "hexagonal"})
            ref_ok = True
        except BaseException:
            ref_ok = False
        ctx.case(["fill-int", text])
        if ref_ok and (res.exit_code != 0 or res.exception is not None):
            ctx.failure("fill-int-column", "cij fill crashes on a table with an integer-typed column (%r) although the symmetry "
                        "fill of the parsed file succeeds" % (res.exception,), input=dict(system="hexagonal", file=text))
        # observations outside the quantifier of the property (recorded in the evidence, not failures):
        # labels the reader accepts but the command does not
        obs = {}
        for nm_, lab in (("prefix C_", "V C_11 c_33 c_12 c_13 C_44"), ("lower-triangle label c21", "V c11 c33 c21 c13 c44")):
            text = "hdr\n100.5 2 50.25\n%s\n100.5 300.5 250.5 100.5 80.5 70.5\n90.25 350.5 290.5 120.5 95.125 85.5\n" % lab
            (rd / "fill_obs.dat").write_text(text)
            res = CliRunner().invoke(F.main, ["-s", "hexagonal", "fill_obs.dat"])
            ref, _ = safe_read(E.read_elast_data, rd / "fill_obs.dat")
            try:
                E.apply_symetry_on_elast_data(ref, {"system": "hexagonal"})
                rk = "symmetry fill of the parsed file succeeds"
            except BaseException as e:
                rk = "symmetry fill of the parsed file raises %s" % type(e).__name__
            obs[nm_] = dict(file=text, command="exit %s %r" % (res.exit_code, res.exception), reference=rk)
        ctx.extra["observations_outside_quantifier"] = obs
    finally:
        os.chdir(cwd)
    f = rd / "cases_fill.v"
    write(f, HEADER_COMMON + "Definition cases : list (string * option elast) := [\n"
          + ";\n".join("(%s,\n %s)" % r for r in recs) + "].\n"
          + "Eval vm_compute in (bad_cases (fun c => oelast_veq (parse_elast_text (lb (fst c))) (snd c)) cases).\n")
    return f


# ----------------------------------------------------------------------------------------

def run(ctx):
    rd = ctx.fresh_run_dir()
    ctx.rule = ("phonon data sets drawn from the seeded rng: 1-12 volumes, 1-10 q-points, 3-60 modes (extremes forced), every "
                "number an integer mantissa at the written number of decimals with |x| <= 1e5 (0, +-1e5, 9..9/10..0 carries, "
                "1-9 ulp values, log-uniform magnitudes, either sign), every fourth set arbitrary binary floats incl. exact "
                "half-way cases ('rounding'); comments incl. near-header lines; foreign-style and damaged phonon files; static "
                "tables with 1-21 columns in random order, random prefixes/cases/spellings (Voigt either order, 4-index), "
                "duplicate components, extra/missing values, number formats (fixed, exponent, +), with/without lattice block, "
                "malformed labels; nine systems x consistent tables for the command.  Every distinct file counts as one "
                "non-trivial case.")
    ctx.trusted += [
        "hand-written Gallina transcription of qha_input.py / elast_dat.py (TextModel.v, QhaInputModel.v, ElastDatModel.v); "
        "tied on every run by byte-for-byte comparison of write_energy output with print_qha_text and of the readers' results "
        "with parse_qha_text / parse_elast_text inside Coq (not a translator: a change of the source that the generated "
        "cases do not exercise is not noticed)",
        "CPython float()/'%f'/repr are correctly rounded (used to move between binary64 and the decimal model); ASCII files only",
        "regular expressions are transcribed by hand as deterministic matchers (argument in the comments of QhaInputModel.v)",
        "pandas read_table/to_string and fill_cij are not modelled: the fill clause is checked on the implementation only",
    ]
    ctx.partial += [
        "fill command clause: measured on generated tables for the nine systems (no Coq model of pandas/fill_cij); only "
        "labels of the form c<ij>/C<ij> are used for the command (cij fill itself does not accept other prefixes)",
    ]
    ctx.assumptions += ["comment passed to write_energy has no line matching the 5-integer header pattern",
                        "files are ASCII; numbers are finite decimals without underscores/inf/nan"]

    qfiles, qcases = stage_qha(ctx, rd)
    rfile = stage_qha_reader(ctx, rd)
    efiles = stage_elast(ctx, rd)
    ffile = stage_fill(ctx, rd)

    shutil.copy(PROPS / "Prop_C17.v", rd / "Prop_C17.v")
    ctx.prove(rd / "Prop_C17.v", "Prop_C17.v (qha_roundtrip, qha_roundtrip_rounding, qha_roundtrip_text, elast_parse_spec and "
              "key/layout/dict lemmas, fill_cli_structure, 3 examples)", "theorem-file")

    res = ctx.run_shards([f for f, _ in qfiles], label="write/read tie")
    for f, idx in qfiles:
        ok, fl, out = res[f]
        if fl:
            names = ["write_energy bytes", "read_energy vs model", "model parse vs rounded data", "comment hypothesis"]
            bad = {names[j]: [idx[i] for i in l] for j, l in enumerate(fl[:4]) if l}
            if bad:
                ctx.extra.setdefault("tie_failing", {})[f.name] = bad
    ctx.run_shards([rfile], label="reader tie")
    ctx.run_shards(efiles, label="static-table tie")
    ctx.run_shards([ffile], label="fill-output tie")
