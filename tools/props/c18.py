"""C18 - `cij run-static` reports a consistent static EoS / elasticity table in every mode.

Tie: the real command (click CliRunner on cij.cli.static.main) is run on synthetic data sets; its stdout
table is parsed and every column is compared INSIDE Coq (vm_compute, FOps instance) with the model
`s_run` of theories/StaticModel.v.  Tolerance per entry: |model - printed| <= 2e-6 + 1e-6 |printed|
(pandas prints 6 decimals, i.e. +-5e-7 absolute); where the model has to start from PRINTED moduli (fill
oracle with --system) the VRH columns additionally get the first-order propagation of that print resolution
through the 6x6 inverse (vrh_sensitivity).  A printed NaN must be NaN in the model.

Search stage: an oracle written from the property statement (own exact-rational least squares, chain rule
for -dF/dV, CODATA unit factors, Hill's formulas, rho v^2 relations) checks the column relations on every
invocation and reports concrete (mode, options, row, column) failures.  Key `pressure-F-column` is the probe
for the former defect D9 (F column repeating V in pressure mode; repaired in /repo ed06662).
"""
import io
import math
import re
import shutil
from fractions import Fraction

import numpy
import pandas

from vlib import REPO, PROPS, write, fhex, flist, flist2, qlit
import synth

RTOL, ATOL = 1e-6, 2e-6

SYSTEM_KEYS = {
    "cubic": ["11", "12", "44"],
    "hexagonal": ["11", "33", "12", "13", "44"],
    "tetragonal6": ["11", "33", "12", "13", "44", "66"],
    "orthorhombic": synth.ORTHO,
    "monoclinic": list(synth.ORTHO) + ["15", "25", "35", "46"],     # mixed components of either sign
    "triclinic": synth.ALL_KEYS,
}
ALL_PAIRS = [(i, j) for i in range(1, 7) for j in range(i, 7)]          # order of s_all_keys
VRH_COLS = ["bm_V", "bm_R", "bm_VRH", "G_V", "G_R", "G_VRH", "v_p", "v_s", "v_phi"]

# CODATA 2018 (exact SI for e, N_A)
BOHR_A = Fraction(529177210903, 10 ** 12)
RY_EV = Fraction(13605693122994, 10 ** 12)
E_C = Fraction(1602176634, 10 ** 28)
N_A = Fraction(602214076, 10 ** 8) * 10 ** 23
ANG3 = float(BOHR_A ** 3)
EV = float(RY_EV)
GPA = float(RY_EV * E_C / (BOHR_A * Fraction(1, 10 ** 10)) ** 3 / 10 ** 9)
GCM3 = float(1 / N_A / (BOHR_A * Fraction(1, 10 ** 8)) ** 3)


# ------------------------------------------------------------------------------------------
# running the implementation
# ------------------------------------------------------------------------------------------

def parse_table(out):
    lines = out.splitlines()
    for i, ln in enumerate(lines):
        t = ln.split()
        if t and t[0] == "V":
            return pandas.read_table(io.StringIO("\n".join(lines[i:])), sep=r"\s+")
    return None


def invoke(main, args):
    from click.testing import CliRunner
    r = CliRunner().invoke(main, [str(a) for a in args])
    if r.exit_code != 0 or r.exception is not None:
        return None, "exit=%s exception=%r" % (r.exit_code, r.exception)
    df = parse_table(r.output)
    if df is None:
        return None, "no table in stdout: %r" % r.output[:200]
    return df, None


def build_args(c):
    a = [c["f1"]]
    if c["table"]:
        a.append(c["f2"])
    a += ["-I", c["mode"], "-n", c["ntv"]]
    if c["ratio"] is not None:
        a += ["--v-ratio", repr(c["ratio"])]
    if c["mode"] == "pressure":
        a += ["--p-min", repr(c["pmin"]), "--delta-p", repr(c["dp"])]
        if c["dps"] is not None:
            a += ["--delta-p-sample", repr(c["dps"])]
    if c["cellmass"] is not None:
        a += ["--cellmass", repr(c["cellmass"])]
    if c["system"]:
        a += ["-s", c["system"]]
    return a


def shown_args(c):
    a = build_args(c)
    return ["input01" if x == c["f1"] else "elast.dat" if x == c.get("f2") else str(x) for x in a]


# ------------------------------------------------------------------------------------------
# oracle (independent of the Coq model)
# ------------------------------------------------------------------------------------------

def strain(v0, v):
    return 0.5 * ((v0 / v) ** (2.0 / 3.0) - 1.0)


def lsq2(xs, ys):
    """exact least-squares quadratic through the float data (normal equations in Fraction)"""
    X = [[Fraction(1), Fraction(x), Fraction(x) ** 2] for x in xs]
    Y = [Fraction(y) for y in ys]
    A = [[sum(r[i] * r[j] for r in X) for j in range(3)] + [sum(r[i] * y for r, y in zip(X, Y))] for i in range(3)]
    for k in range(3):
        p = next(r for r in range(k, 3) if A[r][k] != 0)
        A[k], A[p] = A[p], A[k]
        A[k] = [x / A[k][k] for x in A[k]]
        for r in range(3):
            if r != k:
                A[r] = [x - A[r][k] * y for x, y in zip(A[r], A[k])]
    return [float(A[i][3]) for i in range(3)]


class Fit:
    """G(V) = a0 + a1 f + a2 f^2,  f = ((v0/V)^(2/3) - 1)/2, and its V-derivatives"""

    def __init__(self, vols, ys):
        self.v0 = vols[0]
        self.a = lsq2([strain(self.v0, v) for v in vols], ys)

    def f(self, v):
        return strain(self.v0, v)

    def d1(self, v):
        return -(1.0 / 3.0) * (self.v0 / v) ** (2.0 / 3.0) / v

    def d2(self, v):
        return (5.0 / 9.0) * (self.v0 / v) ** (2.0 / 3.0) / v ** 2

    def d3(self, v):
        return -(40.0 / 27.0) * (self.v0 / v) ** (2.0 / 3.0) / v ** 3

    def G(self, v):
        x = self.f(v)
        return self.a[0] + self.a[1] * x + self.a[2] * x * x

    def lin(self, v):
        return self.a[1] + 2 * self.a[2] * self.f(v)

    def G1(self, v):
        return self.lin(v) * self.d1(v)

    def G2_bound(self, lo, hi):
        m = max(abs(self.lin(lo)), abs(self.lin(hi)))
        return 2 * abs(self.a[2]) * self.d1(lo) ** 2 + m * abs(self.d2(lo))

    def G3_bound(self, lo, hi):
        m = max(abs(self.lin(lo)), abs(self.lin(hi)))
        return 6 * abs(self.a[2]) * abs(self.d1(lo)) * abs(self.d2(lo)) + m * abs(self.d3(lo))


def grad_bounds(fit, vg):
    """rigorous bound (Ry/bohr^3) on |p_grid[k] + G'(v_k)| for numpy.gradient's formulas on a uniform grid:
    interior h^2/6 max|G'''|, ends h/2 max|G''| (Taylor with Lagrange remainder; maxima bounded termwise)"""
    n = len(vg)
    h = vg[1] - vg[0]
    b = []
    for k in range(n):
        if k == 0:
            b.append(h / 2 * fit.G2_bound(vg[0], vg[1]))
        elif k == n - 1:
            b.append(h / 2 * fit.G2_bound(vg[-2], vg[-1]))
        else:
            b.append(h * h / 6 * fit.G3_bound(vg[k - 1], vg[k + 1]))
    return b


def close(a, b, rtol=RTOL, atol=ATOL):
    return abs(a - b) <= atol + rtol * abs(b)



def vrh_sensitivity(df, r, eps=5e-7):
    """first-order bound on the change of the VRH columns of row r when every printed modulus moves by eps
    (= print resolution): ds = -s dc s.  Used only where the model has to start from PRINTED moduli
    (fill oracle) - cancellation in bm_VRH = (bm_V + bm_R)/2 or a nearly singular tensor amplifies it."""
    cm = numpy.zeros((6, 6))
    mask = numpy.zeros((6, 6))
    for (i, j) in ALL_PAIRS:
        name = "c%d%d" % (i, j)
        if name in df.columns:
            cm[i - 1, j - 1] = cm[j - 1, i - 1] = df[name].iloc[r]
            mask[i - 1, j - 1] = mask[j - 1, i - 1] = eps
    try:
        s = numpy.abs(numpy.linalg.inv(cm))
    except numpy.linalg.LinAlgError:
        return None
    ds = 2 * s @ mask @ s
    kr, gr = df["bm_R"].iloc[r], df["G_R"].iloc[r]
    dk = ds[:3, :3].sum()
    dg = 4 * ds[:3, :3].sum() + 3 * (ds[3, 3] + ds[4, 4] + ds[5, 5])
    out = dict(bm_V=9 * eps / 9 * 2, G_V=15 * eps / 15 * 2, bm_R=2 * kr * kr * dk, G_R=2 * gr * gr / 15 * dg)
    out["bm_VRH"] = (out["bm_V"] + out["bm_R"]) / 2
    out["G_VRH"] = (out["G_V"] + out["G_R"]) / 2
    rho = df["density"].iloc[r]
    for name, dm in (("v_phi", out["bm_VRH"]), ("v_s", out["G_VRH"]), ("v_p", out["bm_VRH"] + 4 / 3 * out["G_VRH"])):
        v = df[name].iloc[r]
        out[name] = math.sqrt(dm / rho) if (math.isnan(v) or v <= 0) else min(math.sqrt(dm / rho), dm / (rho * v))
    return out


def oracle_case(ctx, c, df):
    """check the property statement on one invocation; returns number of failures recorded"""
    nfail = 0
    mode = c["mode"]
    tag = " ".join(shown_args(c))

    def fail(key, what, row, col, expected, observed):
        nonlocal nfail
        nfail += 1
        ctx.failure(key, what, input=dict(args=shown_args(c), mode=mode, row=int(row), column=col,
                                          dataset=c["data"]),
                    expected=expected, observed=observed)

    vols, ens = c["vols"], c["ens"]
    fit = Fit(vols, ens)
    ntv = c["ntv"]
    ratio = c["ratio"] if c["ratio"] is not None else 1.2
    vg = list(numpy.linspace(min(vols) / ratio, max(vols) * ratio, ntv))
    gb = grad_bounds(fit, vg)
    V = [x / ANG3 for x in df["V"]]                       # bohr^3
    Fo = [x / EV for x in df["F"]]                        # Ry
    Po = [x / GPA for x in df["P"]]                       # Ry/bohr^3
    n = len(df)
    idx = list(df.index)
    prt = 1e-6                                            # print resolution (absolute, printed units)

    # ---- rows / V / F / P per mode
    if mode == "none":
        if n != len(vols):
            fail("none-rows", "mode none: %d rows for %d input volumes" % (n, len(vols)), 0, "V", len(vols), n)
            return nfail
        h = vg[1] - vg[0]
        for r in range(n):
            if not close(df["V"].iloc[r], vols[r] * ANG3):
                fail("none-V", "mode none: V is not the input volume in A^3 [%s]" % tag, r, "V",
                     vols[r] * ANG3, df["V"].iloc[r])
                break
        for r in range(n):
            if not close(df["F"].iloc[r], ens[r] * EV):
                fail("none-F", "mode none: F is not the input energy in eV [%s]" % tag, r, "F",
                     ens[r] * EV, df["F"].iloc[r])
                break
        # P vs exact derivative: measured.  tolerance = interior gradient bound near the row + the
        # end-node one-sided error damped by the spline (factor 0.3 per node, empirical) + 1e-4 relative
        for r in range(n):
            k = min(max(int((vols[r] - vg[0]) / h), 1), ntv - 2)
            d_end = min(k, ntv - 1 - k)
            tol = 3 * max(gb[max(k - 2, 1):min(k + 3, ntv - 1)]) + max(gb[0], gb[-1]) * 0.35 ** d_end * 3
            want = -fit.G1(vols[r])
            c.setdefault("ptol", []).append((tol + 1e-4 * abs(want)) * GPA + prt)
            if abs(Po[r] - want) * GPA > c["ptol"][-1]:
                fail("none-P", "mode none: P is not -dF/dV of the fit (measured; tol %.3g GPa) [%s]"
                     % (c["ptol"][-1], tag), r, "P", want * GPA, df["P"].iloc[r])
                break
    elif mode == "volume":
        if n != ntv:
            fail("volume-rows", "mode volume: %d rows, ntv = %d" % (n, ntv), 0, "V", ntv, n)
            return nfail
        for r in range(n):
            if not close(df["V"].iloc[r], vg[r] * ANG3):
                fail("volume-V", "mode volume: V is not linspace(min/ratio, max*ratio, ntv) in A^3 [%s]" % tag,
                     r, "V", vg[r] * ANG3, df["V"].iloc[r])
                break
        for r in range(n):
            if not close(df["F"].iloc[r], fit.G(vg[r]) * EV):
                fail("volume-F", "mode volume: F is not the fit at the reported V [%s]" % tag, r, "F",
                     fit.G(vg[r]) * EV, df["F"].iloc[r])
                break
        for r in range(n):
            want = -fit.G1(vg[r])
            if abs(Po[r] - want) * GPA > 1.5 * gb[r] * GPA + prt + 1e-7 * abs(want) * GPA:
                fail("volume-P", "mode volume: P differs from -dF/dV of the fit by more than the finite-difference "
                     "error bound %.3g GPa [%s]" % (1.5 * gb[r] * GPA, tag), r, "P", want * GPA, df["P"].iloc[r])
                break
    else:
        step = 1
        if c["dps"]:
            step = round(c["dps"] / c["dp"])
        want_rows = list(range(0, ntv, step))
        if idx != want_rows:
            fail("pressure-rows", "mode pressure: row labels %s..., expected every %d-th of %d [%s]"
                 % (idx[:4], step, ntv, tag), 0, "P", want_rows[:6], idx[:6])
            return nfail
        for r, j in enumerate(idx):
            want = c["pmin"] + j * c["dp"]
            if not close(df["P"].iloc[r], want, atol=2e-6):
                fail("pressure-P", "mode pressure: row %d is not at p_min + j*delta_p GPa [%s]" % (j, tag), j, "P",
                     want, df["P"].iloc[r])
                break
        # F at the reported V: the fit.  V(P) and F(P) are 4-point Lagrange interpolants in P of the grids:
        # measured; tolerance 0.1 * (|G'| h + max|G''| h^2) (one tenth of the variation of the fit over a
        # grid cell; observed <= 0.02 of it on 120 random sets), plus the print resolution
        h = vg[1] - vg[0]
        for r, j in enumerate(idx):
            want = fit.G(V[r])
            k = min(max(int((V[r] - vg[0]) / h), 1), ntv - 2)
            scale = abs(fit.G1(V[r])) * h + fit.G2_bound(vg[max(k - 1, 0)], vg[min(k + 2, ntv - 1)]) * h * h
            if not abs(Fo[r] - want) <= 0.1 * scale + 2e-6 / EV:
                # stable key: this is where defect D9 (static.py line 99: _f_array = v2p1d(v_array, ...),
                # repaired in ed06662) shows up
                key = "pressure-F-column"
                what = "mode pressure: F is not the fit at the reported V"
                if close(Fo[r] * EV, V[r] * EV, rtol=1e-6):
                    what += " - it repeats the V column (bohr^3 value converted Ry->eV)"
                fail(key, what + " [%s]" % tag, j, "F", want * EV, df["F"].iloc[r])
                break
        h = vg[1] - vg[0]
        for r, j in enumerate(idx):
            k = min(max(int((V[r] - vg[0]) / h), 1), ntv - 2)
            tol = 8 * max(gb[max(k - 2, 1):min(k + 4, ntv - 1)]) + 1e-3 * abs(Po[r])
            if k <= 2 or k >= ntv - 4:
                tol += max(gb[0], gb[-1])
            want = -fit.G1(V[r])
            if abs(Po[r] - want) > tol + prt / GPA:
                fail("pressure-PV", "mode pressure: requested P is not -dF/dV of the fit at the reported V "
                     "(measured; tol %.3g GPa) [%s]" % (tol * GPA, tag), j, "V", want * GPA, df["P"].iloc[r])
                break

    # ---- density
    mass = c["cellmass"] if c["cellmass"] is not None else (c["elast"]["cellmass"] if c["table"] else None)
    if mass is not None:
        if "density" not in df.columns:
            fail("density-missing", "no density column although a cell mass is known [%s]" % tag, 0, "density", "column", None)
        else:
            for r in range(n):
                want = mass / V[r] * GCM3
                if not close(df["density"].iloc[r], want, rtol=3e-6):
                    fail("density", "density is not cellmass/V in g/cm^3%s [%s]"
                         % (" (--cellmass must override the table's mass)" if c["cellmass"] is not None else "", tag),
                         idx[r], "density", want, df["density"].iloc[r])
                    break
    if not c["table"]:
        return nfail

    # ---- moduli: fit of each table column at the row's volume
    el = c["elast"]
    for kk, key in enumerate(el["keys"]):
        col = "c" + key
        if col not in df.columns:
            fail("modulus-missing-" + col, "column %s missing [%s]" % (col, tag), 0, col, "column", None)
            continue
        mf = Fit(el["volumes"], [row[kk] for row in el["rows"]])
        for r in range(n):
            want = mf.G(V[r])
            if not close(df[col].iloc[r], want, rtol=1e-5, atol=1e-4):
                fail("modulus-fit", "%s is not the finite-strain fit of the table at the row's volume [%s]" % (col, tag),
                     idx[r], col, want, df[col].iloc[r])
                break
        else:
            continue
        break

    # ---- VRH and velocities from the printed moduli of the row
    for r in range(n):
        cm = numpy.zeros((6, 6))
        for (i, j) in ALL_PAIRS:
            name = "c%d%d" % (i, j)
            if name in df.columns:
                cm[i - 1, j - 1] = cm[j - 1, i - 1] = df[name].iloc[r]
        sm = numpy.linalg.inv(cm)
        kv = (cm[0, 0] + cm[1, 1] + cm[2, 2] + 2 * (cm[0, 1] + cm[1, 2] + cm[0, 2])) / 9
        kr = 1 / (sm[0, 0] + sm[1, 1] + sm[2, 2] + 2 * (sm[0, 1] + sm[1, 2] + sm[0, 2]))
        gv = (cm[0, 0] + cm[1, 1] + cm[2, 2] - (cm[0, 1] + cm[1, 2] + cm[0, 2])
              + 3 * (cm[3, 3] + cm[4, 4] + cm[5, 5])) / 15
        gr = 15 / (4 * (sm[0, 0] + sm[1, 1] + sm[2, 2]) - 4 * (sm[0, 1] + sm[1, 2] + sm[0, 2])
                   + 3 * (sm[3, 3] + sm[4, 4] + sm[5, 5]))
        k, g = (kv + kr) / 2, (gv + gr) / 2
        rho = df["density"].iloc[r]
        want = dict(bm_V=kv, bm_R=kr, bm_VRH=k, G_V=gv, G_R=gr, G_VRH=g)
        sens = vrh_sensitivity(df, r) or {}
        bad = False
        for name, w in want.items():
            if not close(df[name].iloc[r], w, rtol=1e-5, atol=1e-4 + 2 * sens.get(name, 0.0)):
                fail("vrh-" + name, "%s is not the Voigt/Reuss/Hill average of the row's moduli [%s]" % (name, tag),
                     idx[r], name, w, df[name].iloc[r])
                bad = True
                break
        if bad:
            break
        K, G = df["bm_VRH"].iloc[r], df["G_VRH"].iloc[r]
        for name, m in (("v_phi", K), ("v_s", G), ("v_p", K + 4.0 / 3.0 * G)):
            v = df[name].iloc[r]
            if m / rho < 0:
                if not math.isnan(v):
                    fail("velocity-" + name, "%s of a negative modulus is not NaN [%s]" % (name, tag), idx[r], name,
                         "nan", v)
                    bad = True
                continue
            # rho v^2 = M  (g/cm^3 * (km/s)^2 = GPa); v printed to 6 decimals
            if math.isnan(v) or abs(rho * v * v - m) > 1e-5 * abs(m) + 2 * rho * abs(v) * 1e-6 + 1e-5:
                fail("velocity-" + name, "rho * %s^2 is not the corresponding modulus [%s]" % (name, tag), idx[r], name,
                     math.sqrt(m / rho), v)
                bad = True
        if bad:
            break
    return nfail


# ------------------------------------------------------------------------------------------
# cases
# ------------------------------------------------------------------------------------------

def make_cases(ctx, rd, main):
    rng = ctx.rng
    ncases = 30 if ctx.tier == "quick" else 400
    cases = []
    tabs = ["none", "ortho", "full", "cubic", "hexagonal", "orthorhombic", "tetragonal6", "monoclinic"]
    for i in range(ncases):
        mode = ["none", "volume", "pressure"][i % 3]
        tk = tabs[(i // 3) % len(tabs)] if i >= 3 else ["none", "ortho", "ortho"][i]
        nv = rng.randint(4, 12)
        system = None
        if tk in ("none", "ortho"):
            keys = synth.ORTHO
        elif tk == "full":
            keys = synth.ALL_KEYS
        else:
            keys, system = SYSTEM_KEYS[tk], tk
        # the static table carries its own volume list: the phonon file's, other points (same / other count), any row order
        # (per block of three cases = the three modes: odd blocks on the phonon file's volumes as listed, even blocks on
        # other points; rows reversed / shuffled in every other block of each kind)
        j = i // 3
        tv = ("same" if j % 2 == 1 else ["shifted", "more", "fewer"][(j // 2) % 3]) if tk != "none" else "same"
        ds = synth.make_dataset(rng, nv=nv, keys=keys, table_volumes=tv)
        ro = ["as-listed", "as-listed", "shuffled", "reversed"][j % 4] if tk != "none" else "as-listed"
        if ro != "as-listed":
            el = ds["elast"]
            perm = list(range(len(el["volumes"])))
            if ro == "reversed":
                perm.reverse()
            else:
                rng.shuffle(perm)
            el["volumes"] = [el["volumes"][k] for k in perm]
            el["rows"] = [el["rows"][k] for k in perm]
            if el["lattice"]:
                el["lattice"] = [el["lattice"][k] for k in perm]
        ctx.count("static table volumes: %s, rows %s" % (tv, ro))
        d = rd / ("case%03d" % i)
        d.mkdir()
        synth.write_qha(d / "input01", ds["qha"])
        (d / "elast.dat").write_text(synth.elast_text(ds["elast"]))
        ntv = rng.choice([11, 21, 51, 101, 201, 401] if mode != "none" else [11, 51, 101, 201, 201, 401])
        if ctx.tier == "quick" and ntv == 401 and rng.random() < 0.5:
            ntv = 101
        c = dict(i=i, mode=mode, table=(tk != "none"), system=system, f1=str(d / "input01"), f2=str(d / "elast.dat"),
                 ntv=ntv, ratio=rng.choice([None, None, round(rng.uniform(1.05, 1.3), 3)]),
                 cellmass=rng.choice([None, None, round(rng.uniform(30, 200), 3)]),
                 pmin=0.0, dp=1.0, dps=None,
                 vols=[v["volume"] for v in ds["qha"]["volumes"]], ens=[v["energy"] for v in ds["qha"]["volumes"]],
                 elast=ds["elast"], tk=tk)
        c["data"] = dict(volumes=c["vols"], energies=c["ens"],
                         table=dict(vref=ds["elast"]["vref"], cellmass=ds["elast"]["cellmass"], keys=keys,
                                    volumes=ds["elast"]["volumes"], rows=ds["elast"]["rows"]) if c["table"] else None)
        if mode == "pressure":
            # pressure range inside the fitted range: up to the fit's pressure at the smallest input volume
            f = Fit(c["vols"], c["ens"])
            pmax = -f.G1(min(c["vols"])) * GPA
            c["pmin"] = rng.choice([0.0, 0.0, 2.5, round(rng.uniform(0, 10), 2)])
            c["dp"] = max(round((0.9 * pmax - c["pmin"]) / (ntv - 1), 3), 0.001)
            if rng.random() < 0.5:
                c["dps"] = rng.choice([2, 3, 5]) * c["dp"]
        cases.append(c)
    return cases


HEADER = r"""
From Coq Require Import ZArith QArith List Bool PrimFloat.
From Cij Require Import Ops FOps StaticModel.
Import ListNotations.
Local Open Scope float_scope.

(* |model - printed| <= t, t supplied per entry by the harness (2e-6 + 1e-6 |printed|, plus the propagated
   print resolution of the fill oracle's moduli in the VRH columns); a printed NaN (velocity of a negative
   modulus) must be NaN in the model *)
Definition within (t a b : float) : bool := if is_nan b then is_nan a else abs (a - b) <=? t.
Fixpoint within1 (t a b : list float) : bool :=
  match t, a, b with
  | [], [], [] => true
  | x :: t', y :: a', z :: b' => within x y z && within1 t' a' b'
  | _, _, _ => false
  end.
Fixpoint within2 (t a b : list (list float)) : bool :=
  match t, a, b with
  | [], [], [] => true
  | x :: t', y :: a', z :: b' => within1 x y z && within2 t' a' b'
  | _, _, _ => false
  end.
(* one invocation: model table vs printed table; in mode none additionally P vs the exact derivative of
   the fit within the harness-computed tolerance (GPa) *)
Definition chk (mode : nat) (vols ens spl : list float) (ratio pmin dp : float) (ntv step : nat)
           (tab : option (@s_table float)) (cellmass : option float) (fills : option (list (list float)))
           (obs tols : list (list float)) (ptol : list float) : bool :=
  within2 tols (s_run mode vols ens spl ratio pmin dp ntv step tab cellmass fills) obs
  && match mode with
     | O => forallb (fun x => let '(v, row, t) := x in
                      abs (s_to_gpa (s_pexact vols ens v) - nth 2 row 0) <=? t)
                    (combine (combine vols obs) ptol)
     | _ => true
     end.
(* numpy.linalg.inv is modelled by Gauss-Jordan elimination [s_inv]; certificate that it inverts *)
Definition inv_ok (c : list (list float)) : bool :=
  let s := s_inv c in
  forallb (fun i => forallb (fun j =>
     close 0 0x1.0c6f7a0b5ed8dp-20 (dot (nth i c []) (map (fun r => nth j r 0) s)) (if Nat.eqb i j then 1 else 0))
     (seq 0 6)) (seq 0 6).
"""


def coq_case(c, df):
    mode = {"none": 0, "volume": 1, "pressure": 2}[c["mode"]]
    cols = ["V", "F", "P"]
    if "density" in df.columns:
        cols.append("density")
    tab = "None"
    fills = "None"
    if c["table"]:
        el = c["elast"]
        cols += ["c" + k for k in el["keys"]] + VRH_COLS
        tab = "Some (%s, [%s], %s, %s)" % (
            flist(el["volumes"]), "; ".join("(%s, %s)%%nat" % (k[0], k[1]) for k in el["keys"]),
            flist2([[row[kk] for row in el["rows"]] for kk in range(len(el["keys"]))]), fhex(el["cellmass"]))
        if c["system"]:
            # one entry per UNSAMPLED row (the model samples last, like the code); rows that are not printed
            # get the previous printed row's values - they are dropped by the stride
            fl = []
            by_label = {int(lab): r for r, lab in enumerate(df.index)}
            nrows = max(by_label) + 1
            for lab in range(nrows):
                r = by_label.get(lab, r if lab else 0)
                fl.append([df["c%d%d" % p].iloc[r] if "c%d%d" % p in df.columns else 0.0 for p in ALL_PAIRS])
            fills = "(Some %s)" % flist2(fl)
    missing = [x for x in cols if x not in df.columns]
    if missing:
        return None, "columns missing in the output: %s" % missing
    obs = [[df[x].iloc[r] for x in cols] for r in range(len(df))]
    tols = []
    for r in range(len(df)):
        sens = (vrh_sensitivity(df, r) or {}) if (c["table"] and c["system"]) else {}
        tols.append([ATOL + RTOL * (0.0 if math.isnan(df[x].iloc[r]) else abs(df[x].iloc[r]))
                     + 2 * (sens.get(x, 0.0) if math.isfinite(sens.get(x, 0.0)) else 0.0) for x in cols])
    spl = [x / GPA for x in df["P"]] if mode == 0 else []
    step = "0%nat"
    if c["mode"] == "pressure" and c["dps"]:
        step = "(s_step %s %s)" % (qlit(c["dps"]), qlit(c["dp"]))
    ratio = c["ratio"] if c["ratio"] is not None else 1.2
    term = "chk %d %s %s %s %s %s %s %d %s\n  (%s)\n  %s\n  %s\n  %s\n  %s\n  %s" % (
        mode, flist(c["vols"]), flist(c["ens"]), flist(spl), fhex(ratio), fhex(c["pmin"]), fhex(c["dp"]),
        c["ntv"], step, tab, "None" if c["cellmass"] is None else "(Some %s)" % fhex(c["cellmass"]), fills,
        flist2(obs), flist2(tols), flist(c.get("ptol", [])))
    return term, None


def run(ctx):
    rd = ctx.fresh_run_dir()
    ctx.rule = ("synthetic static data sets (tools/synth.py: 4-12 strictly decreasing volumes, third-order "
                "Birch-Murnaghan energies rounded to 6 decimals, static tables with 3/5/6/9/21 moduli) x "
                "mode none/volume/pressure x grid size in {11,21,51,101,201,401} x v-ratio default or 1.05-1.3 x "
                "with/without table, --system (cubic, hexagonal, tetragonal6, orthorhombic, monoclinic with mixed components of either sign; table consistent "
                "with the system), --cellmass, pressure ranges inside the fitted range, optional sampling "
                "stride 2/3/5; every invocation is a distinct non-trivial case (a full printed table)")
    ctx.trusted += [
        "pandas DataFrame.to_string / read_table (6 printed decimals) and click CliRunner carry the table",
        "scipy InterpolatedUnivariateSpline (mode none, P column) is an oracle: its output is an input of the model; "
        "agreement with -dF/dV of the fit is measured against a stated finite-difference error bound",
        "cij.util.fill.fill_cij is an oracle when --system is given (its output is the model's input for the "
        "VRH block); covered by its own property",
        "numpy.linalg.lstsq is modelled by the normal equations (Cramer), numpy.linalg.inv by Gauss-Jordan "
        "elimination (per-row certificate c * s_inv c = I in the shards); pint factors are compared with "
        "CODATA-2018 rationals through every printed column",
    ]
    ctx.partial += [
        "mode none: 'P is the negative volume derivative of the fit' is measured (spline of finite differences), "
        "not proved; modes volume/pressure: P is numpy's finite-difference quotient, exact derivative only up to "
        "the O(h^2) (interior) / O(h) (end rows) term bounded in the search stage",
        "mode pressure: V(P), F(P) are 4-point Lagrange interpolants of the grids; their distance to the exact "
        "inverse EoS is measured",
    ]
    ctx.assumptions += ["volumes strictly decreasing, at least 4 volumes (at least 3 distinct strains)",
                        "ntv >= 5 (qha.v2p needs 4 grid columns), requested pressures inside the grid's range",
                        "static table, when --system is given, consistent with that system"]

    # static theorems (copy compiled per run so that Print Assumptions lands in the evidence)
    shutil.copy(PROPS / "Prop_C18.v", rd / "Prop_C18.v")
    ctx.prove(rd / "Prop_C18.v", "Prop_C18.v (18 theorems + 2 non-vacuity examples about StaticModel.v)", "theorem-file")
    # static translator tie: VRH / velocity block of cli/static.py regenerated and proved equal to s_vrh_row (over R)
    from props import vrh_static
    vrh_static.static_tie(ctx, rd, groups=vrh_static.STATIC_GROUPS)

    import importlib
    import cij.cli.static as S
    importlib.reload(S)
    main = S.main

    cases = make_cases(ctx, rd, main)
    terms = []
    for c in cases:
        label = "%s/%s/n=%d%s%s%s" % (c["mode"], c["tk"], c["ntv"], "/mass" if c["cellmass"] else "",
                                     "/ratio" if c["ratio"] else "", "/stride" if c["dps"] else "")
        df, err = invoke(main, build_args(c))
        ctx.case(dict(args=shown_args(c), data=c["data"]))
        ctx.count("mode " + c["mode"])
        ctx.count("table " + c["tk"])
        if err:
            ctx.failure("run-static-fails-%s" % c["mode"], "cij run-static fails: %s" % err,
                        input=dict(args=shown_args(c), dataset=c["data"]), expected="a table on stdout", observed=err)
            continue
        nf = oracle_case(ctx, c, df)
        term, err = coq_case(c, df)
        if term is None:
            ctx.failure("columns-%s" % c["mode"], err, input=dict(args=shown_args(c), dataset=c["data"]))
            continue
        terms.append((c, term, df))
        ctx.sample(dict(args=shown_args(c), rows=len(df), columns=list(df.columns),
                        first_row={k: float(v) for k, v in df.iloc[0].items()}, oracle_failures=nf), limit=4)
        ctx.count("rows", len(df))

    # shards
    per = 5
    files = []
    for s in range(0, len(terms), per):
        chunk = terms[s:s + per]
        txt = [HEADER]
        for k, (c, term, df) in enumerate(chunk):
            txt.append("Definition case%d : bool :=\n  %s." % (k, term))
        txt.append("Eval vm_compute in (failing (fun b : bool => b) [%s])."
                   % "; ".join("case%d" % k for k in range(len(chunk))))
        # inverse certificate on first/last row's matrix of cases with a table
        mats = []
        for c, term, df in chunk:
            if c["table"]:
                for r in (0, len(df) - 1):
                    mats.append([[df["c%d%d" % (min(i, j), max(i, j))].iloc[r]
                                  if "c%d%d" % (min(i, j), max(i, j)) in df.columns else 0.0
                                  for j in range(1, 7)] for i in range(1, 7)])
        txt.append("Eval vm_compute in (failing inv_ok [%s])." % ";\n ".join(flist2(m) for m in mats))
        files.append(write(rd / ("cases_C18_%02d.v" % (s // per)), "\n".join(txt)))
    res = ctx.run_shards(files, label="run-static vs s_run")
    bad_cases = []
    for fi, f in enumerate(files):
        ok, fl, out = res[f]
        if fl:
            for k in fl[0]:
                bad_cases.append(terms[fi * per + k][0])
    ctx.extra["tolerance"] = "|model - printed| <= %g + %g*|printed| (6 printed decimals)" % (ATOL, RTOL)
    ctx.extra["tie_failing_cases"] = [shown_args(c) for c in bad_cases][:20]
    # a shard mismatch without an oracle failure: point at the invocation
    if bad_cases and not ctx.failures:
        for c in bad_cases[:3]:
            ctx.failure("model-mismatch-%s" % c["mode"], "printed table differs from the Coq model s_run",
                        input=dict(args=shown_args(c), dataset=c["data"]))
