"""C07 - VRH averages, bounds and velocities are those of the full tensor in SI units.

Tie: the REAL CijVolumeBaseInterface / Calculator._calculate_compliances are run on stub calculators
carrying random positive-definite stiffness fields of every crystal class (and on a few complete
Calculator runs on synthetic data sets); every reported number is compared inside Coq with the FOps
instance of theories/VRHModel.v, the published compliances are checked to invert the assembled stiffness.
Theorems (theories/VRH.v, props/Prop_C07.v) are about the same definitions at the R instance.
Search stage: an oracle written from the property statement (full 3x3x3x3 tensors, exact rational
inverse, SI units) run against the implementation's outputs.
"""
import itertools
import json
import math
import shutil
import types
from fractions import Fraction

import numpy

from vlib import REPO, PROPS, write, fhex, zlit

RY_J = Fraction("2.1798723611035e-18")      # CODATA 2018 Rydberg energy in J
A0_M = Fraction("5.29177210903e-11")        # CODATA 2018 Bohr radius in m
N_AVO = Fraction("6.02214076e23")           # exact SI
ORTHO = ["11", "22", "33", "12", "13", "23", "44", "55", "66"]
ALL21 = ["%d%d" % (a, b) for a in range(1, 7) for b in range(a, 7)]
QUANT = ["bulk_modulus_voigt", "bulk_modulus_reuss", "bulk_modulus_voigt_reuss_hill",
         "shear_modulus_voigt", "shear_modulus_reuss", "shear_modulus_voigt_reuss_hill",
         "primary_velocities", "secondary_velocities"]
COND_MAX = 1e5        # beyond this the 1e-9 checks of the LAPACK inverse are not meaningful in binary64
GPA = 14710.507848260711                     # GPa per Ry/bohr^3 (harness-side scaling of inputs only)

# ---------------------------------------------------------------------------------------------------
# input generation (harness side; numpy allowed)
# ---------------------------------------------------------------------------------------------------
V2S = {1: (0, 0), 2: (1, 1), 3: (2, 2), 4: (1, 2), 5: (0, 2), 6: (0, 1)}


def rot(axis, n):
    """proper rotation by 2 pi / n about axis"""
    ax = numpy.array(axis, float)
    ax /= numpy.linalg.norm(ax)
    th = 2 * math.pi / n
    K = numpy.array([[0, -ax[2], ax[1]], [ax[2], 0, -ax[0]], [-ax[1], ax[0], 0]])
    return numpy.eye(3) + math.sin(th) * K + (1 - math.cos(th)) * (K @ K)


X, Y, Z, D111 = (1, 0, 0), (0, 1, 0), (0, 0, 1), (1, 1, 1)
LAUE = {   # rotational generators of the Laue classes (inversion acts trivially on a 4th-rank tensor)
    "triclinic": [],
    "monoclinic": [rot(Y, 2)],
    "orthorhombic": [rot(Z, 2), rot(X, 2)],
    "tetragonal7": [rot(Z, 4)],
    "tetragonal6": [rot(Z, 4), rot(X, 2)],
    "trigonal7": [rot(Z, 3)],
    "trigonal6": [rot(Z, 3), rot(X, 2)],
    "hexagonal": [rot(Z, 6), rot(X, 2)],
    "cubic": [rot(Z, 4), rot(D111, 3)],
}


def group_closure(gens):
    els = [numpy.eye(3)]
    frontier = [numpy.eye(3)]
    while frontier:
        new = []
        for g in frontier:
            for h in gens:
                p = g @ h
                if not any(numpy.allclose(p, e, atol=1e-9) for e in els):
                    els.append(p)
                    new.append(p)
        frontier = new
        assert len(els) <= 48
    return els


GROUPS = {}


def voigt_to_tensor(M):
    T = numpy.zeros((3, 3, 3, 3))
    for a in range(1, 7):
        for b in range(1, 7):
            i, j = V2S[a]
            k, l = V2S[b]
            for (p, q) in {(i, j), (j, i)}:
                for (r, s) in {(k, l), (l, k)}:
                    T[p, q, r, s] = M[a - 1, b - 1]
    return T


def tensor_to_voigt(T):
    M = numpy.zeros((6, 6))
    for a in range(1, 7):
        for b in range(1, 7):
            i, j = V2S[a]
            k, l = V2S[b]
            M[a - 1, b - 1] = T[i, j, k, l]
    return M


def project(M, cls):
    """group average of the stiffness (Voigt matrix) over the Laue class: symmetric, positive definite if M is"""
    if cls == "isotropic":
        T = voigt_to_tensor(M)
        ciijj = numpy.einsum("iijj", T)
        cijij = numpy.einsum("ijij", T)
        k = ciijj / 9
        g = (3 * cijij - ciijj) / 30
        lam = k - 2 * g / 3
        P = numpy.zeros((6, 6))
        P[:3, :3] = lam
        for i in range(3):
            P[i, i] = lam + 2 * g
            P[i + 3, i + 3] = g
        return P
    if cls not in GROUPS:
        GROUPS[cls] = group_closure(LAUE[cls])
    T = voigt_to_tensor(M)
    acc = numpy.zeros_like(T)
    for R in GROUPS[cls]:
        acc += numpy.einsum("ia,jb,kc,ld,abcd->ijkl", R, R, R, R, T)
    P = tensor_to_voigt(acc / len(GROUPS[cls]))
    P = (P + P.T) / 2
    P[numpy.abs(P) < 1e-13 * numpy.abs(P).max()] = 0.0
    return P


def random_spd(rng, lo=60.0, hi=600.0):
    """random symmetric positive definite 6x6 in Ry/bohr^3 with eigenvalues between lo and hi GPa"""
    A = numpy.array([[rng.gauss(0, 1) for _ in range(6)] for _ in range(6)])
    Q, _ = numpy.linalg.qr(A)
    lam = numpy.array([math.exp(rng.uniform(math.log(lo), math.log(hi))) for _ in range(6)]) / GPA
    M = Q @ numpy.diag(lam) @ Q.T
    return (M + M.T) / 2


def physical_spd(rng):
    """orthotropic-dominant stiffness with small general couplings (mineral-like), positive definite"""
    while True:
        M = numpy.zeros((6, 6))
        for i in range(3):
            M[i, i] = rng.uniform(250, 600)
            M[i + 3, i + 3] = rng.uniform(60, 250)
        for i, j in ((0, 1), (0, 2), (1, 2)):
            M[i, j] = M[j, i] = rng.uniform(60, 200)
        for i in range(6):
            for j in range(i + 1, 6):
                if M[i, j] == 0:
                    M[i, j] = M[j, i] = rng.uniform(-40, 40)
        if numpy.linalg.eigvalsh(M).min() > 20:
            return M / GPA


def is_spd(M, floor=1e-3):
    M = numpy.asarray(M, float)
    if not numpy.all(numpy.isfinite(M)):
        return False
    ev = numpy.linalg.eigvalsh((M + M.T) / 2)
    return bool(ev.min() > floor * ev.max())


CLASSES = ["triclinic", "monoclinic", "orthorhombic", "tetragonal7", "tetragonal6", "trigonal7", "trigonal6",
           "hexagonal", "cubic", "isotropic", "triclinic-subset", "orthotropic-nine-of-21", "orthotropic+shear-shear",
           "soft-mode"]


def make_field(rng, cls, nt, ntv):
    """returns (keys [str], M[nt][ntv] 6x6 arrays) - all grid points positive definite, same key set"""
    for _ in range(200):
        base_cls = cls if cls in LAUE or cls == "isotropic" else "triclinic"
        gen = physical_spd if rng.random() < 0.5 else random_spd
        C0 = project(gen(rng), base_cls)
        D1 = project(gen(rng), base_cls)
        D2 = project(gen(rng), base_cls)
        if cls == "soft-mode":
            # positive definite with one elastically soft direction: condition number 3e3 .. 1.2e4 (below the 1e5 limit of
            # the quantifier as modelled, above anything a truncating inverse would still treat exactly)
            while True:
                C0 = random_spd(rng, lo=0.02, hi=600.0)
                ev = numpy.linalg.eigvalsh(C0)
                if 3e3 < ev.max() / ev.min() < 1.2e4:
                    break
            D1, D2 = 0.5 * C0, 0.25 * C0
        keep = None
        if cls == "triclinic-subset":
            extra = [k for k in ALL21 if k not in ORTHO]
            keep = set(ORTHO) | set(rng.sample(extra, rng.randint(1, len(extra) - 1)))
        elif cls == "orthotropic-nine-of-21":
            keep = set(ORTHO)
        elif cls == "orthotropic+shear-shear":
            # the 6x6 matrix is NOT block diagonal in the shear block, but has no axial-shear coupling
            ss = ["45", "46", "56"]
            keep = set(ORTHO) | set(rng.sample(ss, rng.randint(1, 3)))
        grid = []
        ok = True
        for it in range(nt):
            row = []
            for iv in range(ntv):
                M = C0 * (1 + 0.08 * iv) + D1 * (0.02 * it) + D2 * (0.01 * it * iv)
                if keep is not None:
                    for a in range(1, 7):
                        for b in range(a, 7):
                            if "%d%d" % (a, b) not in keep:
                                M[a - 1, b - 1] = M[b - 1, a - 1] = 0.0
                ok = ok and is_spd(M, 1e-5 if cls == "soft-mode" else 1e-3)
                row.append(M)
            grid.append(row)
        if not ok:
            continue
        if keep is not None:
            keys = [k for k in ALL21 if k in keep]
        else:
            keys = [k for k in ALL21 if k in ORTHO or any(
                grid[it][iv][int(k[0]) - 1, int(k[1]) - 1] != 0.0 for it in range(nt) for iv in range(ntv))]
        if any(grid[0][0][int(k[0]) - 1, int(k[1]) - 1] == 0.0 for k in ORTHO):
            continue
        return keys, grid
    raise RuntimeError("no positive definite field for class %s" % cls)


# ---------------------------------------------------------------------------------------------------
# running the implementation
# ---------------------------------------------------------------------------------------------------

def build_stub(keys, grid, cellmass, v_array, t_array, iso_scale):
    from cij.util import c_
    nt, ntv = len(grid), len(grid[0])
    stub = types.SimpleNamespace()
    stub.dims = (nt, ntv)
    stub.modulus_keys = [c_(k) for k in keys]
    stub.modulus_adiabatic = {}
    stub.modulus_isothermal = {}
    for k in keys:
        a, b = int(k[0]), int(k[1])
        arr = numpy.array([[grid[it][iv][a - 1, b - 1] for iv in range(ntv)] for it in range(nt)])
        stub.modulus_adiabatic[c_(k)] = arr
        stub.modulus_isothermal[c_(k)] = arr * iso_scale      # deliberately different from adiabatic
    stub.elast_data = types.SimpleNamespace(cellmass=cellmass)
    vb = types.SimpleNamespace(v_array=numpy.array(v_array, float), t_array=numpy.array(t_array, float))
    stub.qha_calculator = types.SimpleNamespace(volume_base=vb)
    return stub


def observe_interface(vbi, nt, ntv):
    """all reported quantities of a CijVolumeBaseInterface: {name: array or None}, errors {name: repr}"""
    out, err = {}, {}
    for q in QUANT:
        try:
            a = numpy.asarray(getattr(vbi, q), float)
            out[q] = numpy.broadcast_to(a, (nt, ntv))
        except BaseException as e:
            out[q] = None
            err[q] = type(e).__name__
    comp = {}
    for k in ALL21:
        try:
            comp[k] = numpy.broadcast_to(numpy.asarray(getattr(vbi, "s" + k), float), (nt, ntv))
        except AttributeError:
            comp[k] = None
        except BaseException as e:
            comp[k] = None
            err["s" + k] = type(e).__name__
    return out, comp, err


def points_of(label, keys, table_of, out, comp, err, cellmass, v_array, nt, ntv, pick=None):
    """flatten a field into per-grid-point cases"""
    pts = []
    for it in range(nt):
        for iv in range(ntv):
            if pick is not None and (it, iv) not in pick:
                continue
            tbl = [(int(k[0]), int(k[1]), float(table_of(k)[it, iv])) for k in keys]
            sobs = [(int(k[0]), int(k[1]), float(comp[k][it, iv])) for k in ALL21 if comp[k] is not None]
            outs = [float(out[q][it, iv]) if out[q] is not None else float("nan") for q in QUANT]
            C = numpy.zeros((6, 6))
            for a, b, v in tbl:
                C[a - 1, b - 1] = C[b - 1, a - 1] = v
            ev = numpy.linalg.eigvalsh(C) if numpy.all(numpy.isfinite(C)) else numpy.array([float("nan")])
            spd = bool(ev.min() > 0)
            cond = float(abs(ev).max() / abs(ev).min()) if abs(ev).min() > 0 else float("inf")
            pts.append(dict(label=label, it=it, iv=iv, tbl=tbl, sobs=sobs, outs=outs, cellmass=float(cellmass),
                            volume=float(v_array[iv]), err=dict(err), spd=spd, cond=cond,
                            wellcond=bool(cond < COND_MAX)))
    return pts


# ---------------------------------------------------------------------------------------------------
# Coq shards
# ---------------------------------------------------------------------------------------------------
SHARD_HEADER = r"""
From Coq Require Import ZArith List Bool PrimFloat.
From Cij Require Import Ops FOps VRHModel.
Import ListNotations.
Local Open Scope float_scope.

Definition ry_impl : float := %(ry)s.       (* units.Quantity(1, rydberg).to(kg km^2/s^2) of the implementation *)
Definition na_impl : float := %(na)s.       (* scipy.constants Avogadro constant used by the implementation *)

Definition tbl := list (Z * Z * float).
(* (stiffness table in key order, published compliances, cell mass, volume,
    tolerance for |S.C - I| (1e-9; infinity when cond(C) >= 1e5), observed 8 outputs) *)
Definition case := (tbl * tbl * float * float * float * list float)%%type.

Definition close_or_nan (a b : float) : bool := (is_nan a && is_nan b) || close9 a b.
Definition model_outs (c : case) : list float :=
  let '(t, st, m, v, _, _) := c in
  let C := assemble6 t in let S := assemble6 st in
  [bulk_voigt C; bulk_reuss S; bulk_vrh C S; shear_voigt C; shear_reuss S; shear_vrh C S;
   v_primary ry_impl m v C S; v_secondary ry_impl m v C S].
Definition ok_q (q : nat) (c : case) : bool :=
  close_or_nan (nth q (model_outs c) nan) (nth q (snd c) nan).
Definition ok_inv (c : case) : bool :=
  let '(t, st, _, _, tol, _) := c in inv_residual (assemble6 st) (assemble6 t) <=? tol.
(* the model's own constants against what the implementation uses, and against CODATA *)
Definition consts_ok : list bool :=
  [close 0x1p-50 0 (N_A (OF:=FOps)) na_impl; close9 ry_impl (ry_codata (OF:=FOps))].
"""

SHARD_FOOTER = r"""
Local Close Scope float_scope.
Local Open Scope nat_scope.      (* print the index lists as plain numerals (vlib.parse_failing) *)
Eval vm_compute in (failing (ok_q 0) cases).
Eval vm_compute in (failing (ok_q 1) cases).
Eval vm_compute in (failing (ok_q 2) cases).
Eval vm_compute in (failing (ok_q 3) cases).
Eval vm_compute in (failing (ok_q 4) cases).
Eval vm_compute in (failing (ok_q 5) cases).
Eval vm_compute in (failing (ok_q 6) cases).
Eval vm_compute in (failing (ok_q 7) cases).
Eval vm_compute in (failing ok_inv cases).
Eval vm_compute in (failing (fun b : bool => b) consts_ok).
"""


def coq_tbl(t):
    return "[" + "; ".join("(%s%%Z, %s%%Z, %s)" % (zlit(a), zlit(b), fhex(v)) for a, b, v in t) + "]"


def ctol(p):
    """1e-9 for ordinarily conditioned tensors; the inverse amplifies the last-bit differences between the stiffness as
    published and as inverted by cond(C), so the residual tolerance grows with it beyond cond = 1e3"""
    c = p.get("cond", 1.0)
    return 1e-9 * max(1.0, c / 1e3) if math.isfinite(c) else 1e-9


def coq_case(p):
    return "(%s,\n   %s,\n   %s, %s, %s, [%s])" % (
        coq_tbl(p["tbl"]), coq_tbl(p["sobs"]), fhex(p["cellmass"]), fhex(p["volume"]),
        fhex(ctol(p)) if p["wellcond"] else "infinity", "; ".join(fhex(x) for x in p["outs"]))


# ---------------------------------------------------------------------------------------------------
# oracle: written from the property statement, own arithmetic
# ---------------------------------------------------------------------------------------------------
PAIR = {(1, 1): 1, (2, 2): 2, (3, 3): 3, (2, 3): 4, (3, 2): 4, (1, 3): 5, (3, 1): 5, (1, 2): 6, (2, 1): 6}


def sym6(tbl, num):
    M = [[num(0)] * 6 for _ in range(6)]
    for a, b, v in tbl:
        M[a - 1][b - 1] = num(v)
        M[b - 1][a - 1] = num(v)
    return M


def pivots_positive(M, num):
    """LDL^T elimination without pivoting: all pivots > 0 iff M (symmetric) is positive definite"""
    A = [row[:] for row in M]
    n = len(A)
    for k in range(n):
        if not A[k][k] > 0:
            return False
        for i in range(k + 1, n):
            f = A[i][k] / A[k][k]
            for j in range(k, n):
                A[i][j] = A[i][j] - f * A[k][j]
    return True


def inverse(M, num):
    n = len(M)
    A = [list(M[i]) + [num(1) if i == j else num(0) for j in range(n)] for i in range(n)]
    for k in range(n):
        p = max(range(k, n), key=lambda r: abs(A[r][k]))
        if A[p][k] == 0:
            return None
        A[k], A[p] = A[p], A[k]
        piv = A[k][k]
        A[k] = [x / piv for x in A[k]]
        for i in range(n):
            if i != k and A[i][k] != 0:
                f = A[i][k]
                A[i] = [x - f * y for x, y in zip(A[i], A[k])]
    return [row[n:] for row in A]


def full_tensor(M, compliance, num):
    """C_ijkl = c_ab;  S_ijkl = s_ab / (1, 2 or 4)  with a = ij, b = kl in Voigt notation"""
    T = {}
    for i, j, k, l in itertools.product((1, 2, 3), repeat=4):
        a, b = PAIR[(i, j)], PAIR[(k, l)]
        x = M[a - 1][b - 1]
        if compliance:
            x = x / num((1 if a <= 3 else 2) * (1 if b <= 3 else 2))
        T[(i, j, k, l)] = x
    return T


def contractions(T):
    iijj = sum(T[(i, i, j, j)] for i in (1, 2, 3) for j in (1, 2, 3))
    ijij = sum(T[(i, j, i, j)] for i in (1, 2, 3) for j in (1, 2, 3))
    return iijj, ijij


def oracle_point(p, ry_impl, num=Fraction):
    """returns list of (key, what, expected, observed) for every clause of the property that fails at p"""
    bad = []
    C6 = sym6(p["tbl"], num)
    if not pivots_positive(C6, num) or not p.get("wellcond", True):
        return bad, False                       # property only speaks about positive definite stiffness
    S6 = inverse(C6, num)
    ciijj, cijij = contractions(full_tensor(C6, False, num))
    siijj, sijij = contractions(full_tensor(S6, True, num))
    kv = ciijj / 9
    gv = (3 * cijij - ciijj) / 30
    kr = 1 / siijj
    gr = 15 / (6 * sijij - 2 * siijj)
    kh, gh = (kv + kr) / 2, (gv + gr) / 2
    # SI: rho = M / (N_A V), moduli in Pa, velocities in m/s -> reported in km/s
    rho = (num(p["cellmass"]) * num(Fraction(1, 1000)) / num(N_AVO)) / (num(p["volume"]) * num(A0_M) ** 3)
    pa = num(RY_J) / num(A0_M) ** 3
    vs2 = gh * pa / rho
    vp2 = (kh + 4 * gh / 3) * pa / rho
    exp = [kv, kr, kh, gv, gr, gh, math.sqrt(float(vp2)) / 1000.0, math.sqrt(float(vs2)) / 1000.0]
    for q, e, o in zip(QUANT, exp, p["outs"]):
        e = float(e)
        if q in p["err"]:
            bad.append((q + ":" + p["err"][q], "%s raised %s on a positive definite stiffness" % (q, p["err"][q]),
                        e, p["err"][q]))
        elif not (abs(o - e) <= ctol(p) * abs(e)):
            bad.append((q, "%s differs from the value defined by the full tensor / SI relation" % q, e, o))
    o = p["outs"]
    if all(math.isfinite(x) for x in o[:6]):
        for name, r, h, v in (("bulk", o[1], o[2], o[0]), ("shear", o[4], o[5], o[3])):
            if not (r <= h * (1 + 1e-12) and h <= v * (1 + 1e-12)):
                bad.append(("bounds-" + name, "Reuss <= Hill <= Voigt violated for the %s modulus" % name,
                            "R<=H<=V", [r, h, v]))
        if abs(o[2] - (o[0] + o[1]) / 2) > 1e-12 * abs(o[2]) or abs(o[5] - (o[3] + o[4]) / 2) > 1e-12 * abs(o[5]):
            bad.append(("hill-mean", "Hill value is not the arithmetic mean of Voigt and Reuss", None, o[:6]))
    # reported compliances are the inverse of the reported stiffness
    smax = max(abs(float(S6[i][j])) for i in range(6) for j in range(6))
    rep = {(a, b): v for a, b, v in p["sobs"]}
    for a in range(1, 7):
        for b in range(a, 7):
            e = float(S6[a - 1][b - 1])
            ob = rep.get((a, b))
            if ob is None:
                if abs(e) > 1e-9 * smax:
                    bad.append(("compliance-missing-s%d%d" % (a, b), "s%d%d is not published although it is non-zero"
                                % (a, b), e, None))
            elif not (abs(ob - e) <= ctol(p) * smax):
                bad.append(("compliances", "published s%d%d is not the (%d,%d) entry of the inverse stiffness"
                            % (a, b, a, b), e, ob))
                break
    return bad, True


def report(ctx, p, bad):
    for key, what, e, o in bad:
        ctx.failure(key, what,
                    input=dict(case=p["label"], grid_point=[p["it"], p["iv"]],
                               stiffness_Ry_per_bohr3={"c%d%d" % (a, b): v for a, b, v in p["tbl"]},
                               key_order=["%d%d" % (a, b) for a, b, _ in p["tbl"]],
                               cellmass_g_per_mol=p["cellmass"], volume_bohr3=p["volume"]),
                    expected=e, observed=o)


# ---------------------------------------------------------------------------------------------------

def run(ctx):
    rd = ctx.fresh_run_dir()
    quick = ctx.tier == "quick"
    rng = ctx.rng
    ctx.rule = ("stub calculators: random symmetric positive definite stiffness fields (half mineral-like "
                "orthotropic-dominant, half random-eigenbasis with eigenvalues 60-600 GPa), group-averaged over each "
                "Laue class (triclinic ... cubic, isotropic), plus triclinic fields restricted to random key subsets "
                "containing the nine orthotropic keys; key order shuffled; grids 2x3 .. 3x4; cell mass 20-400 g/mol, "
                "volumes 60-2000 bohr^3; every grid point is one case (non-trivial = positive definite and "
                "anisotropic inputs, all are). Plus complete Calculator runs on synthetic data sets (tools/synth.py), "
                "every second grid point.")
    ctx.trusted += [
        "numpy.linalg.inv (LAPACK) is an oracle: its output, as published through s11..s66, is checked in Coq to "
        "satisfy |S.C - I| <= 1e-9 and against an exact rational inverse in the search stage",
        "pint: the Ry -> kg km^2/s^2 factor is read from cij.util.units and checked against CODATA 2018 "
        "(2.1798723611035e-24) to 1e-9; scipy's Avogadro constant is checked against 6.02214076e23",
        "binary64 evaluation of the model formulas agrees with numpy's to 1e-9 relative (measured, not proved); the three "
        "tolerances that involve the inverse (|S.C - I|, published compliances, Reuss-derived outputs of the Python oracle) "
        "are 1e-9 * max(1, cond(C)/1e3): class soft-mode has cond 3e3 .. 1.2e4",
        "CijVolumeBaseInterface.__getattr__/REGEX_CIJ key lookup is modelled as table lookup (its index algebra is C10)",
    ]
    ctx.assumptions += [
        "theorems are over the reals (ROps); floating-point rounding of the averages is covered only by the "
        "1e-9 correspondence run",
        "reuss_le_hill_le_voigt assumes C symmetric positive definite and S.C = I exactly; S symmetric is derived",
    ]
    ctx.partial += [
        "'reported compliances are the inverse of the reported stiffness' is a checked oracle result "
        "(|S.C - I| <= 1e-9 on every case), not a theorem about LAPACK",
    ]

    import cij.core.calculator as CC
    from cij.util import units
    ry_impl = float(units.Quantity(1.0, units.rydberg).to(units.kg * units.km ** 2 / units.s ** 2).magnitude)
    import scipy.constants
    na_impl = float(scipy.constants.physical_constants["Avogadro constant"][0])

    points = []

    # -- replay of a recorded failing input --------------------------------------------------------
    if getattr(ctx, "replay_in", None) and (ctx.replay_in.get("failing_input") or {}).get("input"):
        inp = ctx.replay_in["failing_input"]["input"]
        keys = inp["key_order"]
        M = numpy.zeros((6, 6))
        for k in keys:
            a, b = int(k[0]), int(k[1])
            M[a - 1, b - 1] = M[b - 1, a - 1] = inp["stiffness_Ry_per_bohr3"]["c" + k]
        points += run_stub(CC, "replay", keys, [[M]], inp["cellmass_g_per_mol"], [inp["volume_bohr3"]], [300.0], 0.9)

    # -- 1. stub calculators ------------------------------------------------------------------------
    nfields = 100 if quick else 10000
    for n in range(nfields):
        cls = CLASSES[n % len(CLASSES)]
        nt, ntv = rng.choice([(2, 3), (1, 4), (3, 2), (3, 4)] if not quick else [(2, 3), (1, 4), (3, 2)])
        keys, grid = make_field(rng, cls, nt, ntv)
        keys = list(keys)
        rng.shuffle(keys)
        cellmass = round(rng.uniform(20, 400), 3)
        v0 = rng.uniform(60, 2000)
        v_array = [v0 * (1 - 0.03 * i) for i in range(ntv)]
        t_array = [300.0 * i for i in range(nt)]
        pts = run_stub(CC, "%s#%d" % (cls, n), keys, grid, cellmass, v_array, t_array, rng.uniform(0.8, 0.97))
        points += pts
        ctx.count("stub field, class " + cls)
        ctx.count("stub grid points", len(pts))
        ctx.count("keys supplied: %d" % len(keys))

    # -- 2. complete Calculator runs ----------------------------------------------------------------
    import synth
    ncalc = 2 if quick else 40
    for n in range(ncalc):
        keyset = [synth.ORTHO + ["46"], synth.ALL_KEYS, synth.ORTHO + ["15", "25", "35", "46"], synth.ORTHO,
                  synth.ORTHO + ["45", "56"]][n % 5]
        ds = synth.make_dataset(rng, keys=keyset)
        sp = synth.write_case(rd / ("calc%d" % n), ds)
        try:
            calc = synth.run_calculator(sp)
        except BaseException as e:
            ctx.obligation("Calculator run %d on synthetic data" % n, "machinery", False, repr(e))
            continue
        nt, ntv = calc.dims
        vbi = calc.volume_base
        out, comp, err = observe_interface(vbi, nt, ntv)
        keys = ["%d%d" % k.voigt for k in calc.modulus_keys]
        from cij.util import c_
        pick = {(it, iv) for it in range(nt) for iv in range(ntv) if (it + iv) % 2 == 0}
        pts = points_of("calculator#%d(%d keys)" % (n, len(keys)), keys, lambda k: calc.modulus_adiabatic[c_(k)],
                        out, comp, err, calc.elast_data.cellmass, numpy.asarray(vbi.v_array, float), nt, ntv, pick)
        points += pts
        ctx.count("Calculator run")
        ctx.count("Calculator grid points", len(pts))

    # -- 2b. edge cases: a compliance the VRH formulas need vanishes (exactly / numerically) --------------
    points += probe_zero_compliance(ctx, CC)

    # -- 3. correspondence inside Coq -----------------------------------------------------------------
    hdr = SHARD_HEADER % dict(ry=fhex(ry_impl), na=fhex(na_impl))
    files = []
    per = 250
    for s in range(0, len(points), per):
        chunk = points[s:s + per]
        body = "Definition cases : list case := [\n " + ";\n ".join(coq_case(p) for p in chunk) + "].\n"
        files.append(write(rd / ("cases_%02d.v" % (s // per)), hdr + body + SHARD_FOOTER))
    res = ctx.run_shards(files, label="VRH model vs implementation")
    failing_idx = set()
    names = QUANT + ["S.C=I", "constants"]
    tie_fail = {}
    for fi, f in enumerate(files):
        ok, fl, txt = res[f]
        if ok and (len(fl) != 10 or "%nat" in txt or txt.count(": list nat") != 10):
            ctx.obligation("shard output of %s is parseable (10 index lists)" % f.name, "machinery", False, txt)
        if len(fl) != 10:
            continue
        for qi, lst in enumerate(fl):
            if qi == 9:
                if lst:
                    tie_fail.setdefault(names[qi], []).extend(["N_A" if i == 0 else "Ry" for i in lst])
                continue
            for i in lst:
                failing_idx.add(fi * per + i)
                tie_fail.setdefault(names[qi], []).append(points[fi * per + i]["label"])
    if tie_fail:
        ctx.extra["tie_failing"] = {k: sorted(set(v))[:10] for k, v in tie_fail.items()}

    spd_count = 0
    for i, p in enumerate(points):
        good = p["spd"] and p["wellcond"]
        spd_count += good
        ctx.case(dict(tbl=p["tbl"], m=p["cellmass"], v=p["volume"]), nontrivial=good)
    ctx.count("positive definite cases with cond < 1e5", spd_count)
    ctx.count("cases outside the quantifier (not positive definite or cond >= 1e5; formulas still compared)",
              len(points) - spd_count)
    for p in points[:2] + points[-1:]:
        ctx.sample(dict(case=p["label"], grid_point=[p["it"], p["iv"]],
                        stiffness_GPa={"c%d%d" % (a, b): round(v * GPA, 3) for a, b, v in p["tbl"]},
                        cellmass=p["cellmass"], volume_bohr3=p["volume"],
                        observed=dict(zip(QUANT, p["outs"]))))

    # -- 4. theorems --------------------------------------------------------------------------------
    if (PROPS / "Prop_C07.v").exists():
        shutil.copy(PROPS / "Prop_C07.v", rd / "Prop_C07.v")
        ctx.prove(rd / "Prop_C07.v", "Prop_C07.v (theorems about VRHModel at the R instance)", "theorem-file")
        # static translator tie: formulas of calculator.py regenerated and proved equal to VRHModel.v (over R)
        from props import vrh_static
        vrh_static.static_tie(ctx, rd, groups=vrh_static.CALCULATOR_GROUPS)
    else:
        ctx.obligation("Prop_C07.v present", "theorem-file", False, "props/Prop_C07.v missing")

    # -- 5. search stage ----------------------------------------------------------------------------
    # exact rational oracle on every failing case and on the first grid point of every field,
    # float evaluation of the same oracle on everything else
    exact_budget = 150 if quick else 15000
    seen_labels = set()
    n_exact = n_float = 0
    for i, p in enumerate(points):
        first = p["label"] not in seen_labels
        seen_labels.add(p["label"])
        exact = (i in failing_idx and n_exact < 4 * exact_budget) or (first and n_exact < exact_budget)
        bad, spd = oracle_point(p, ry_impl, Fraction if exact else float)
        if exact:
            n_exact += 1
        else:
            n_float += 1
        report(ctx, p, bad)
    ctx.extra["oracle_points"] = dict(exact_rational=n_exact, float=n_float)
    const_bad = []
    if abs(Fraction(na_impl) - N_AVO) > N_AVO * Fraction(1, 10 ** 12):
        const_bad.append(("avogadro", float(N_AVO), na_impl))
    if abs(Fraction(ry_impl) - RY_J / 10 ** 6) > RY_J / 10 ** 6 * Fraction(1, 10 ** 9):
        const_bad.append(("rydberg-to-kg-km2-s-2", float(RY_J / 10 ** 6), ry_impl))
    for k, e, o in const_bad:
        ctx.failure("constant-" + k, "unit constant used by the implementation is not the CODATA/SI value",
                    input=k, expected=e, observed=o)



def run_stub(CC, label, keys, grid, cellmass, v_array, t_array, iso_scale):
    nt, ntv = len(grid), len(grid[0])
    stub = build_stub(keys, grid, cellmass, v_array, t_array, iso_scale)
    err0 = {}
    try:
        CC.Calculator._calculate_compliances(stub)       # the real method, unbound, on the stub
    except BaseException as e:
        stub._compliances = {}
        err0 = {"_calculate_compliances": type(e).__name__}
    vbi = CC.CijVolumeBaseInterface(stub)
    out, comp, err = observe_interface(vbi, nt, ntv)
    err.update(err0)
    from cij.util import c_
    return points_of(label, keys, lambda k: stub.modulus_adiabatic[c_(k)], out, comp, err, cellmass,
                     numpy.asarray(v_array, float), nt, ntv)


def probe_zero_compliance(ctx, CC):
    """positive definite orthotropic stiffness whose inverse has s12 = 0 (c12 c33 = c13 c23) or |s_ij| < 1e-8
    off the diagonal: _calculate_compliances used to drop compliances that are allclose to 0, after which
    every Reuss/Hill/velocity property raised AttributeError.  When the implementation does not raise, the
    points are ordinary cases (returned; they go through the Coq shards and the oracle); when it raises, the
    failure is reported under one stable key and the points are kept out of the shards."""
    probes = [
        ("probe:s12=0 exactly (c12*c33=c13*c23)",
         {"11": 5, "22": 5, "33": 4, "12": 1, "13": 2, "23": 2, "44": 1, "55": 1, "66": 1}, 0.002),
        ("probe:|s12|,|s13|,|s23|<1e-8 (weak coupling)",
         {"11": 1, "22": 1.5, "33": 2, "12": 1e-11, "13": 2e-11, "23": 1e-11, "44": 0.5, "55": 0.6, "66": 0.7}, 0.02),
    ]
    regular = []
    for label, vals, scale in probes:
        M = numpy.zeros((6, 6))
        for k, v in vals.items():
            a, b = int(k[0]), int(k[1])
            M[a - 1, b - 1] = M[b - 1, a - 1] = v * scale
        pts = run_stub(CC, label, list(vals), [[M]], 100.0, [200.0], [300.0], 0.9)
        p = pts[0]
        ctx.count("edge case: vanishing off-diagonal compliance")
        raised = [q for q in QUANT if p["err"].get(q) == "AttributeError"]
        if raised:
            bad, spd = oracle_point(p, None, Fraction)
            e = [b[2] for b in bad if b[0].startswith("bulk_modulus_reuss:")]
            ctx.case(dict(probe=label, tbl=p["tbl"]))
            ctx.failure("reuss-raises-when-s12-vanishes",
                        "bulk_modulus_reuss (and Hill, velocities) raise AttributeError for a positive definite "
                        "stiffness whose inverse has a vanishing s12/s13/s23: _calculate_compliances drops "
                        "compliances that are allclose to 0 and __getattr__ then rejects the name",
                        input=dict(case=label, grid_point=[0, 0],
                                   stiffness_Ry_per_bohr3={"c%d%d" % (a, b): v for a, b, v in p["tbl"]},
                                   key_order=["%d%d" % (a, b) for a, b, _ in p["tbl"]],
                                   cellmass_g_per_mol=p["cellmass"], volume_bohr3=p["volume"]),
                        expected=dict(bulk_modulus_reuss=e[0] if e else None), observed="AttributeError in " + ", ".join(raised))
        else:
            regular += pts
    return regular
